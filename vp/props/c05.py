"""C05 — internal queue limits are never exceeded (cylc/flow/task_queues/independent.py).

Component level: the real IndepQueueManager / LimitedTaskQueue driven with
lightweight fake task proxies (the attributes the code reads: tdef.name,
state.is_held, identity) over generated queue configurations and op sequences.
(The scheduler-level stream that recounts active members per release from a
running pool is appended to STREAMS elsewhere.)
"""
from vp.core import Stream
from vp import coqfmt as q

TRUSTED = [
    "hand model Model/Queues.v of task_queues/independent.py + TaskQueueManagerBase._expand_families "
    "(names numbered by the harness; Python sets as lists, deque as arrival-order list)",
    "fake task proxies stand for TaskProxy (only tdef.name, state.is_held and object identity are read)",
]
ASSUMES = [
    "`default` is the first key of [scheduling][queues] (what the parsec spec/WorkflowConfig produces; "
    "c05_partition_refuted_without_default_first shows it is needed)",
    "orphans given to adopt_tasks are not members of another queue",
    "a task proxy is pushed at most once while queued (TaskPool.queue_task guards with is_queued)",
]

SIG_HELD = "queues:held-task-passed-over-requeued-behind-later-arrivals"

ROOT = 199
FAM0 = 100
UNKNOWN0 = 300
ORPHAN0 = 400


def _nm(k):
    return f"n{k}"


def _qn(k):
    return "default" if k == 0 else f"q{k}"


# ---------------------------------------------------------------- generator
def _gen_config(rng, kind):
    nt = rng.randint(1, 6)
    tasks = list(range(nt))
    nf = rng.randint(0, 3)
    fams = [FAM0 + i for i in range(nf)]
    desc = []
    for f in fams:
        pool = tasks + [g for g in fams if g != f] + ([UNKNOWN0] if rng.random() < 0.1 else [])
        desc.append([f, rng.sample(pool, rng.randint(0, min(4, len(pool))))])
    if rng.random() < 0.8:
        desc.append([ROOT, tasks + fams])
    if rng.random() < 0.06:
        # degenerate: a task name that is also a key of the family dict
        desc.append([tasks[0], rng.sample(tasks, rng.randint(0, len(tasks)))])
    nq = rng.choice([0, 1, 1, 2, 2, 3])
    qs = [[0, rng.randint(0, 3), rng.sample(tasks, rng.randint(0, min(2, nt))) if rng.random() < 0.2 else []]]
    for i in range(1, nq + 1):
        pool = tasks + fams + [UNKNOWN0 + 1]
        mem = [rng.choice(pool) for _ in range(rng.randint(0, 4))]
        qs.append([i, rng.randint(0, 3), mem])
    if kind == "default_not_first" and len(qs) > 1:
        d = qs.pop(0)
        qs.insert(rng.randint(1, len(qs)), d)
    elif kind == "default_not_first":
        kind = "valid"
    if kind == "nodefault":
        qs = qs[1:]
    return tasks, desc, qs, kind


def _gen_ops(rng, tasks, n_ops, consistent, dup_push):
    ops = []
    next_id = 0
    queued_guess = []          # ids pushed (may have been released since; fine)
    all_ids = []
    for _ in range(n_ops):
        x = rng.random()
        if x < 0.40 or not all_ids:
            if dup_push and all_ids and rng.random() < 0.3:
                i = rng.choice(all_ids)
                ops.append(["push", i[0], i[1]])
            else:
                nm = rng.choice(tasks) if rng.random() < 0.95 else UNKNOWN0 + 2
                held = rng.random() < 0.25
                ops.append(["push", next_id, nm])
                if held:
                    ops.insert(len(ops) - 1, ["held", next_id, 1])
                all_ids.append((next_id, nm))
                queued_guess.append(next_id)
                next_id += 1
        elif x < 0.65:
            if consistent:
                # which of the tasks released earlier (in release order, cyclically)
                # have finished by now; resolved by the driver
                ops.append(["rel", [], "track", [int(rng.random() < 0.4) for _ in range(7)]])
            else:
                cnt = {}
                for _k in range(rng.randint(0, 3)):
                    n = rng.choice(tasks + [UNKNOWN0 + 2])
                    cnt[n] = cnt.get(n, 0) + rng.randint(1, 2)
                ops.append(["rel", sorted(cnt.items())])
        elif x < 0.80:
            i = rng.choice(all_ids)[0]
            ops.append(["held", i, rng.randint(0, 1)])
        elif x < 0.90:
            i = rng.choice(all_ids)[0] if rng.random() < 0.9 else 999
            ops.append(["rm", i])
        elif x < 0.97:
            nm = rng.choice(tasks)
            cnt = {}
            for _k in range(rng.randint(0, 3)):
                n = rng.choice(tasks)
                cnt[n] = cnt.get(n, 0) + rng.randint(1, 2)
            ops.append(["pil", next_id, nm, sorted(cnt.items())])
            all_ids.append((next_id, nm))
            next_id += 1
        else:
            ops.append(["adopt", [ORPHAN0 + rng.randint(0, 2) for _ in range(rng.randint(1, 2))]])
    return ops


# in consistent mode the active counter of a release depends on what earlier
# releases returned; it is resolved while running (the same rule is applied by
# the driver and recorded in the result so the Coq case gets the real counter).

class QueueStream(Stream):
    name = "queues"
    coq_import = "From Cylc Require Import Model.Queues."
    check_fn = "Queues.check_case"
    show_fn = "Queues.model_out"
    rule = ("random queue configs (1-6 tasks, 0-3 families incl. nested/undefined members, 0-3 extra queues with "
            "overlapping memberships, limits 0..3; kinds default_not_first / nodefault / dup_push tagged) and op "
            "sequences push/release(active counter: tracked from earlier releases or arbitrary)/remove/hold flags/"
            "push_if_limited/adopt; non-trivial = an extra queue exists and some release returned a task; "
            "thorough adds all 2-queue membership overlaps on 3 tasks")
    n_hashseeds = 4
    shard_size = 150

    def corpus(self):
        return [
            # regression case (finding fixed in ffd4e73): limit 1; A(held) B C queued; B released;
            # A un-held; the next release must give A (it gave C: A had lost its place)
            {"all": [0, 1, 2], "desc": [[ROOT, [0, 1, 2]]], "qconfig": [[0, 1, []]],
             "ops": [["held", 0, 1], ["push", 0, 0], ["push", 1, 1], ["push", 2, 2], ["rel", []],
                     ["held", 0, 0], ["rel", []]], "kind": "valid"},
            # regression case (same fix): two held tasks H1 X H2, limit 1, must not swap
            {"all": [0, 1, 2], "desc": [], "qconfig": [[0, 1, []]],
             "ops": [["held", 0, 1], ["held", 2, 1], ["push", 0, 0], ["push", 1, 1], ["push", 2, 2], ["rel", []],
                     ["held", 0, 0], ["held", 2, 0], ["rel", []]], "kind": "valid"},
            # default not first: precondition witness (task 0 ends up in two queues)
            {"all": [0, 1], "desc": [], "qconfig": [[1, 1, [0]], [0, 1, []]],
             "ops": [["push", 0, 0], ["rel", []]], "kind": "default_not_first"},
            # last assignment wins, families, the unit test's shape
            {"all": [0, 1, 2, 3], "desc": [[ROOT, [0, 1, 2, 3, 100, 101]], [100, [0, 1]], [101, [2, 3]]],
             "qconfig": [[0, 2, []], [1, 1, [100, 3]], [2, 3, [101, 0]]],
             "ops": [["push", 0, 0], ["push", 1, 1], ["push", 2, 2], ["push", 3, 3], ["push", 4, 1],
                     ["rel", [[1, 1]]], ["rel", []]], "kind": "valid"},
            {"all": [0], "desc": [], "qconfig": [[1, 1, [0]]], "ops": [], "kind": "nodefault"},
        ]

    def gen(self, rng, tier):
        cases = []
        n = 260 if tier == "quick" else 8000
        for i in range(n):
            r = rng.random()
            kind = "valid" if r < 0.82 else "default_not_first" if r < 0.90 else "dup_push" if r < 0.97 else "nodefault"
            tasks, desc, qs, kind2 = _gen_config(rng, kind if kind != "dup_push" else "valid")
            if kind != "dup_push":
                kind = kind2
            ops = [] if kind == "nodefault" else _gen_ops(
                rng, tasks, rng.randint(3, 24), consistent=rng.random() < 0.6, dup_push=(kind == "dup_push"))
            cases.append({"all": tasks, "desc": desc, "qconfig": qs, "ops": ops, "kind": kind})
        if tier == "thorough":
            # exhaustive: 3 tasks, default + two queues, every pair of membership subsets, limits 1
            import itertools
            subsets = [list(s) for k in range(4) for s in itertools.combinations([0, 1, 2], k)]
            for a in subsets:
                for b in subsets:
                    ops = [["push", i, i] for i in range(3)] + [["rel", []], ["rel", [[0, 1]]]]
                    cases.append({"all": [0, 1, 2], "desc": [], "qconfig": [[0, 1, []], [1, 1, a], [2, 1, b]],
                                  "ops": ops, "kind": "exhaustive3"})
        return cases

    # ------------------------------------------------------------ driver
    def impl(self, cases):
        from collections import Counter
        from cylc.flow.task_queues.independent import IndepQueueManager

        class _S:
            __slots__ = ("is_held",)

        class _D:
            __slots__ = ("name",)

        class FakeTask:
            __slots__ = ("id", "tdef", "state")

            def __init__(self, i, nm):
                self.id = i
                self.tdef = _D()
                self.tdef.name = nm
                self.state = _S()
                self.state.is_held = False

        def view(mgr):
            out = []
            for qn, qu in mgr.queues.items():
                out.append([0 if qn == "default" else int(qn[1:]), qu.limit,
                            sorted(int(m[1:]) for m in qu.members)])
            return out

        def snap(mgr):
            return [[t.id for t in reversed(qu.deque)] for qu in mgr.queues.values()]

        out = []
        for c in cases:
            try:
                qconfig = {_qn(k): {"limit": lim, "members": [_nm(m) for m in mem]} for k, lim, mem in c["qconfig"]}
                desc = {_nm(k): [_nm(m) for m in v] for k, v in c["desc"]}
                try:
                    mgr = IndepQueueManager(qconfig, [_nm(t) for t in c["all"]], desc)
                except KeyError as e:
                    out.append({"init": None, "err": repr(e)})
                    continue
                res = {"init": view(mgr), "trace": []}
                tasks = {}
                held_pending = {}
                active_names = []      # consistent ("track") mode: names released by earlier track-releases
                for o in c["ops"]:
                    k = o[0]
                    if k == "push" or k == "pil":
                        t = tasks.get(o[1])
                        if t is None:
                            t = tasks[o[1]] = FakeTask(o[1], _nm(o[2]))
                            t.state.is_held = held_pending.get(o[1], False)
                        if k == "push":
                            mgr.push_task(t)
                            ob = None
                        else:
                            ob = bool(mgr.push_task_if_limited(t, Counter({_nm(n): cn for n, cn in o[3]})))
                        res["trace"].append({"obs": ob, "snap": snap(mgr)})
                    elif k == "rel":
                        if len(o) > 2 and o[2] == "track":
                            fin = o[3]
                            active_names = [a for j, a in enumerate(active_names) if not fin[j % len(fin)]]
                            cnt = Counter(active_names)
                        else:
                            cnt = Counter({_nm(n): cn for n, cn in o[1]})
                        before = sorted((int(n[1:]), cn) for n, cn in cnt.items() if cn)
                        rel = mgr.release_tasks(cnt)
                        if len(o) > 2 and o[2] == "track":
                            active_names += [t.tdef.name for t in rel]
                        res["trace"].append({
                            "obs": {"rel": [t.id for t in rel], "names": [int(t.tdef.name[1:]) for t in rel],
                                    "active_before": before,
                                    "active_after": sorted((int(n[1:]), cn) for n, cn in cnt.items() if cn)},
                            "snap": snap(mgr)})
                    elif k == "rm":
                        t = tasks.get(o[1]) or FakeTask(o[1], "n0")
                        res["trace"].append({"obs": bool(mgr.remove_task(t)), "snap": snap(mgr)})
                    elif k == "held":
                        if o[1] in tasks:
                            tasks[o[1]].state.is_held = bool(o[2])
                        else:
                            held_pending[o[1]] = bool(o[2])
                        res["trace"].append({"obs": None, "snap": snap(mgr)})
                    elif k == "adopt":
                        mgr.adopt_tasks([_nm(n) for n in o[1]])
                        res["trace"].append({"obs": None, "snap": snap(mgr)})
                res["final"] = view(mgr)
                out.append(res)
            except Exception as e:  # noqa
                out.append({"exc": f"{type(e).__name__}: {e}"})
        return out

    # ------------------------------------------------------------ Coq case
    @staticmethod
    def _counter(items):
        return q.clist(q.cpair(q.cnat(n), q.cnat(cn)) for n, cn in items)

    @staticmethod
    def _view(v):
        return q.clist(q.cpair(q.cnat(k), q.cpair(q.cnat(lim), q.clist(q.cnat(m) for m in mem)))
                       for k, lim, mem in v)

    def coq_case(self, c, r):
        if "exc" in r:
            return None
        task = lambda i, n: "{| t_id := %s; t_name := %s |}" % (q.cnat(i), q.cnat(n))  # noqa
        qcfg = q.clist(q.cpair(q.cnat(k), "{| qc_limit := %s; qc_members := %s |}" % (
            q.cnat(lim), q.clist(q.cnat(m) for m in mem))) for k, lim, mem in c["qconfig"])
        desc = q.clist(q.cpair(q.cnat(k), q.clist(q.cnat(m) for m in v)) for k, v in c["desc"])
        trace = []
        if r["init"] is not None:
            for o, t in zip(c["ops"], r["trace"]):
                k = o[0]
                if k == "push":
                    op, ob = f"(OPush {task(o[1], o[2])})", "ObsUnit"
                elif k == "pil":
                    op = f"(OPushIfLimited {task(o[1], o[2])} {self._counter(o[3])})"
                    ob = f"(ObsBool {q.cbool(t['obs'])})"
                elif k == "rel":
                    op = f"(ORelease {self._counter(t['obs']['active_before'])})"
                    ob = f"(ObsReleased {q.clist(q.cnat(i) for i in t['obs']['rel'])} {self._counter(t['obs']['active_after'])})"
                elif k == "rm":
                    op, ob = f"(ORemove {q.cnat(o[1])})", f"(ObsBool {q.cbool(t['obs'])})"
                elif k == "held":
                    op, ob = f"(OSetHeld {q.cnat(o[1])} {q.cbool(o[2])})", "ObsUnit"
                else:
                    op, ob = f"(OAdopt {q.clist(q.cnat(n) for n in o[1])})", "ObsUnit"
                snap = q.clist(q.clist(q.cnat(i) for i in dq) for dq in t["snap"])
                trace.append(q.ctuple(op, ob, snap))
        return q.crecord(
            c_all=q.clist(q.cnat(t) for t in c["all"]), c_desc=desc, c_qconfig=qcfg,
            c_impl_init=q.copt(r["init"], self._view),
            c_trace=q.clist(trace),
            c_impl_final=self._view(r.get("final", [])))

    # ------------------------------------------------------------ oracle
    @staticmethod
    def _expected_partition(c):
        """reference: owner of each task name = last non-default queue listing it
        (directly or through a family), else default."""
        desc = {k: v for k, v in c["desc"]}
        alls = set(c["all"])

        def tasks_of(members):
            s = set()
            for m in members:
                if m in desc:
                    s |= {f for f in desc[m] if f not in desc and f in alls}
                elif m in alls:
                    s.add(m)
            return s
        owner = {}
        for t in tasks_of(c["all"]):
            owner[t] = 0
        for k, _lim, mem in c["qconfig"]:
            if k != 0:
                for t in tasks_of(mem):
                    owner[t] = k
        return owner

    def _run_oracle(self, c, r, back_requeue=False):
        """Reference queue semantics stated directly from the property text.
        back_requeue=True applies the one known deviation (held tasks passed over by
        a limited queue go behind later arrivals) — used only to classify."""
        if "exc" in r:
            return "unexpected exception: " + r["exc"]
        kind = c.get("kind", "valid")
        if r["init"] is None:
            return None if kind == "nodefault" else "constructor raised " + r.get("err", "?")
        if kind == "nodefault":
            return "constructor accepted a config without a default queue"
        if kind == "default_not_first":
            return None            # precondition of the partition not met: correspondence only
        owner = self._expected_partition(c)
        limits = {}
        for k, lim, _ in c["qconfig"]:
            limits[k] = lim
        exp_members = {k: sorted(t for t, o in owner.items() if o == k) for k in limits}
        got = {k: mem for k, _lim, mem in r["init"]}
        if [k for k, _, _ in r["init"]] != [k for k, _, _ in c["qconfig"]]:
            return "partition: queue names/order changed"
        for k in limits:
            if got.get(k) != exp_members[k]:
                return f"partition: queue {k} has members {got.get(k)}, expected {exp_members[k]} (last listing queue wins, else default)"
        for k, lim, _ in r["init"]:
            if lim != limits[k]:
                return f"partition: limit of queue {k} changed"
        if kind == "dup_push":
            return None
        order = {k: [] for k in limits}      # queued ids in the order they were queued
        names, held = {}, {}
        for o, t in zip(c["ops"], r["trace"]):
            k = o[0]
            if k == "held":
                held[o[1]] = bool(o[2])
            elif k == "push":
                names[o[1]] = o[2]
                qk = owner.get(o[2])
                if qk is not None:
                    order[qk].append(o[1])
            elif k == "pil":
                names[o[1]] = o[2]
                qk = owner.get(o[2])
                act = dict(o[3])
                exp = False
                if qk is not None and limits[qk] > 0:
                    n_act = sum(act.get(m, 0) for m, ow in owner.items() if ow == qk)
                    exp = n_act >= limits[qk]
                if t["obs"] != exp:
                    return f"push_if_limited returned {t['obs']}, expected {exp}"
                if exp:
                    order[qk].append(o[1])
            elif k == "rm":
                exp = any(o[1] in l for l in order.values())
                if t["obs"] != exp:
                    return f"remove_task returned {t['obs']}, expected {exp}"
                for l in order.values():
                    if o[1] in l:
                        l.remove(o[1])
            elif k == "adopt":
                for n in o[1]:
                    owner.setdefault(n, 0)
            elif k == "rel":
                act = dict(t["obs"]["active_before"])
                rel = t["obs"]["rel"]
                if len(set(rel)) != len(rel):
                    return "release: a task was released twice"
                for i in rel:
                    if held.get(i, False):
                        return f"release: held task {i} released"
                    if not any(i in l for l in order.values()):
                        return f"release: task {i} released but not queued"
                for qk in limits:
                    mine = [i for i in rel if i in order[qk]]
                    n_act = sum(act.get(m, 0) for m, ow in owner.items() if ow == qk)
                    lim = limits[qk]
                    if lim > 0 and mine and n_act + len(mine) > lim:
                        return (f"limit: queue {qk} (limit {lim}) released {len(mine)} with {n_act} active members")
                    elig = [i for i in order[qk] if not held.get(i, False)]
                    room = len(elig) if lim == 0 else max(0, lim - n_act)
                    exp = elig[:room]
                    if mine != exp:
                        if sorted(mine) != sorted(exp) and len(mine) < len(exp):
                            return f"starved: queue {qk} released {mine}, expected {exp} (room {room})"
                        return f"fifo: queue {qk} released {mine}, expected {exp} (queued order {order[qk]})"
                    if back_requeue and lim > 0:
                        # popped prefix = up to and including the last released (or everything
                        # scanned while there was room); held ones in it go to the back
                        popped, n, rest = [], n_act, list(order[qk])
                        while rest and n < lim:
                            x = rest.pop(0)
                            popped.append(x)
                            if not held.get(x, False):
                                n += 1
                        order[qk] = rest + [x for x in popped if held.get(x, False)]
                    else:
                        order[qk] = [i for i in order[qk] if i not in mine]
                # the counter handed in must now include the released tasks
                after = dict(t["obs"]["active_after"])
                exp_after = dict(act)
                for n in t["obs"]["names"]:
                    exp_after[n] = exp_after.get(n, 0) + 1
                if after != exp_after:
                    return f"release: active counter after = {after}, expected {exp_after}"
        got = {k: mem for k, _lim, mem in r["final"]}
        for k in limits:
            exp = sorted(t for t, o in owner.items() if o == k)
            if got.get(k) != exp:
                return f"final memberships of queue {k}: {got.get(k)}, expected {exp}"
        return None

    def oracle(self, c, r):
        return self._run_oracle(c, r, back_requeue=False)

    def classify(self, c, r, failure):
        if failure.startswith("fifo:"):
            # the known deviation: fully explained by "held tasks passed over by a
            # limited queue are re-queued behind later arrivals"
            if self._run_oracle(c, r, back_requeue=True) is None and any(
                    o[0] == "held" and o[2] for o in c["ops"]):
                return SIG_HELD
            return "queues:fifo-order"
        return "queues:" + failure.split(":")[0].split(" ")[0]

    def key(self, c, r):
        if not isinstance(r, dict) or r.get("init") is None or len(c["qconfig"]) < 2:
            return None
        if not any(isinstance(t["obs"], dict) and t["obs"]["rel"] for t in r.get("trace", [])):
            return None
        return super().key(c, r)

    def shrink(self, c):
        ops = c["ops"]
        for i in range(len(ops)):
            yield {**c, "ops": ops[:i] + ops[i + 1:]}
        if len(c["qconfig"]) > 1:
            for i in range(len(c["qconfig"])):
                if c["qconfig"][i][0] != 0:
                    yield {**c, "qconfig": c["qconfig"][:i] + c["qconfig"][i + 1:]}
        for i, d in enumerate(c["desc"]):
            yield {**c, "desc": c["desc"][:i] + c["desc"][i + 1:]}


STREAMS = [QueueStream()]

META = {
    "level_text": (
        "Coq theorems over Model/Queues.v (component level): after _make_indep with `default` first every name is in "
        "exactly the last listing queue else default (with the refuting witness when default is not first); "
        "LimitedTaskQueue.release never takes a limited queue's active-member count above max(limit, count before), also "
        "for release_tasks over all queues threading the shared counter; the released tasks are exactly the longest "
        "fitting prefix, in queued order, of the non-held tasks; every other task stays queued exactly once; the "
        "queue-membership invariant holds over all op sequences; the tasks left in a queue keep their queued order across "
        "a release (c05_order_preserved, for the code after fix ffd4e73: held tasks that were passed over go back to the "
        "front in order; the refutation for the pre-fix variant is kept, labelled as such, and its witnesses are "
        "regression cases of the stream). The model is tied to the real IndepQueueManager by differential op sequences "
        "compared in Coq."),
    "level_note": (
        "Hand model (not a translation); fake task proxies; the pool-level recount of active members "
        "(TaskPool.count_active_tasks, waiting_on_job_prep) is checked by the scheduler-level stream, not here. "
        "Trusted: Coq kernel+VM, harness."),
    "technique": "Coq proof (invariants by induction over op sequences) + in-Coq differential correspondence + reference-queue oracle",
    "design_ref": "5/C05",
}

# scheduler-level stream: the pool automaton (Model/Pool.v) accepts every real run; see Props/C05.v (pool theorems)
from vp.sched.stream import SchedStream  # noqa: E402
STREAMS.append(SchedStream('C05', name="sched-queues", feat={'queues': True, 'hold': True, 'retries': True}, n_quick=28, n_thorough=500))
STREAMS.append(SchedStream('C05', name="sched-queues-slow-submit", feat={'queues': True, 'submit_delay': True}, n_quick=24, n_thorough=500))
META["level_text"] += (" Scheduler level: every real run of generated workflows with queue limits, holds and retries must be "
                       "accepted by the pool automaton (Model/Pool.v), whose accepted releases are proved to respect every "
                       "queue limit counting active and released-awaiting-preparation members, never to release a held task, "
                       "with manual triggering the only exemption (c05_pool_* theorems).")
