"""C17 — datetime recurrences are consistent with brute-force enumeration and
the caches of ISO8601Sequence are transparent (cylc/flow/cycling/iso8601.py).

One correspondence stream against Model/IsoSeq.v: real ISO8601Sequence
objects (all recurrence formats of CylcTimeParser, relative / truncated
points, exclusion points and exclusion sequences, 4 calendars, time zones,
expanded years, several cache sizes) are asked random query sessions; the
Gallina model is instantiated with the points obtained by iterating the real
recurrence and with the observed answers of the TimeRecurrence object
(get_next / get_prev / get_is_valid), which also evaluates the hypotheses the
theorems make about the recurrence on every sample.
"""
import re

from vp.core import Stream
from vp import coqfmt as q
from vp.props import c18_isoref as R

TRUSTED = [
    "hand model Model/IsoSeq.v of ISO8601Sequence (is_on_sequence+lru_cache, is_valid, get_prev_point, "
    "get_nearest_prev_point, get_next_point, _check_and_cache_next_point, get_next_point_on_sequence, get_first_point, "
    "get_start_point, get_stop_point and the four cache attributes with their eviction)",
    "metomi.isodatetime TimeRecurrence (iteration, get_next, get_prev, get_is_valid) and ISO8601Exclusions membership "
    "enter as Section variables with hypotheses H_sorted/H_next/H_valid/H_prev; evaluated on every sampled sequence",
    "points are compared through their instants, decoded from the standard-format strings by vp/props/c18_isoref.py",
    "cache size set through the module global iso8601._LARGE_LRU_CACHE_SIZE (what CYLC_CYCLER_LRU_CACHE_SIZE sets at import)",
    "unbounded recurrences are observed through a prefix of 50 points; queries stay 15 points away from its end",
]
ASSUMES = [
    "query points are standardised cycle point strings on the format's minute grid",
    "get_prev_point / get_next_point_on_sequence are specified for points of the recurrence (possibly excluded) only",
    "one cycle point configuration per process (harness clears iso8601's module-level lru_caches when switching)",
]

LIMIT = 50          # points of an unbounded recurrence that are enumerated
MARGIN = 15         # queries stay this many points away from the end of the prefix
METHODS = ["on", "valid", "prev", "nprev", "next", "nexton", "first", "start", "stop"]
QCTOR = {"on": "QOn", "valid": "QValid", "prev": "QPrev", "nprev": "QNPrev", "next": "QNext",
         "nexton": "QNextOn", "first": "QFirst"}
SIG_PREV = "seq:get_prev_point:month-or-year-step-not-invertible"
SIG_NEXT = "seq:get_next:month-or-year-step-depends-on-time-zone-of-start"


# ---------------------------------------------------------------------------
# generator
# ---------------------------------------------------------------------------
def _configs(rng, tier):
    cfgs = [
        {"cal": "gregorian", "tz": "Z", "xdigits": 0},
        {"cal": "gregorian", "tz": "+0530", "xdigits": 0},
        {"cal": "360day", "tz": "Z", "xdigits": 0},
        {"cal": "gregorian", "tz": "-0800", "xdigits": 2},
    ]
    for _ in range(3 if tier == "quick" else 20):
        cfgs.append({"cal": rng.choice(R.CALENDARS), "tz": rng.choice(["Z", "+0530", "-0800", "+01", "-1145", "+1300"]),
                     "xdigits": rng.choice([0, 0, 0, 2])})
    return cfgs


def _pt(rng, cfg, z, plain=False):
    """write instant z as a point inside a recurrence expression"""
    if plain or rng.random() < 0.7:
        return R.fmt_point(cfg, z)
    tz = rng.choice(["Z", "+0530", "-0800", "+01"])
    y, mo, d, h, mi, s = R.fields(cfg["cal"], z, tz)
    return R.render_point(cfg, y, mo, d, h, mi, 0, tz, {"ext": rng.random() < 0.5, "prec": "m"})


def _dur(secs):
    d, r = divmod(secs, 86400)
    h, r = divmod(r, 3600)
    m = r // 60
    if d and not h and not m and d % 7 == 0:
        return f"P{d // 7}W"
    s = "P" + (f"{d}D" if d else "")
    if h or m:
        s += "T" + (f"{h}H" if h else "") + (f"{m}M" if m else "")
    return s


def _step(rng, clamped=False):
    """-> (duration string, seconds or None for nominal durations)"""
    if clamped:
        return rng.choice(["P1M", "P1M", "P2M", "P1Y", "P3M"]), None
    k = rng.randrange(12)
    if k < 3:
        secs = rng.choice([1, 2, 3, 6, 12, 24, 36, 48]) * 3600
    elif k < 6:
        secs = rng.choice([1, 1, 2, 3, 5, 7, 10, 14, 30]) * 86400
    elif k < 8:
        secs = rng.choice([1, 5, 10, 15, 20, 30, 45, 90, 100]) * 60
    elif k == 8:
        secs = rng.randint(1, 5) * 86400 + rng.randint(1, 23) * 3600
    elif k == 9:
        return rng.choice(["P1M", "P2M", "P3M", "P6M", "P1Y", "P2Y"]), None
    elif k == 10:
        return rng.choice(["P1M", "P1Y"]), None
    else:
        secs = rng.randint(1, 400) * 60
    return _dur(secs), secs


def _gen_seq(rng, cfg, kind):
    cal = cfg["cal"]
    y = rng.choice([rng.randint(1900, 2100), 2000, 1999, 2024, rng.randint(5, 9000)])
    if cfg["xdigits"] and rng.random() < 0.5:
        y = rng.choice([rng.randint(-3000, 30000), -1, 0, 10000])
    mo = rng.randint(1, 12)
    dim = R.days_in_month(cal, y, mo)
    d = rng.randint(1, min(28, dim))
    clamped = kind == "clamped"
    if clamped:
        mo = rng.choice([1, 3, 5, 7, 8, 10, 12, 1, 2]) if cal != "360day" else mo
        dim = R.days_in_month(cal, y, mo)
        d = rng.choice([dim, dim, max(29, dim - 1) if dim >= 29 else dim])
    h, mi = rng.choice([0, 0, 6, 12, rng.randint(0, 23)]), rng.choice([0, 0, 0, 30, rng.randint(0, 59)])
    start = R.instant(cal, y, mo, d, h, mi, 0, cfg["tz"])
    step_s, step = _step(rng, clamped)
    n = rng.choice([None, None, 1, 2, 3, rng.randint(2, 12), rng.randint(2, 30)])
    approx = step if step else (31 * 86400 if "M" in step_s else 366 * 86400) * int(re.search(r"\d+", step_s).group())
    ctx0 = start - rng.choice([0, 0, 0, 1, 2, 5]) * approx - rng.choice([0, 0, 60, approx // 120 * 60])
    span = (n or rng.randint(3, 25)) * approx
    ctx1 = start + span + rng.choice([0, 0, 60, approx // 2 // 60 * 60])
    have_ctx1 = rng.random() < 0.6
    fmt = rng.randrange(14)
    expect = None       # (first instants, total count or None) when the generator knows them
    P = lambda z: _pt(rng, cfg, z)     # noqa: E731,N806

    def exact(first, count):
        if step is None:
            return None
        k = 6 if count is None else min(6, count)
        return {"first": [first + i * step for i in range(k)], "count": count}

    rel = lambda z, base: ("+" if z >= base else "-") + _dur(abs(z - base)) if z != base else "+PT0M"   # noqa: E731
    if fmt == 0 and step:        # R[n]/start/second
        expr = f"R{n or ''}/{P(start)}/{P(start + step)}"
        expect = exact(start, n)
        if n == 1:
            expect = {"first": [start], "count": 1}
    elif fmt == 1:
        expr = f"{P(start)}/{step_s}"
        expect = exact(start, None)
    elif fmt == 2:
        expr = f"R{n or ''}/{P(start)}/{step_s}"
        expect = exact(start, n)
    elif fmt == 3:
        expr = step_s
        expect = exact(ctx0, None)
    elif fmt == 4:
        expr = f"R{n or ''}//{step_s}"
        expect = exact(ctx0, n)
    elif fmt == 5:               # intv/end : counted back from end to the context start
        end = ctx1
        expr = f"{step_s}/{P(end)}"
        if step:
            m = 0
            while end - m * step > ctx0:
                m += 1
            expect = exact(end - m * step, m + 1)
    elif fmt == 6:
        n = n or 3
        end = ctx1
        expr = f"R{n}/{step_s}/{P(end)}"
        expect = exact(end - (n - 1) * step, n) if step else None
    elif fmt == 7:               # R[n]/intv : ends at the final cycle point
        have_ctx1 = True
        expr = f"R{n or ''}/{step_s}"
        if step:
            if n:
                expect = exact(ctx1 - (n - 1) * step, n)
            else:
                m = 0
                while ctx1 - m * step > ctx0:
                    m += 1
                expect = exact(ctx1 - m * step, m + 1)
    elif fmt == 8:
        c = rng.randrange(3)
        if c == 0:
            expr, expect = "R1", {"first": [ctx0], "count": 1}
        elif c == 1:
            expr, expect = f"R1/{P(start)}", {"first": [start], "count": 1}
        else:
            expr, expect = f"R1//{P(ctx1)}", {"first": [ctx1], "count": 1}
    elif fmt == 9 and step:      # relative start / end
        off = rng.randint(0, 5) * step
        if rng.random() < 0.5:
            expr = f"{rel(ctx0 + off, ctx0)}/{step_s}"
            expect = exact(ctx0 + off, None)
        else:
            have_ctx1 = True
            n = n or 4
            expr = f"R{n}/{step_s}/{rel(ctx1 - off, ctx1)}"
            expect = exact(ctx1 - off - (n - 1) * step, n)
    elif fmt == 10:              # truncated
        expr = rng.choice(["T00", "T06", "T12", "T18", "T0630", "01T00", "15T12", "T-30", "T00/PT6H", "T12/P1D",
                           "-W-1T00", "min(T00,T12)"])
        if cfg["cal"] != "gregorian" and "W" in expr:
            expr = "T06"
    elif fmt == 11:
        expr = f"R{n or ''}/{P(start)}/{step_s}"
        expect = exact(start, n)
    elif fmt == 12 and step:
        expr = f"R{n or 5}/{P(start)}/{step_s}"
        n = n or 5
        expect = exact(start, n)
    else:
        expr = f"{P(start)}/{step_s}"
        expect = exact(start, None)

    # exclusions
    ek = rng.randrange(10)
    if fmt == 10:
        step, ek = None, min(ek, 5)
    excl = None
    first_pts = expect["first"] if expect else [start + i * (step or approx) for i in range(4)]
    cnt = expect["count"] if expect else None
    if kind == "trailing-excl" and expect and cnt and cnt >= 2 and step:
        last = expect["first"][0] + (cnt - 1) * step
        pts = [last, last - step] + ([last - 2 * step] if cnt >= 4 and rng.random() < 0.3 else [])
        rng.shuffle(pts)
        excl = [R.fmt_point(cfg, z) for z in pts]
    elif ek < 3:
        pass
    elif ek < 6:
        pool = list(first_pts)
        if cnt and step:
            pool += [expect["first"][0] + (cnt - 1) * step, expect["first"][0] + (cnt // 2) * step]
        pool += [first_pts[0] + 60, ctx0]
        excl = [_pt(rng, cfg, z) for z in rng.sample(pool, rng.randint(1, min(3, len(pool))))]
    elif ek < 8 and step:
        k = rng.choice([2, 2, 3, 4])
        if rng.random() < 0.5:
            excl = [_dur(k * step)]
        else:
            excl = [f"{R.fmt_point(cfg, first_pts[0] + step)}/{_dur(k * step)}"]
        if rng.random() < 0.3:
            excl.append(R.fmt_point(cfg, first_pts[0]))
    elif step and step < 86400 and 86400 % step == 0:
        excl = [rng.choice(["T00", "T12", "T06"])]
        if rng.random() < 0.3:
            excl.append("T18")
    if excl:
        expr += "!" + (excl[0] if len(excl) == 1 and rng.random() < 0.6 else "(" + ",".join(excl) + ")")

    # query session
    qs = []
    nq = rng.randint(6, 22)
    hot = [rng.randrange(0, 30) for _ in range(rng.randint(1, 5))]
    for _ in range(nq):
        m = rng.choice(METHODS[:7] * 3 + ["start", "stop", "next", "next", "valid", "on"])
        if m in ("start", "stop"):
            qs.append([m])
            continue
        i = rng.choice(hot) if rng.random() < 0.7 else rng.randrange(0, 40)
        stepm = max(1, approx // 60)
        if m in ("prev", "nexton"):
            dm = 0 if rng.random() < 0.9 else rng.choice([1, -1, 30])
        else:
            dm = rng.choice([0, 0, 0, 0, 1, -1, 30, -45, stepm // 2, -(stepm // 3), rng.randint(-3, 3) * stepm + rng.randint(-5, 5)])
        if rng.random() < 0.08:
            i, dm = rng.choice([0, -1]), rng.choice([-1, 1]) * (rng.randint(1, 12) * stepm + rng.randint(0, 59))
        qs.append([m, i, dm])
    c = {"cfg": cfg, "expr": expr, "ctx0": R.fmt_point(cfg, ctx0),
         "ctx1": R.fmt_point(cfg, ctx1) if have_ctx1 else None,
         "N": rng.choice([0, 1, 1, 2, 3, 3, 5, 100]), "queries": qs, "kind": kind}
    if expect:
        c["expect"] = expect
    return c


BAD_EXPRS = ["garbage", "P1D/", "R0/20000101T0000Z/P1D", "R2/20000105T0000Z/20000101T0000Z", "R/20000105T0000Z",
             "20000105T0000Z", "R3/20000105T0000Z", "P1D!20000101T0000Z!20000102T0000Z", "P1D!20000101T0000Z,20000102T0000Z",
             "//", "R", "R5"]


class SeqStream(Stream):
    name = "iso8601seq"
    coq_import = "From Cylc Require Import Model.IsoSeq."
    check_fn = "IsoSeq.check_case"
    show_fn = "IsoSeq.model_out"
    n_hashseeds = 8
    shard_size = 60
    impl_timeout = 3000
    rule = ("ISO8601Sequence objects built from random recurrence expressions (formats R[n]/start/second, [R[n]/]start/intv, "
            "intv, R[n]//intv, intv/end, R[n]/intv[/end], R1 forms, relative and truncated points, min()), steps from minutes "
            "to weeks plus months/years, exclusion points / lists / exclusion sequences, context start/stop, 4 calendars, "
            "time zones, expanded years, _LARGE_LRU_CACHE_SIZE in {0,1,2,3,5,100}; each gets a session of 6-22 queries "
            "(9 API methods; points picked from the real enumeration +- offsets, repeated to hit the caches), then every "
            "query is re-asked on a fresh object; non-trivial = sequence constructed and at least one point query")

    def corpus(self):
        g = {"cal": "gregorian", "tz": "Z", "xdigits": 0}
        allq = [[m, i, 0] for i in (0, 1, 2, 3, 4, 5) for m in METHODS[:7]]
        return [
            # regression (fixed in /repo dde59a5): last two points excluded -> get_stop_point returned an excluded point
            {"cfg": g, "expr": "R5/20000101T00Z/P1D!(20000105T00Z,20000104T00Z)", "ctx0": "20000101T0000Z", "ctx1": None,
             "N": 3, "queries": [["stop"], ["start"]] + allq + [["stop"]], "kind": "trailing-excl"},
            {"cfg": g, "expr": "R1!20000101T00Z", "ctx0": "20000101T0000Z", "ctx1": None, "N": 3,
             "queries": [["start"], ["stop"]], "kind": "trailing-excl"},
            # witness of finding 2: month step from the 31st: get_prev_point(20000229) is None
            {"cfg": g, "expr": "R/20000131T00Z/P1M", "ctx0": "20000101T0000Z", "ctx1": None, "N": 3,
             "queries": [["prev", 1, 0], ["nprev", 1, 0], ["prev", 2, 0], ["next", 0, 0], ["valid", 1, 0]], "kind": "clamped"},
            # witness of finding 3: month step, start point written in another time zone than the cycle point
            # time zone: stepping from a (re-parsed) cached point differs from iterating the recurrence
            {"cfg": {"cal": "gregorian", "tz": "+0530", "xdigits": 0}, "expr": "20000130T1710-0800/P1M",
             "ctx0": "20000101T0000+0530", "ctx1": None, "N": 3,
             "queries": [["next", 0, 0], ["next", 1, 20000], ["valid", 2, 0]], "kind": "clamped"},
            # evictions: tiny caches, many distinct next/valid/first queries, then repeats
            {"cfg": g, "expr": "PT6H!T12", "ctx0": "20000101T0000Z", "ctx1": "20000110T0000Z", "N": 1,
             "queries": [[m, i, dm] for i in (3, 7, 2, 9, 3, 7, 12, 2) for m, dm in
                         (("next", 0), ("valid", 0), ("first", 30), ("on", 0), ("next", 60))] + [["stop"], ["start"]],
             "kind": "valid"},
            {"cfg": g, "expr": "R/P1D!R/P2D", "ctx0": "20000101T0000Z", "ctx1": "20000110T0000Z", "N": 0,
             "queries": allq + [["stop"]], "kind": "valid"},
        ]

    def gen(self, rng, tier):
        per = 36 if tier == "quick" else 250
        cases = []
        for cfg in _configs(rng, tier):
            for _ in range(per):
                r = rng.random()
                kind = "clamped" if r < 0.04 else "trailing-excl" if r < 0.08 else "valid"
                cases.append(_gen_seq(rng, cfg, kind))
            cases.append({"cfg": cfg, "expr": rng.choice(BAD_EXPRS), "ctx0": "20000101T0000" + cfg["tz"] if not cfg["xdigits"]
                          else R.fmt_point(cfg, R.instant(cfg["cal"], 2000, 1, 1)), "ctx1": None, "N": 3,
                          "queries": [["start"]], "kind": "malformed"})
        return cases

    # -- implementation driver --------------------------------------------------
    def impl(self, cases):
        import itertools
        import signal
        from cylc.flow.cycling import iso8601
        from cylc.flow.cycling.iso8601 import ISO8601Point as P, ISO8601Interval as I, ISO8601Sequence as S, init, point_parse
        from cylc.flow.exceptions import SequenceDegenerateError

        class Rec:
            """recording stand-in for the TimeRecurrence of a sequence"""
            def __init__(self, r):
                self._r = r
                self.log = {"next": {}, "prev": {}, "valid": {}}

            def get_next(self, tp):
                r = self._r.get_next(tp)
                self.log["next"][str(tp)] = None if r is None else str(r)
                return r

            def get_prev(self, tp):
                r = self._r.get_prev(tp)
                self.log["prev"][str(tp)] = None if r is None else str(r)
                return r

            def get_is_valid(self, tp):
                r = self._r.get_is_valid(tp)
                self.log["valid"][str(tp)] = bool(r)
                return r

            def __iter__(self):
                return iter(self._r)

            def __getattr__(self, n):
                return getattr(self._r, n)

            def __str__(self):
                return str(self._r)

        class Timeout(Exception):
            pass

        def on_alarm(*a):
            raise Timeout()
        signal.signal(signal.SIGALRM, on_alarm)

        def ask(seq, m, p):
            if m == "on":
                return bool(seq.is_on_sequence(p))
            if m == "valid":
                return bool(seq.is_valid(p))
            f = {"prev": seq.get_prev_point, "nprev": seq.get_nearest_prev_point, "next": seq.get_next_point,
                 "nexton": seq.get_next_point_on_sequence, "first": seq.get_first_point}.get(m)
            r = f(p) if f else (seq.get_start_point() if m == "start" else seq.get_stop_point())
            return None if r is None else str(r)

        def safe(fn):
            try:
                return {"ok": fn()}
            except SequenceDegenerateError:
                return {"err": "Degenerate"}
            except Timeout:
                raise
            except Exception as e:  # noqa
                return {"err": "ImplOther", "msg": f"{type(e).__name__}: {e}"[:160]}

        out, cur = [], None
        for c in cases:
            cfg = c["cfg"]
            signal.alarm(60)
            try:
                if cfg != cur:
                    for obj in (iso8601, P, I):
                        for n in dir(obj):
                            f = getattr(obj, n, None)
                            if hasattr(f, "cache_clear"):
                                f.cache_clear()
                    init(num_expanded_year_digits=cfg["xdigits"], time_zone=cfg["tz"], cycling_mode=cfg["cal"])
                    cur = cfg
                iso8601._LARGE_LRU_CACHE_SIZE = c["N"]
                try:
                    seq = S(c["expr"], c["ctx0"], c["ctx1"])
                except Exception as e:  # noqa
                    out.append({"exc": f"{type(e).__name__}: {e}"[:200]})
                    continue
                real = seq.recurrence
                pts = [str(tp) for tp in itertools.islice(real, LIMIT + 1)]
                complete = len(pts) <= LIMIT
                pts = pts[:LIMIT]
                bounded = bool(real.repetitions is not None or (
                    (real.start_point is not None or real.min_point is not None) and
                    (real.end_point is not None or real.max_point is not None)))
                usable = len(pts) if complete else max(1, len(pts) - MARGIN)
                # resolve the query points
                queries = []
                for qq in c["queries"]:
                    if len(qq) == 1:
                        queries.append([qq[0], None])
                    elif pts:
                        base = P(pts[qq[1] % usable])
                        p = base + I(f"PT{qq[2]}M") if qq[2] >= 0 else base - I(f"PT{-qq[2]}M")
                        queries.append([qq[0], str(p)])
                rec = Rec(real)
                seq.recurrence = rec
                answers = []
                for m, ps in queries:
                    a = safe(lambda: ask(seq, m, None if ps is None else P(ps)))
                    answers.append(a)
                    if "err" in a:
                        break
                sizes = [len(seq._cached_first_point_values), len(seq._cached_next_point_values),
                         len(seq._cached_valid_point_booleans), len(seq._cached_recent_valid_points)]
                # every query again, each on a fresh object (no history)
                fresh = []
                for m, ps in queries[:len(answers)]:
                    s2 = S(c["expr"], c["ctx0"], c["ctx1"])
                    fresh.append(safe(lambda: ask(s2, m, None if ps is None else P(ps))))
                # observations of the recurrence on all points involved
                involved = set(pts) | {ps for _, ps in queries if ps}
                for a in answers:
                    if isinstance(a.get("ok"), str):
                        involved.add(a["ok"])
                for tab in list(rec.log.values()):
                    for k, v in list(tab.items()):
                        involved.add(k)
                        if isinstance(v, str):
                            involved.add(v)
                involved.discard("None")
                for ps in sorted(involved):
                    tp = point_parse(ps)
                    if ps not in rec.log["next"]:
                        rec.get_next(tp)
                    if ps not in rec.log["prev"]:
                        rec.get_prev(tp)
                    if ps not in rec.log["valid"]:
                        rec.get_is_valid(tp)
                for tab in ("next", "prev"):
                    for v in list(rec.log[tab].values()):
                        if isinstance(v, str):
                            involved.add(v)
                excluded = sorted(ps for ps in involved if seq.exclusions and P(ps) in seq.exclusions)
                # brute-force exclusions: explicit points + iteration of the exclusion sequences
                brute = None
                if seq.exclusions:
                    brute = sorted(str(x) for x in seq.exclusions.exclusion_points if x is not None)
                    lim = P(max(involved, key=lambda s: point_parse(s))) if involved else None
                    for es in seq.exclusions.exclusion_sequences:
                        for i, tp in enumerate(es.recurrence):
                            if lim is None or i > 4000 or P(str(tp)) > lim:
                                break
                            brute.append(str(tp))
                out.append({"enum": pts, "complete": complete, "bounded": bounded, "queries": queries,
                            "answers": answers, "fresh": fresh, "log": rec.log, "excluded": excluded,
                            "brute_excl": brute, "involved": sorted(involved), "sizes": sizes,
                            "value": str(seq)})
            except Timeout:
                out.append({"exc": "timeout"})
            finally:
                signal.alarm(0)
        return out

    # -- helpers shared by coq_case and oracle -------------------------------------
    def _z(self, c, s):
        z = R.decode_point(c["cfg"], s)
        if z is None:
            raise ValueError(f"not a standard point string: {s!r}")
        return z

    def _view(self, c, r):
        """instants for everything; None when the case cannot be put on the minute grid"""
        Z = lambda s: self._z(c, s)     # noqa: E731,N806
        v = {"enum": [Z(s) for s in r["enum"]], "excl": {Z(s) for s in r["excluded"]}}
        v["queries"] = [(m, None if ps is None else Z(ps)) for m, ps in r["queries"]]
        v["next"] = {Z(k): (None if x is None else Z(x)) for k, x in r["log"]["next"].items()}
        v["prev"] = {Z(k): (None if x is None else Z(x)) for k, x in r["log"]["prev"].items()}
        v["valid"] = {Z(k): x for k, x in r["log"]["valid"].items()}

        def ans(a):
            if "err" in a:
                return ("err", a["err"])
            x = a["ok"]
            if isinstance(x, bool):
                return ("bool", x)
            if x == "None":
                return ("nonepoint", None)
            return ("pt", None if x is None else Z(x))
        v["answers"] = [ans(a) for a in r["answers"]]
        v["fresh"] = [ans(a) for a in r["fresh"]]
        return v

    def _hyps(self, v, complete):
        en = v["enum"]
        horizon = en[-1] if en else 0
        inwin = lambda p: complete or p <= horizon     # noqa: E731
        fwd = all(a < b for a, b in zip(en, en[1:]))
        fwd = fwd and all(v["next"].get(a) == b for a, b in zip(en, en[1:]))
        if en:
            x = v["next"].get(en[-1])
            fwd = fwd and (complete if x is None else (not complete and en[-1] < x))
        pts = [p for _, p in v["queries"] if p is not None] + en
        fwd = fwd and all((not inwin(p)) or (v["valid"].get(p, False) == (p in en)) for p in pts)
        bwd = all(v["prev"].get(b) == a for a, b in zip(en, en[1:]))
        if en:
            bwd = bwd and v["prev"].get(en[0]) is None
        return fwd, bwd

    def _margin_ok(self, v, complete):
        if complete:
            return True
        qp = [p for _, p in v["queries"] if p is not None]
        mx = max(qp) if qp else (v["enum"][0] if v["enum"] else 0)
        good = [e for e in v["enum"] if e > mx and e not in v["excl"]]
        return len(good) >= 3

    def coq_case(self, c, r):
        if "exc" in r:
            return None
        try:
            v = self._view(c, r)
        except ValueError:
            return None
        if not self._margin_ok(v, r["complete"]):
            return None
        if any(k == "nonepoint" for k, _ in v["answers"]):
            return None          # the bogus point 'None' (pre-dde59a5 behaviour): oracle failure, not modelled
        if r["bounded"] and not r["complete"] and any(m == "stop" for m, _ in v["queries"]):
            return None          # a bounded recurrence longer than the enumerated prefix
        fwd, bwd = self._hyps(v, r["complete"])
        # the model is translation invariant: minutes relative to the first point keep the terms small
        base = v["enum"][0] if v["enum"] else 0

        def cz(z):
            assert (z - base) % 60 == 0
            return q.cz((z - base) // 60)

        def cq(m, p):
            return f"({QCTOR[m]} {cz(p)})" if p is not None else ("QStart" if m == "start" else "QStop")

        def ca(a):
            k, x = a
            if k == "err":
                return f"(Err {x})"
            if k == "bool":
                return f"(Ok (ABool {q.cbool(x)}))"
            return f"(Ok (APt {q.copt(x, cz)}))"
        return q.crecord(
            k_enum=q.clist(cz(z) for z in v["enum"]),
            k_complete=q.cbool(r["complete"]), k_bounded=q.cbool(r["bounded"]),
            k_next=q.clist(q.cpair(cz(k), q.copt(x, cz)) for k, x in sorted(v["next"].items())),
            k_prev=q.clist(q.cpair(cz(k), q.copt(x, cz)) for k, x in sorted(v["prev"].items())),
            k_valid=q.clist(q.cpair(cz(k), q.cbool(x)) for k, x in sorted(v["valid"].items())),
            k_excl=q.clist(cz(z) for z in sorted(v["excl"])),
            k_N=q.cnat(c["N"]),
            k_queries=q.clist(cq(m, p) for m, p in v["queries"][:len(v["answers"])]),
            k_hyps=q.cpair(q.cbool(fwd), q.cbool(bwd)),
            k_impl=q.clist(ca(a) for a in v["answers"]))

    # -- property oracle: brute force over the iterated recurrence ----------------
    def oracle(self, c, r):
        if r.get("exc") == "timeout":
            return None          # inconclusive (machine load); never an alarm
        if "exc" in r:
            if c.get("kind") == "malformed":
                return None
            return f"unexpected exception constructing/using {c['expr']!r}: {r['exc']}"
        if c.get("kind") == "malformed":
            return f"malformed recurrence {c['expr']!r} accepted: {r['value']}"
        try:
            v = self._view(c, r)
        except ValueError as e:
            return f"{c['expr']!r}: {e}"
        en, complete = v["enum"], r["complete"]
        if not en:
            return f"{c['expr']!r}: the recurrence yields no point"
        if any(a >= b for a, b in zip(en, en[1:])):
            return f"{c['expr']!r}: iteration of the recurrence is not strictly increasing"
        # the generator's own idea of the recurrence (parse_recurrence)
        ex = c.get("expect")
        if ex:
            k = len(ex["first"])
            long = ex["count"] is None or ex["count"] > LIMIT
            if en[:k] != ex["first"] or (long and complete) or (not long and (not complete or len(en) != ex["count"])):
                return (f"{c['expr']!r} ctx=({c['ctx0']},{c['ctx1']}) enumerates {r['enum'][:k]}.. "
                        f"({len(en)}{'' if complete else '+'} points), expected instants {ex}")
        # exclusions, brute force
        excl = v["excl"]
        if r["brute_excl"] is not None:
            b = set()
            for s in r["brute_excl"]:
                z = R.decode_point(c["cfg"], s)
                if z is not None:
                    b.add(z)
            inv = {self._z(c, s) for s in r["involved"]}
            if {z for z in inv if z in b} != excl:
                d = sorted({z for z in inv if z in b} ^ excl)[:3]
                return f"{c['expr']!r}: `in exclusions` disagrees with enumerating the exclusions at instants {d}"
        good = [e for e in en if e not in excl]
        horizon = en[-1]
        fwd, bwd = self._hyps(v, complete)
        for i, ((m, p), a, fr) in enumerate(zip(v["queries"], v["answers"], v["fresh"])):
            where = f"{c['expr']!r} N={c['N']} query #{i} {m}({r['queries'][i][1]})"
            if a != fr:
                return f"{where}: answer {r['answers'][i]} depends on history (fresh object says {r['fresh'][i]})"
            if p is not None and not complete and p > horizon:
                continue
            want = "skip"
            if m in ("on", "valid"):
                want = ("bool", p in good)
            elif m == "nprev":
                w = [e for e in good if e < p]
                want = ("pt", w[-1] if w else None)
            elif m == "prev" and p in en:
                w = [e for e in good if e < p]
                want = ("pt", w[-1] if w else None)
            elif m == "next" or (m == "nexton" and p in en):
                w = [e for e in good if e > p]
                want = ("pt", w[0]) if w else (("pt", None) if complete else "skip")
            elif m == "first":
                w = [e for e in good if e >= p]
                want = ("pt", w[0]) if w else (("pt", None) if complete else "skip")
            elif m == "start":
                want = ("pt", good[0]) if good else (("pt", None) if complete else "skip")
            elif m == "stop":
                want = ("pt", (good[-1] if good else None) if r["bounded"] else None)
                if r["bounded"] and not complete:
                    want = "skip"
            if want != "skip" and a != want:
                return f"{where}: got {r['answers'][i]}, brute force over the iterated recurrence says {want}"
        return None

    def classify(self, c, r, failure):
        if "exc" not in r:
            try:
                v = self._view(c, r)
                en = v["enum"]
                fwd, bwd = self._hyps(v, r["complete"])
                if not fwd and all(a < b for a, b in zip(en, en[1:])):
                    return SIG_NEXT
                m = re.search(r"query #\d+ (n?prev)\(", failure)
                if m and not bwd:
                    return SIG_PREV
            except ValueError:
                pass
        kind = "exc" if "exc" in r else (re.search(r"query #\d+ (\w+)", failure) or [None, "other"])[1]
        return f"seq:{kind}:{c['cfg']['cal']}"

    def key(self, c, r):
        if "exc" in r or not any(len(x) > 1 for x in c["queries"]):
            return None
        return super().key(c, r)

    def shrink(self, c):
        qs = c["queries"]
        for i in range(len(qs)):
            yield {**c, "queries": qs[:i] + qs[i + 1:]}
        if c["N"] != 3:
            yield {**c, "N": 3}
        if "expect" in c:
            yield {k: x for k, x in c.items() if k != "expect"}


STREAMS = [SeqStream()]

META = {
    "level_text": ("Coq theorems over Model/IsoSeq.v (literal model of ISO8601Sequence with its four cache attributes, their "
                   "popitem/pop(0) eviction and the lru_cache of is_on_sequence), for every recurrence satisfying recurrence_ok "
                   "(iteration strictly increasing, get_next = successor, get_is_valid = membership), every exclusion predicate, "
                   "cache size and query session: (1) each answer of is_on_sequence, is_valid, get_next_point, "
                   "get_next_point_on_sequence, get_first_point, get_start_point, get_stop_point equals the enumeration-level "
                   "definition, proved to be the least/greatest element of (enumeration minus exclusions); the same for "
                   "get_prev_point / get_nearest_prev_point when get_prev inverts get_next; (2) cache transparency for ALL queries "
                   "without domain restriction: the answer at any position of any session equals the answer at any position of "
                   "any other session (invariant: every cache entry is the enumeration-level answer, recent valid points are "
                   "non-excluded members). get_stop_point is proved to be the last non-excluded point for every exclusion set (defect fixed in /repo dde59a5, "
                   "witness kept as regression case). Open findings reproduced on the real class: get_prev_point with non-invertible "
                   "month/year steps; history dependence with month steps and a start point in another time zone. The "
                   "model is tied to the real class by differential sessions compared inside Coq, instantiated with the iterated "
                   "real recurrence and its observed get_next/get_prev/get_is_valid answers; hyps_check (proved sound for the "
                   "hypotheses) is evaluated in Coq on every sample; an independent brute-force oracle and a fresh-object re-ask "
                   "run on the implementation alone."),
    "level_note": ("Full proofs for the sequence logic and caches. Abstract / sampled, not proved: metomi.isodatetime's "
                   "TimeRecurrence and CylcTimeParser.parse_recurrence (the oracle compares the iteration with the generator's own "
                   "expectation for exact steps), exclusion membership (compared with brute-force enumeration of the exclusion "
                   "sequences), calendar arithmetic. Unbounded recurrences are observed through a 50-point prefix (model answers "
                   "OutOfEnum beyond it; theorems are about Ok answers). Fuel exhaustion is an explicit error excluded by the "
                   "theorems; never observed in the runs. Trusted: Coq kernel+VM, harness, c18_isoref.py decoding of points."),
    "technique": "Coq proof (cache invariant, induction over the walk loops) + in-Coq differential correspondence + brute-force oracle",
    "design_ref": "5/C17",
}
