"""C45 — absolute-trigger outputs satisfy every dependent instance (pool automaton + real runs)."""
from vp.sched.stream import SchedStream
from vp.props.c01 import TRUSTED, ASSUMES  # noqa

_CORPUS = [
    # a[^] => b on P1 with runahead P0: 3/b and 4/b spawn after 1/a:succeeded was completed
    {"icp": 1, "fcp": 4, "tasks": ["a", "b"],
     "sections": [{"rec": "P1", "lines": [{"lhs": None, "rhs": "a"}, {"lhs": None, "rhs": "b"},
                                           {"lhs": {"task": "a", "abs": 0, "out": "succeeded"}, "rhs": "b"}]}],
     "customs": {}, "opt": [["a", "succeeded", False], ["b", "succeeded", False]], "runahead": 0, "queues": {},
     "seed": 5, "fail_rate": 0, "custom_rate": 1.0, "disorder": 0, "ops": []},
    {"icp": 1, "fcp": 4, "tasks": ["a", "b"],
     "sections": [{"rec": "P1", "lines": [{"lhs": None, "rhs": "a"}, {"lhs": None, "rhs": "b"},
                                           {"lhs": {"task": "a", "abs": 0, "out": "succeeded"}, "rhs": "b"}]}],
     "customs": {}, "opt": [["a", "succeeded", False], ["b", "succeeded", False]], "runahead": 0, "queues": {},
     "seed": 6, "fail_rate": 0, "custom_rate": 1.0, "disorder": 0, "ops": [{"tick": 9, "cmd": "restart", "mode": "now"}],
     "baseline": True},
    # two DIFFERENT outputs of the same absolute parent (prep[^]:started => a ; prep[^]:succeeded => b), restart after
    # both were completed: every later a and b must still find its prerequisite satisfied
    {"icp": 1, "fcp": 5, "tasks": ["prep", "a", "b"],
     "sections": [{"rec": "R1", "lines": [{"lhs": None, "rhs": "prep"}]},
                  {"rec": "P1", "lines": [{"lhs": None, "rhs": "a"}, {"lhs": None, "rhs": "b"},
                                           {"lhs": {"task": "prep", "abs": 0, "out": "started"}, "rhs": "a"},
                                           {"lhs": {"task": "prep", "abs": 0, "out": "succeeded"}, "rhs": "b"}]}],
     "customs": {}, "opt": [["prep", "succeeded", False], ["prep", "started", False], ["a", "succeeded", False],
                            ["b", "succeeded", False]], "runahead": 0, "queues": {},
     "seed": 8, "fail_rate": 0, "custom_rate": 1.0, "disorder": 0, "ops": [{"tick": 9, "cmd": "restart", "mode": "now"}],
     "baseline": True},
    # fixed finding: the first dependent instance has already run when the absolute output completes
    {'baseline': True, 'custom_rate': 1.0, 'customs': {}, 'disorder': 0.0, 'fail_rate': 0.0, 'fcp': 3, 'icp': 1, 'ops': [{'cmd': 'restart', 'mode': 'now-now', 'tick': 9}], 'opt': [['a', 'failed', True], ['a', 'succeeded', True], ['b', 'succeeded', False], ['c', 'succeeded', False]], 'queues': {}, 'runahead': 1, 'sections': [{'lines': [{'lhs': None, 'rhs': 'a'}, {'lhs': None, 'rhs': 'b'}, {'lhs': None, 'rhs': 'c'}, {'lhs': {'args': [{'off': 0, 'out': 'succeeded', 'task': 'a'}, {'args': [{'off': -2, 'out': 'succeeded', 'task': 'b'}, {'abs': 0, 'out': 'succeeded', 'task': 'c'}], 'op': 'and'}], 'op': 'or'}, 'rhs': 'b'}, {'lhs': {'abs': 0, 'out': 'succeeded', 'task': 'a'}, 'rhs': 'c'}], 'rec': 'P1'}], 'seed': 510256938, 'tasks': ['a', 'b', 'c']},
]
STREAMS = [SchedStream("C45", name="sched-abs", feat={"abs": "many", "restart": True}, n_quick=28, n_thorough=600,
                       corpus=_CORPUS)]
META = {
    "level_text": ("Coq theorems over the pool automaton: an absolute output is recorded only after it was completed (invariant over all "
                   "accepted traces incl. restarts); a newly spawned instance starts with only recorded absolute outputs satisfied; at every "
                   "accepted tick end every pooled dependent reflects every recorded absolute output (adding them changes no prerequisite's "
                   "truth), so later-spawned and reloaded instances are as satisfied as earlier ones; the record survives restart. Tie: real "
                   "runs of graphs with foo[^] triggers over several recurrences with stop/restart at generated iterations, accepted by "
                   "the automaton; oracle recomputes each dependent's prerequisite from the outputs completed so far."),
    "level_note": TRUSTED[0] + " Only [^]-type triggers (offset from the initial point 0) are generated; foo[2]-style absolute points are not.",
    "technique": "Coq invariant proof on the pool automaton + in-Coq trace validation incl. restarts + oracle",
    "design_ref": "5/C45",
}
