"""C31 — sequential tasks (pool automaton + real runs with [special tasks] sequential)."""
from vp.sched.stream import SchedStream
from vp.props.c01 import TRUSTED, ASSUMES  # noqa

STREAMS = [SchedStream("C31", name="sched-seq", feat={"sequential": True, "retries": True}, n_quick=28, n_thorough=600),
           SchedStream("C31", name="sched-warm", feat={"warm": True, "abs": True, "sequential": True},
                       n_quick=28, n_thorough=600)]
META = {
    "level_text": ("Coq theorem over the pool automaton: a (non-manual) submission of an instance whose prerequisites contain "
                   "(prev, t):succeeded is accepted only after that output was completed (corollary of the C01 invariant); the harness "
                   "puts exactly that atom on every instance of a sequential task (previous point over the union of its sequences, "
                   "pre-satisfied before the start point). Tie: real runs with sequential tasks on 1-2 recurrences, runahead limits, "
                   "retries and warm starts accepted by the automaton; oracle: never two active instances of a sequential task at a tick "
                   "end, submission only after the previous instance succeeded. 'Never overlap' is oracle-checked, not a theorem (partial)."),
    "level_note": TRUSTED[0],
    "technique": "Coq corollary of the pool-automaton invariant + in-Coq trace validation + overlap oracle",
    "design_ref": "5/C31",
}
