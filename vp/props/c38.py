"""C38 — `cylc clean` deletes only inside the workflow.

Anchors: cylc/flow/clean.py (clean, glob_in_run_dir, _clean_using_glob),
cylc/flow/pathutil.py (parse_rm_dirs, remove_dir_and_target, remove_dir_or_file,
remove_empty_parents), cylc/flow/workflow_files.py (get_symlink_dirs).
"""
import os
import re

from vp.core import Stream
from vp import coqfmt as q

TRUSTED = [
    "hand model Model/Fs.v: flat physical filesystem map, kernel-style symlink walk, get_symlink_dirs, glob_in_run_dir's "
    "filter, _clean_using_glob, remove_dir_or_file, remove_dir_and_target, the tidy-up of clean(), parse_rm_dirs/normpath",
    "glob.iglob + sorted() are NOT modelled: the harness records what they returned for each pattern (wrapping glob.iglob) "
    "and the model consumes that as data; theorems take it as a Section variable with the hypothesis that matches are "
    "lexical descendants of the run dir (checked on every recorded match)",
    "shutil.rmtree/os.remove/os.rmdir semantics as modelled (rmtree does not follow symlinks; validated by the snapshots)",
    "str.split/strip used by the harness to present --rm parts to the model as component lists",
]
ASSUMES = [
    "local clean only (clean(); no remote clean), no concurrent modification of the tree",
    "symlink targets stay inside the scratch root so that the snapshot sees them; runN/_cylc-install links are relative",
]

FIXED = {"cylc-run": 0, "log": 1, "share": 2, "cycle": 3, "work": 4, "job": 5, "runN": 6, "_cylc-install": 7}
STD = ["work", "share/cycle", "share", "log/job", "log", ""]
ERR = {None: 0, "FileNotFoundError": 1, "NotADirectoryError": 2, "WorkflowFilesError": 3, "RuntimeError": 4}


# ---------------------------------------------------------------------------
# tree generation
# ---------------------------------------------------------------------------
NAMES = ["a", "b", "c", "cat", "cow", "x", ".hid", "d1"]


def _rand_content(rng, base, depth, out, links_to, p_link=0.15):
    """random files/dirs/symlinks below `base` (list of parts)."""
    n = rng.randint(0, 3 if depth else 4)
    for nm in rng.sample(NAMES, n):
        p = base + [nm]
        r = rng.random()
        if r < p_link:
            out.append(["/".join(p), "l", rng.choice(links_to)])
        elif r < 0.55 or depth >= 2:
            out.append(["/".join(p), "f"])
        else:
            out.append(["/".join(p), "d"])
            _rand_content(rng, p, depth + 1, out, links_to, p_link)


def gen_tree(rng, want_std=None):
    wid = rng.choice(["wf", "wf/run1", "wf/run1", "grp/wf/run2"])
    run = ["cylc-run"] + wid.split("/")
    t = [["ext", "d"], ["ext/e1", "d"], ["ext/e1/s1", "f"], ["ext/e1/sub", "d"], ["ext/e1/sub/s2", "f"],
         ["ext/f1", "f"], ["cylc-run", "d"], ["cylc-run/other", "d"], ["cylc-run/other/keep", "f"],
         ["scr", "d"], ["scr/keep", "f"], ["scr/cylc-run", "d"], ["scr/cylc-run/otherwf", "d"],
         ["scr/cylc-run/otherwf/keep", "f"], ["src", "d"], ["src/flow.cylc", "f"]]
    for i in range(2, len(run)):
        t.append(["/".join(run[:i]), "d"])
    # (no links to an ancestor of themselves: recursive glob follows symlinks and would blow up)
    links_to = ["/ext/e1", "/ext/f1", "/ext/nope", "/ext/e1/sub", "/cylc-run/other", "/scr/cylc-run/otherwf",
                "../nope"]
    run_s = "/".join(run)
    run_is_link = rng.random() < 0.07
    if run_is_link:
        real_run = ["scr2", "cylc-run"] + wid.split("/")
        for i in range(1, len(real_run)):
            t.append(["/".join(real_run[:i]), "d"])
        if rng.random() < 0.8:
            t.append(["/".join(real_run), "d"])
            t.append([run_s, "l", "/" + "/".join(real_run)])
        else:
            t.append([run_s, "l", "/" + "/".join(real_run)])   # broken std run dir link
            return {"tree": t, "id": wid}
        base = real_run
    else:
        t.append([run_s, "d"])
        base = run
    _rand_content(rng, base, 0, t, links_to)
    have = {e[0] for e in t}
    # top-level links: relative with '..' to the outside, and to a sibling inside the run dir
    if rng.random() < 0.3 and "/".join(base + ["up"]) not in have:
        t.append(["/".join(base + ["up"]), "l", "../" * len(base) + "ext/e1"])
    if rng.random() < 0.3 and "/".join(base + ["a"]) in have and "/".join(base + ["in"]) not in have:
        t.append(["/".join(base + ["in"]), "l", "/" + "/".join(base) + "/a"])
    have = {e[0] for e in t}
    # standard dirs
    p_std = 0.5 if want_std is None else want_std
    scr_made = set()

    def mk_scr(parts):
        for i in range(1, len(parts) + 1):
            pth = "/".join(parts[:i])
            if pth not in have and pth not in scr_made:
                scr_made.add(pth)
                t.append([pth, "d"])

    for d in ["log", "share", "work", "share/cycle", "log/job"]:
        dp = base + d.split("/")
        parent = "/".join(dp[:-1])
        # parent must be a real dir or a std symlink we created
        pk = [e for e in t if e[0] == parent]
        if "/".join(dp) in have:
            continue
        if pk and pk[0][1] == "l":
            # place inside the target of the parent's std symlink
            tgt = pk[0][2].lstrip("/").split("/")
            if not pk[0][2].startswith("/") or not any(e[0] == "/".join(tgt) and e[1] == "d" for e in t):
                continue
            dp_phys = tgt + [dp[-1]]
        elif pk and pk[0][1] == "d":
            dp_phys = dp
        else:
            continue
        r = rng.random()
        if r < 1 - p_std - 0.25:
            continue
        if r < 1 - p_std:
            t.append(["/".join(dp_phys), "d"])
            have.add("/".join(dp_phys))
            _rand_content(rng, dp_phys, 1, t, links_to)
            continue
        target = ["scr", "cylc-run"] + wid.split("/") + d.split("/")
        if target == dp_phys:        # nested std symlink inside another one's target: use a second area
            target = ["scrB"] + target[1:]
        r2 = rng.random()
        if r2 < 0.07:
            t.append(["/".join(dp_phys), "l", rng.choice(["/ext/e1", "/ext/f1", "/scr/cylc-run/otherwf"])])  # invalid
        elif r2 < 0.17:
            t.append(["/".join(dp_phys), "l", "/" + "/".join(target)])       # valid but broken
        else:
            mk_scr(target)
            t.append(["/".join(dp_phys), "l", "/" + "/".join(target)])
            _rand_content(rng, target, 1, t, links_to)
        have.add("/".join(dp_phys))
        have |= scr_made
    # siblings of the run dir
    parent = run[:-1]
    if len(run) > 2:
        if rng.random() < 0.6:
            t.append(["/".join(parent + ["runN"]), "l", rng.choice([run[-1], run[-1], "run9"])])
        if rng.random() < 0.6:
            t.append(["/".join(parent + ["_cylc-install"]), "d"])
            t.append(["/".join(parent + ["_cylc-install", "source"]), "l", "/src"])
        if rng.random() < 0.3:
            t.append(["/".join(parent + ["run7"]), "d"])
            t.append(["/".join(parent + ["run7", "keep"]), "f"])
    # dedupe (first wins)
    seen, out = set(), []
    for e in t:
        if e[0] not in seen:
            seen.add(e[0])
            out.append(e)
    return {"tree": out, "id": wid}


def add_deep(rng, c):
    """A non-standard symlink (in the run dir or inside the target of a standard symlink dir) to an outside
    directory with nested sub-directories and files at depth >= 2; returns patterns that match below the link
    without matching the intermediate directories."""
    t = c["tree"]
    kinds = {e[0]: e for e in t}
    run_s = "cylc-run/" + c["id"]
    if run_s not in kinds:
        return None
    base = kinds[run_s][2].lstrip("/") if kinds[run_s][1] == "l" else run_s
    if base not in kinds or kinds[base][1] != "d":
        return None
    # candidate places: the run dir itself, or a valid standard symlink dir (logical name, physical dir)
    places = [("", base)]
    for d in ("log", "share", "work"):
        e = kinds.get(base + "/" + d)
        if e and e[1] == "l" and e[2].startswith("/scr/") and e[2].endswith("/" + c["id"] + "/" + d) \
                and kinds.get(e[2][1:], [0, ""])[1] == "d":
            places.append((d + "/", e[2][1:]))
    logical, phys = rng.choice(places)
    lname = rng.choice(["extdata", "lnk", "x"])
    if phys + "/" + lname in kinds:
        return None
    out = rng.choice(["out", "ext/deepout"])
    for pth, k in ((out, "d"), (out + "/top.txt", "f"), (out + "/keep", "d"), (out + "/keep/precious.txt", "f"),
                   (out + "/keep/deep", "d"), (out + "/keep/deep/gold.txt", "f"), (out + "/keep2", "d"),
                   (out + "/keep2/cow", "f")):
        if pth not in kinds:
            t.append([pth, k])
    t.append([phys + "/" + lname, "l", "/" + out])
    L = logical + lname
    return ["**/precious.txt", "**/gold.txt", "**/*.txt", "**/cow", "**/deep", f"{L}/keep/*", f"{L}/keep/deep/gold.txt",
            f"{L}/*/*", f"{L}/keep/deep/", "*/*/*", "*/*/*/*", f"{L}/keep2/cow", f"{L}/*/deep/*", "**/keep/*"]


PATTERNS = ["log", "share", "share/cycle", "work", "log/job", "*", "**", "**/*", "*/", "a", "a/*", "*/b", "**/c*", "c*",
            "[ab]*", "x", "nonexistent", "share/*", "log/**", "a/b/", "**/cow", ".hid", "*/*", "cat", "**/a", "d1/",
            "share/cycle/*", "work/**/x", "?", "*a*"]


# ---------------------------------------------------------------------------
# clean stream
# ---------------------------------------------------------------------------
def _snapshot(root):
    """physical listing: [[parts...], kind, target parts or None] sorted."""
    out = []
    for d, dirs, files in os.walk(root, followlinks=False):
        for x in dirs + files:
            p = os.path.join(d, x)
            rel = os.path.relpath(p, root).split("/")
            if os.path.islink(p):
                tg = os.readlink(p)
                if not os.path.isabs(tg):
                    tg = os.path.normpath(os.path.join(d, tg))
                else:
                    tg = os.path.normpath(tg)
                if tg == root:
                    tparts = []
                elif tg.startswith(root + "/"):
                    tparts = os.path.relpath(tg, root).split("/")
                else:
                    tparts = ["<outside>"] + tg.strip("/").split("/")
                out.append([rel, "l", tparts])
            elif os.path.isdir(p):
                out.append([rel, "d", None])
            else:
                out.append([rel, "f", None])
    out.sort(key=lambda e: e[0])
    return out


class CleanStream(Stream):
    name = "clean"
    coq_import = "From Cylc Require Import Model.Fs."
    check_fn = "Fs.check_case"
    show_fn = "Fs.model_out"
    needs_scratch_home = True
    n_hashseeds = 8
    shard_size = 60
    impl_timeout = 2400
    rule = ("real clean(id, run_dir, parse_rm_dirs(patterns)|None) on generated scratch trees: run dir content with "
            "files/dirs/symlinks (to outside dirs and files, broken, relative with .., into the run dir), standard symlink "
            "dirs (valid, broken, invalid, nested share/cycle, the run dir itself), sentinels outside, runN/_cylc-install "
            "siblings; 0-3 --rm patterns from a pool of literal and glob patterns or wholesale; 30% of targeted cases add a "
            "non-standard symlink (run dir or inside a standard target) to an outside tree with files at depth >= 2 and patterns "
            "matching below it without matching the intermediate dirs (**/<leaf>, <link>/<dir>/*, */*/*, exact deep paths); non-trivial = something was "
            "deleted or clean refused; quick 160 cases, thorough 2500")

    def gen(self, rng, tier):
        n = 160 if tier == "quick" else 2500
        cases = []
        for i in range(n):
            c = gen_tree(rng, want_std=rng.choice([0.2, 0.5, 0.8]))
            if rng.random() < 0.2:
                c["patterns"] = None
                c["kind"] = "wholesale"
            else:
                k = rng.choice([1, 1, 2, 3])
                pats = rng.sample(PATTERNS, k)
                # bias towards names that exist in this tree
                names = sorted({e[0].split("/")[-1] for e in c["tree"]})
                if rng.random() < 0.5:
                    pats[0] = rng.choice(names) if rng.random() < 0.5 else "**/" + rng.choice(names)
                c["patterns"] = pats
                c["kind"] = "targeted"
                if rng.random() < 0.3:
                    deep = add_deep(rng, c)
                    if deep:
                        c["patterns"] = rng.sample(deep, rng.choice([1, 1, 2])) + (pats[:1] if rng.random() < 0.3 else [])
                        c["kind"] = "deep-link"
            cases.append(c)
        return cases

    def corpus(self):
        base = [["cylc-run", "d"], ["cylc-run/wf", "d"], ["cylc-run/wf/cat", "d"], ["cylc-run/wf/cat/b", "d"],
                ["cylc-run/wf/cat/b/cow", "f"], ["cylc-run/wf/zed", "d"], ["cylc-run/wf/zed/cup", "f"],
                ["scr", "d"], ["scr/cylc-run", "d"], ["scr/cylc-run/wf", "d"], ["scr/cylc-run/wf/log", "d"],
                ["cylc-run/wf/log", "l", "/scr/cylc-run/wf/log"], ["ext", "d"], ["ext/keep", "f"]]
        R, S = "cylc-run/foo/run1", "sym-share/cylc-run/foo/run1/share"
        demo = [["cylc-run", "d"], ["cylc-run/foo", "d"], [R, "d"], [R + "/.service", "d"], [R + "/.service/db", "f"],
                [R + "/flow.cylc", "f"], [R + "/log", "d"], [R + "/log/scheduler", "d"], [R + "/log/scheduler/log.txt", "f"],
                [R + "/work", "d"], [R + "/work/1", "d"], [R + "/work/1/task", "d"], [R + "/work/1/task/out.txt", "f"],
                [R + "/work/1/task/out.nc", "f"], ["sym-share", "d"], ["sym-share/cylc-run", "d"],
                ["sym-share/cylc-run/foo", "d"], ["sym-share/cylc-run/foo/run1", "d"], [S, "d"], [S + "/data.txt", "f"],
                [S + "/cycle", "d"], [S + "/cycle/a.txt", "f"], ["outside", "d"], ["outside/top.txt", "f"],
                ["outside/keep", "d"], ["outside/keep/precious.txt", "f"], ["outside/keep/deep", "d"],
                ["outside/keep/deep/gold.txt", "f"], [R + "/share", "l", "/" + S], [R + "/extdata", "l", "/outside"],
                [S + "/extdata2", "l", "/outside"], [R + "/dangling.txt", "l", "/nowhere"]]
        return [
            # regression (fixed in /repo 877abf5): matched dir `cat` and a deeper match `cat/b/cow` while a std
            # symlink dir exists used to crash with FileNotFoundError and leave `zed/cup`
            {"tree": base, "id": "wf", "patterns": ["**/c*"], "kind": "targeted"},
            # same tree, no std symlink dir: works
            {"tree": [e for e in base if e[0] != "cylc-run/wf/log"], "id": "wf", "patterns": ["**/c*"], "kind": "targeted"},
            # non-standard symlink to an outside dir: unlinked, not followed
            {"tree": base + [["cylc-run/wf/out", "l", "/ext"]], "id": "wf", "patterns": ["out", "out/*"], "kind": "targeted"},
            {"tree": base + [["cylc-run/wf/out", "l", "/ext"]], "id": "wf", "patterns": None, "kind": "wholesale"},
            # seeded regression (/verif/seeded/C38/demo.py): non-standard symlink extdata -> outside dir with
            # sub-directories; a match at depth >= 2 below it must not be deleted through the link
            {"tree": demo, "id": "foo/run1", "patterns": ["**/*.txt"], "kind": "deep-link"},
            {"tree": demo, "id": "foo/run1", "patterns": ["extdata/keep/*", "work/"], "kind": "deep-link"},
            {"tree": demo, "id": "foo/run1", "patterns": ["*/*/*", "share/extdata2/keep/deep/gold.txt"], "kind": "deep-link"},
        ]

    # ---- implementation -------------------------------------------------
    def impl(self, cases):
        import glob as globmod
        import shutil
        from pathlib import Path
        from cylc.flow.clean import clean
        from cylc.flow.pathutil import parse_rm_dirs
        home = os.path.realpath(os.environ["HOME"])
        out = []
        real_iglob = globmod.iglob
        for ci, c in enumerate(cases):
            root = os.path.join(home, f"k{ci}")
            os.makedirs(root)
            for e in c["tree"]:
                p = os.path.join(root, e[0])
                if e[1] == "d":
                    os.makedirs(p, exist_ok=True)
                elif e[1] == "f":
                    os.makedirs(os.path.dirname(p), exist_ok=True)
                    with open(p, "w") as fh:
                        fh.write("x")
            for e in c["tree"]:
                if e[1] == "l":
                    p = os.path.join(root, e[0])
                    os.makedirs(os.path.dirname(p), exist_ok=True)
                    tg = e[2]
                    os.symlink(root + tg if tg.startswith("/") else tg, p)
            run_dir = Path(root, "cylc-run", c["id"])
            before = _snapshot(root)
            # independent view of the standard symlink dirs (for the oracle)
            std = {}
            for d in STD:
                p = os.path.join(str(run_dir), d) if d else str(run_dir)
                if os.path.islink(p):
                    rp = os.path.realpath(p)
                    ok = rp.endswith(os.path.join("cylc-run", c["id"], d).rstrip("/")) and \
                        (os.path.isdir(rp) or not os.path.lexists(rp))
                    std[d] = {"target": os.path.relpath(rp, root).split("/"), "valid": bool(ok)}
            recorded = []

            def rec_iglob(pattern, **kw):
                res = list(real_iglob(pattern, **kw))
                ms = sorted(Path(i) for i in res)
                info = []
                for m in ms:
                    rel = os.path.relpath(str(m), root).split("/")
                    lexical = (os.path.normpath(str(m)) + "/").startswith(str(run_dir) + "/") and ".." not in m.parts
                    # a non-standard symlink among the strict ancestors (below the run dir)?
                    blocked, anc = False, run_dir
                    for part in m.relative_to(run_dir).parts[:-1]:
                        anc = anc / part
                        reld = str(anc.relative_to(run_dir))
                        if os.path.islink(anc) and not (reld in std and std[reld]["valid"]):
                            blocked = True
                    info.append({"p": rel, "lexical": bool(lexical), "blocked": blocked})
                recorded.append({"pattern": pattern[len(globmod.escape(str(run_dir))) + 1:], "matches": info})
                return iter(res)

            res = {"exc": None}
            globmod.iglob = rec_iglob
            try:
                rm = parse_rm_dirs(c["patterns"]) if c["patterns"] is not None else None
                clean(c["id"], run_dir, rm)
            except Exception as e:  # noqa
                res["exc"] = type(e).__name__
                res["exc_msg"] = str(e)[:200]
                fn = getattr(e, "filename", None)
                if isinstance(fn, (str, bytes, os.PathLike)) and str(fn).startswith(root + "/"):
                    res["exc_path"] = os.path.relpath(str(fn), root).split("/")
            finally:
                globmod.iglob = real_iglob
            after = _snapshot(root)
            for g in recorded:
                for m in g["matches"]:
                    m["left"] = os.path.lexists(os.path.join(root, *m["p"]))
            res.update({"before": before, "after": after, "globs": recorded, "std": std})
            shutil.rmtree(root, ignore_errors=True)
            out.append(res)
        return out

    # ---- Gallina printer ------------------------------------------------
    @staticmethod
    def _numbering(r):
        tab = dict(FIXED)

        def num(nm):
            if nm not in tab:
                tab[nm] = len(tab)
            return tab[nm]
        for snap in (r["before"], r["after"]):
            for parts, k, tg in snap:
                for x in parts:
                    num(x)
                for x in (tg or []):
                    num(x)
        for g in r["globs"]:
            for m in g["matches"]:
                for x in m["p"]:
                    num(x)
        return tab

    def coq_case(self, c, r):
        if r["exc"] not in ERR:
            return None
        tab = self._numbering(r)
        if len(tab) > 4000:
            return None

        def cpath(parts):
            return q.clist(q.cnat(tab[x]) for x in parts)

        def cfs(snap):
            ents = []
            for parts, k, tg in sorted(snap, key=lambda e: [tab[x] for x in e[0]]):
                if k == "l" and tg and tg[0] == "<outside>":
                    return None
                kind = {"d": "KD", "f": "KF"}.get(k) or f"(KL {cpath(tg)})"
                ents.append(q.cpair(cpath(parts), kind))
            return q.clist(ents)
        b, a = cfs(r["before"]), cfs(r["after"])
        if b is None or a is None:
            return None
        if c["patterns"] is None:
            globs = "None"
        else:
            globs = "(Some " + q.clist(q.clist(cpath(m["p"]) for m in g["matches"]) for g in r["globs"]) + ")"
        rec = q.crecord(k_fs=b, k_cr=cpath(["cylc-run"]), k_id=cpath(c["id"].split("/")), k_globs=globs,
                        k_impl_fs=a, k_impl_err=q.cnat(ERR[r["exc"]]))
        return f"(CClean {rec})"

    # ---- oracle ---------------------------------------------------------
    @staticmethod
    def _under(p, base):
        return p[:len(base)] == base

    def oracle(self, c, r):
        idp = c["id"].split("/")
        run = ["cylc-run"] + idp
        before = {tuple(e[0]): e for e in r["before"]}
        after = {tuple(e[0]): e for e in r["after"]}
        for p, e in after.items():
            if p not in before or before[p] != e:
                return f"entry created or changed by clean: {'/'.join(p)}"
        deleted = [p for p in before if p not in after]
        bad_std = [d for d, v in r["std"].items() if not v["valid"]]
        if r["exc"] == "RuntimeError" and "Symlink loop" in r.get("exc_msg", "") and bad_std and not deleted:
            return None     # a standard symlink dir that is a symlink loop: refused, nothing deleted
        if r["exc"] == "WorkflowFilesError":
            if not bad_std:
                return "clean refused (WorkflowFilesError) although every standard symlink dir is valid: " + r.get("exc_msg", "")
            if deleted:
                return f"clean refused but deleted {'/'.join(deleted[0])}"
            return None
        if bad_std and deleted:
            return f"invalid standard symlink dir {bad_std} but clean deleted {'/'.join(deleted[0])}"
        # 1. containment
        allowed_roots = [run] + [v["target"] for v in r["std"].values() if v["valid"]]
        tidy_ok = set()
        if len(run) > 2:
            tidy_ok.add(tuple(run[:-1] + ["runN"]))
        for i in range(2, len(run)):          # empty parents strictly below cylc-run
            tidy_ok.add(tuple(run[:i]))
        for d, v in r["std"].items():
            if v["valid"]:
                n = len(idp) + (len(d.split("/")) if d else 0)
                t = v["target"]
                for i in range(len(t) - n + 1, len(t)):
                    tidy_ok.add(tuple(t[:i]))
        inst = run[:-1] + ["_cylc-install"]
        for p in deleted:
            lp = list(p)
            if any(self._under(lp, a) for a in allowed_roots):
                continue
            if p in tidy_ok:
                if before[p][1] == "d" and any(self._under(list(x), lp) and x != p for x in after):
                    return f"non-empty directory removed by the tidy-up: {'/'.join(p)}"
                continue
            if len(run) > 2 and self._under(lp, inst):
                left = [x for x in after if self._under(list(x), run[:-1]) and len(x) == len(run)]
                if left:
                    return f"_cylc-install removed although {'/'.join(left[0])} is left"
                continue
            return f"deleted outside the workflow: {'/'.join(p)}"
        # 2. crash?
        if r["exc"]:
            return f"clean raised {r['exc']}: {r.get('exc_msg', '')}"
        # 3. completeness / glob hypothesis
        for g in r["globs"]:
            for m in g["matches"]:
                if not m["lexical"]:
                    return f"glob returned a path that is not a lexical descendant of the run dir: {'/'.join(m['p'])}"
                if m["left"] and not m["blocked"]:
                    return f"pattern {g['pattern']!r} matched {'/'.join(m['p'])} but it was not deleted"
        if c["patterns"] is None:
            if tuple(run) in after:
                return "wholesale clean left the run dir"
            for v in r["std"].values():
                if v["valid"] and tuple(v["target"]) in after:
                    return f"wholesale clean left the standard symlink dir target {'/'.join(v['target'])}"
        return None

    def key(self, c, r):
        if r["exc"] is None and len(r["before"]) == len(r["after"]):
            return None
        return super().key({k: c[k] for k in ("tree", "id", "patterns")}, r)

    def classify(self, c, r, failure):
        mode = "wholesale" if c["patterns"] is None else "targeted"
        if failure.startswith("clean raised FileNotFoundError") and mode == "targeted" and r.get("exc_path"):
            miss = r["exc_path"]
            std_any = any(v["valid"] for v in r["std"].values())
            for g in r["globs"]:
                ms = [m["p"] for m in g["matches"]]
                if miss in ms and any(m != miss and miss[:len(m)] == m for m in ms) and std_any:
                    return "c38:clean:targeted:enoent-match-below-deleted-match"
        what = re.sub(r"[:'\"].*", "", failure)[:50].strip().replace(" ", "-")
        return f"c38:clean:{mode}:{what}"

    def shrink(self, c):
        t = c["tree"]
        if c["patterns"] and len(c["patterns"]) > 1:
            for i in range(len(c["patterns"])):
                yield dict(c, patterns=c["patterns"][:i] + c["patterns"][i + 1:])
        run = "cylc-run/" + c["id"]
        for i in range(len(t) - 1, -1, -1):
            e = t[i]
            if e[0] == run or run.startswith(e[0] + "/") or e[0] == "cylc-run":
                continue
            if any(x[0].startswith(e[0] + "/") for x in t):
                continue
            if any(x[1] == "l" and x[2].startswith("/") and (x[2][1:] == e[0]) for x in t):
                continue
            yield dict(c, tree=t[:i] + t[i + 1:])


# ---------------------------------------------------------------------------
# parse_rm_dirs stream
# ---------------------------------------------------------------------------
PNAMES = ["a", "b*", "...", "**", "c d", "[x]", "..a", "a.."]


class ParseStream(Stream):
    name = "parse"
    coq_import = "From Cylc Require Import Model.Fs."
    check_fn = "Fs.check_case"
    show_fn = "Fs.model_out"
    n_hashseeds = 2
    rule = ("parse_rm_dirs on single --rm parts built from the components '', '.', '..' and 8 names (incl. '...', '..a', "
            "glob characters, spaces) with optional surrounding blanks; thorough adds every part with <= 5 components over "
            "{'', '.', '..', 'a', 'b*'}; non-trivial = contains a '..' or '.' or empty component")

    def gen(self, rng, tier):
        cases = []
        n = 400 if tier == "quick" else 4000
        for _ in range(n):
            k = rng.randint(1, 6)
            comps = [rng.choice(["", ".", "..", "..", rng.choice(PNAMES), rng.choice(PNAMES)]) for _ in range(k)]
            s = "/".join(comps)
            if rng.random() < 0.2:
                s = " " + s + rng.choice(["", " ", "\t"])
            cases.append({"part": s})
        if tier == "thorough":
            import itertools
            for k in range(1, 6):
                for combo in itertools.product(["", ".", "..", "a", "b*"], repeat=k):
                    cases.append({"part": "/".join(combo), "kind": "exhaustive5"})
        return cases

    def corpus(self):
        return [{"part": p} for p in ["a/../..", "*/../..", "a/..", "..", "../a", "a/../../b", "//a", "///a", "/", "//",
                                      "a/", "a//", "./a/./b/", "...", "..a/..", "a/b/../../..", " a/ ", "a/..b", "."]]

    def impl(self, cases):
        from cylc.flow.exceptions import InputError
        from cylc.flow.pathutil import parse_rm_dirs
        out = []
        for c in cases:
            try:
                r = sorted(parse_rm_dirs([c["part"]]))
                out.append({"res": "accept", "val": r})
            except InputError as e:
                s = str(e)
                out.append({"res": "abs" if "absolute" in s else "above" if "run directory or above" in s else "exc:" + s})
            except Exception as e:  # noqa
                out.append({"res": f"exc:{type(e).__name__}: {e}"})
        return out

    @staticmethod
    def _ccomps(s):
        def one(x):
            if x == "":
                return "CEmpty"
            if x == ".":
                return "CCur"
            if x == "..":
                return "CPar"
            if x not in PNAMES:
                raise KeyError(x)
            return f"(CName {q.cnat(PNAMES.index(x))})"
        return q.clist(one(x) for x in s.split("/"))

    def coq_case(self, c, r):
        part = c["part"].strip()
        if not part or ":" in part:
            return None
        if r["res"].startswith("exc"):
            return None
        try:
            cs = self._ccomps(part)
            if r["res"] == "accept":
                if len(r["val"]) != 1:
                    return None
                v = r["val"][0]
                trailing = v.endswith("/")
                impl = f"(PAccept {self._ccomps(v[:-1] if trailing else v)} {q.cbool(trailing)})"
            else:
                impl = {"abs": "PAbs", "above": "PAbove"}[r["res"]]
        except KeyError:
            return None
        return f"(CParse {cs} {impl})"

    def oracle(self, c, r):
        if r["res"].startswith("exc"):
            return "unexpected exception: " + r["res"][4:]
        if r["res"] != "accept":
            return None
        for v in r["val"]:
            comps = v.rstrip("/").split("/")
            if v.startswith("/"):
                return f"accepted an absolute path {v!r}"
            if any(x in ("..", ".", "") for x in comps):
                return f"accepted {c['part']!r} -> {v!r} which still has a '..', '.' or empty component"
            # lexical containment, computed independently
            depth = 0
            for x in c["part"].strip().split("/"):
                if x in ("", "."):
                    continue
                depth += -1 if x == ".." else 1
                if depth < 0:
                    return f"accepted {c['part']!r} which climbs above the run dir"
            if depth <= 0:
                return f"accepted {c['part']!r} which denotes the run dir itself"
        return None

    def key(self, c, r):
        if not any(x in ("", ".", "..") for x in c["part"].strip().split("/")):
            return None
        return c["part"]

    def classify(self, c, r, failure):
        return "c38:parse:" + re.sub(r"'.*", "", failure)[:40].strip().replace(" ", "-")

    def shrink(self, c):
        comps = c["part"].split("/")
        for i in range(len(comps)):
            if len(comps) > 1:
                yield {"part": "/".join(comps[:i] + comps[i + 1:])}


STREAMS = [CleanStream(), ParseStream()]

META = {
    "level_text": (
        "Coq theorems over Model/Fs.v (flat physical filesystem map with kernel-style symlink walk; get_symlink_dirs, "
        "glob_in_run_dir's filter, _clean_using_glob, remove_dir_or_file, remove_dir_and_target, wholesale branch): "
        "(1) accepted --rm parts contain only names (no '..'/'.'/empty) and, read lexically, never climb above the run dir; "
        "(2) for ALL trees, run dirs, get_symlink_dirs results and pattern sequences with lexical glob results (or wholesale), "
        "every entry removed by the core of clean() lies at/below the run dir entry, its real location or the real target of "
        "a standard symlink dir — so nothing is removed through a non-standard symlink; an invalid standard symlink makes "
        "clean refuse with the tree untouched; (3) a symlink is removed as its own entry only; (4) the removal loop never "
        "fails and leaves none of its paths existing, every path kept by glob_in_run_dir is gone after a pattern, and every "
        "glob match is blocked by a non-standard symlink, kept, or below a kept path. The model is tied to clean.py/"
        "pathutil.py/workflow_files.py by running the real clean() and parse_rm_dirs on generated scratch trees/patterns and "
        "comparing the resulting tree / parse result with the model inside Coq; an independent oracle checks that all "
        "sentinels outside the workflow survive and every non-blocked match is gone."),
    "level_note": (
        "partial: glob.iglob+sorted is an oracle (recorded per pattern; hypothesis: matches are lexical descendants of the run "
        "dir, checked on every match); the last step of full completeness (a match below a removed kept path no longer "
        "exists) needs tree well-formedness and is stated as Definition c38_complete_full, not proved; the tidy-up of clean() "
        "(runN, _cylc-install, empty parents) is modelled and compared but has no theorem; remote clean is out of scope. "
        "The defect found by this check (FileNotFoundError on a match below an already removed match) is fixed in /repo "
        "(877abf5); its witness is a regression case and a Coq Example."),
    "technique": "Coq proof (invariant over extension-closed deletions + symlink-walk lemmas) + recorded-oracle glob + "
                 "in-Coq differential correspondence on real scratch trees + sentinel/completeness oracle",
    "design_ref": "5/C38",
}
