"""C23 — universal identifiers round-trip (cylc/flow/id.py: tokenise, detokenise,
legacy_tokenise, upgrade_legacy_ids, Tokens)."""
import itertools
import re

from vp.core import Stream

GEN = ["uniclasses"]
TRUSTED = [
    "hand model Model/Id.v: recursive-descent transcription of UNIVERSAL_ID, RELATIVE_ID, LEGACY_TASK_DOT_CYCLE, "
    "LEGACY_CYCLE_SLASH_TASK (regex backtracking is not modelled generically; each pattern's transcription is "
    "validated by the dense correspondence streams), _dict_strip, tokenise, detokenise, legacy_tokenise, upgrade_legacy_ids",
    "vp/gen/uniclasses.py: \\d and str.isspace tables of the running CPython (theorems are stated for arbitrary classes)",
    "int()/format of job numbers is modelled for ASCII digit strings and 'NN' only",
]
ASSUMES = [
    "valid tokens: every present value is non-empty, has no leading/trailing white space, stays inside the character "
    "class of its field, cycles contain no ':' (the regex admits one only through backtracking; cli_tokenise exists "
    "because of it), jobs are ASCII digit strings or 'NN'",
]

KEYS = ['user', 'workflow', 'workflow_sel', 'cycle', 'cycle_sel', 'task', 'task_sel', 'job', 'job_sel']
FLAGS = [(False, False), (True, False), (False, True), (True, True)]   # (selectors, relative)


def hx(s):
    return '(Codes.dec "' + ''.join('%06x' % ord(ch) for ch in s) + '"%string)'


def ohx(v):
    return "None" if v is None else f"(Some {hx(v)})"


def ctokens(lst):
    return "None" if lst is None else "(Some (Id.mk " + " ".join(ohx(v) for v in lst) + "))"


def ctokens_raw(lst):
    return "(Id.mk " + " ".join(ohx(v) for v in lst) + ")"


def cdres(r):
    if isinstance(r, dict):
        return {"notokens": "Id.DNoTokens", "badjob": "Id.DBadJob"}[r["err"]]
    return f"(Id.DOk {hx(r)})"


# ---------------------------------------------------------------- generators
# characters that may sit next to a separator in each field
A_USER = list("ab1._-*+@% é") + ['٣']                 # [^/:\n~]
A_CYC = list("ab19.TZ+-*_ %@é") + ['٣']               # [^~/\n] minus ':'
A_ANY = list("ab1.~*-_+ %@NéT") + ['٣']               # [^/:\n]
JOBS = ['1', '01', '2', '12', '007', '100', 'NN', '0', '00', '99', '010', '3']
BADJOBS = ['+4', '-4', 'x', 'N', 'nn', '1_0', '٣', '1.0', ' 1', '1a', '', '0x1']


def _val(rng, alpha, lo=1, hi=4, edge=None):
    """non-empty, no white space at the edges"""
    while True:
        s = ''.join(rng.choice(alpha) for _ in range(rng.randint(lo, hi)))
        if s and not s[0].isspace() and not s[-1].isspace():
            if edge is None or edge(s):
                return s


def valid_tokens(rng):
    t = dict.fromkeys(KEYS)
    shape = rng.random()
    if rng.random() < 0.45:
        t['user'] = _val(rng, A_USER)
    if rng.random() < 0.75:
        t['workflow'] = '/'.join(_val(rng, A_USER, 1, 3) for _ in range(rng.choice([1, 1, 1, 2, 3])))
        if rng.random() < 0.35:
            t['workflow_sel'] = _val(rng, A_ANY)
    depth = rng.choice([0, 1, 1, 2, 2, 3, 3]) if shape < 0.9 else 3
    if depth >= 1:
        t['cycle'] = _val(rng, A_CYC, edge=lambda s: s[0] not in '~:')
        if rng.random() < 0.35:
            t['cycle_sel'] = _val(rng, A_ANY)
    if depth >= 2:
        t['task'] = _val(rng, A_ANY)
        if rng.random() < 0.35:
            t['task_sel'] = _val(rng, A_ANY)
    if depth >= 3:
        t['job'] = rng.choice(JOBS)
        if rng.random() < 0.35:
            t['job_sel'] = _val(rng, A_ANY)
    # gaps: remove an intermediate token now and then ('*' is printed for it)
    if rng.random() < 0.2:
        k = rng.choice(['workflow', 'cycle', 'task'])
        t[k] = None
    # selectors below the lowest token / for a missing token
    if rng.random() < 0.1:
        t[rng.choice(['workflow_sel', 'cycle_sel', 'task_sel', 'job_sel'])] = _val(rng, A_ANY)
    return t


def invalid_tokens(rng):
    t = valid_tokens(rng)
    k = rng.choice(KEYS)
    x = rng.random()
    if x < 0.2:
        t[k] = ''
    elif x < 0.4:
        t['job'] = rng.choice(BADJOBS)
    elif x < 0.55:
        t['cycle'] = rng.choice(['1:a', 'a:', '2000-01-01T00:00Z', ':a', '~c', 'a/b', 'a\n'])
    elif x < 0.7:
        t[k] = ' ' + (t[k] or 'a') + rng.choice([' ', '\t', '\xa0', ''])
    else:
        t[k] = (t[k] or 'a') + rng.choice([':', '/', '~', '\n', '//', ':x', '/y']) + rng.choice(['', 'z'])
    return t


def fmt(t, selectors=True):
    """independent formatter used to build input strings (not the oracle)"""
    def ws(k):
        v = t[k] or '*'
        if selectors and t.get(k + '_sel'):
            v += ':' + t[k + '_sel']
        return v
    s = ''
    if t['user']:
        s += '~' + t['user']
    if t['workflow']:
        s += ('/' if s else '') + ws('workflow')
    rel = ''
    if t['cycle'] or t['task'] or t['job']:
        rel = '//' + ws('cycle')
        if t['task'] or t['job']:
            rel += '/' + ws('task')
        if t['job']:
            rel += '/' + ws('job')
    return s + rel


S_ALPHA = ['a', 'b', '1', '0', '/', '/', ':', ':', '~', '.', ' ', '\n', '*', 'N', '-', '\t', '٣', 'é', '+']


def mutate(rng, s):
    i = rng.randint(0, len(s))
    x = rng.random()
    if x < 0.45:
        return s[:i] + rng.choice(S_ALPHA) + s[i:]
    if x < 0.7 and s:
        i = min(i, len(s) - 1)
        return s[:i] + rng.choice(S_ALPHA) + s[i + 1:]
    if x < 0.9 and s:
        i = min(i, len(s) - 1)
        return s[:i] + s[i + 1:]
    return s + rng.choice(['/', '//', '///', '\n', ':', ' ', '/ ', ':x', '/1', '/NN'])


L_TASK = list("ab1._-+%@ é~:/")      # legacy task alphabet incl. a few illegal characters at the end
L_CYC = list("0123459TZ+-a_ ٣.:~")


def legacy_case(rng):
    """legacy-shaped identifiers together with the tokens they denote"""
    ok_t = [c for c in L_TASK if c not in '~:/']
    ok_c = [c for c in L_CYC if c not in '.:~']
    task = _val(rng, ok_t, 1, 4)
    n = rng.choice([0, 0, 1, 2, 3, 8])
    cyc = rng.choice('0123456789' if rng.random() < 0.9 else ['٣', '１']) + ''.join(
        rng.choice(ok_c) for _ in range(n)).rstrip()
    sel = _val(rng, A_ANY) if rng.random() < 0.4 else None
    form = rng.choice(['dot', 'slash'])
    if form == 'slash' and rng.random() < 0.5 and '.' in task:
        pass
    s = (f'{task}.{cyc}' if form == 'dot' else f'{cyc}/{task}') + (f':{sel}' if sel else '')
    return {"id": s, "kind": "legacy", "form": form, "fields": [task, cyc, sel]}


class IdStrStream(Stream):
    name = "idstr"
    coq_import = "From Cylc Require Import Model.Codes Model.Id."
    check_fn = "Id.check_scase"
    show_fn = "Id.smodel_out"
    rule = ("identifier strings: formatted random tokens (valid per field, over alphabets containing every "
            "separator-adjacent character each field allows) with optional trailing '/', '//', newline, padding "
            "white space; one-character mutations of those (insert/replace/delete over {a b 1 0 / : ~ . space \\n * N - tab "
            "unicode}); random strings over that alphabet; legacy task.cycle / cycle/task shapes; each string is "
            "given to tokenise (absolute and relative), legacy_tokenise and upgrade_legacy_ids (absolute and relative); "
            "non-trivial = contains a separator; thorough adds every string of length <= 6 over {a 1 / : ~ .}")
    n_hashseeds = 2
    shard_size = 400

    def corpus(self):
        ids = ['~u/w:ws//c:cs/t:ts/01:js', 'w//c', 'w//', 'w///', '~u/', '~u', 'w/', '//c/', '//c/t/', '//c/t/j/',
               ' w // c ', 'w\n', 'a///', '~u//c', '//c//', '//1:a:b', '//a:', '//2000-01-01T00:00Z/t', '//c/t/٣',
               '//c/t/+4', '//c/t/NN', '//~c', '//c/~t', 'w:~s', '~u/*//c', 'w//c/t:a:b', '', '\n', '~', '/', ':',
               'task.1', 't.a.s.k.123', 'task.123:sel', '123/task', '123/t.a.s.k', '123/task:sel', 'task.cycle',
               '//task.123', 'task:sel.123', 'cycle/task', '12/a', 'a.1 ', ' .1', 'a.1: ', 'a/b/c//1/t/2',
               'a/b//', 'a//b//c', 'a:b:c', 'w////c', 'w///c', '~u/w////c/t', 'w:s////c', '////c', '~u/w/', '~u:s', '~a~b', 'w// ', 'w//\n', '//c\n', '//\n']
        out = [{"id": s, "kind": "corpus"} for s in ids]
        # regression cases of the finding fixed in /repo 26dc1a0: legacy cycle/task with a
        # one-character cycle was not recognised (upgrade_legacy_ids left '1/foo' unchanged)
        out.append({"id": "1/foo", "kind": "legacy", "form": "slash", "fields": ["foo", "1", None]})
        out.append({"id": "1/foo:failed", "kind": "legacy", "form": "slash", "fields": ["foo", "1", "failed"]})
        out.append({"id": "foo.1", "kind": "legacy", "form": "dot", "fields": ["foo", "1", None]})
        out.append({"id": "10/foo", "kind": "legacy", "form": "slash", "fields": ["foo", "10", None]})
        return out

    def gen(self, rng, tier):
        big = tier != "quick"
        cases = []
        for _ in range(500 if not big else 12000):
            t = valid_tokens(rng)
            s = fmt(t, selectors=rng.random() < 0.7)
            x = rng.random()
            if x < 0.08:
                s += '/'
            elif x < 0.14:
                s += '//'
            elif x < 0.18:
                s += '\n'
            elif x < 0.22:
                s = ' ' + s + ' '
            elif x < 0.27:
                s = s.replace('/', ' / ', 1)
            elif x < 0.32:
                s = s.replace(':', ' : ', 1)
            elif x < 0.40:
                # doubled / tripled separators ("w////c", "w///c", "~u//w", "//c//t")
                s = s.replace('//', rng.choice(['////', '///', '/', '// //']), 1) if '//' in s and rng.random() < 0.7 \
                    else s.replace('/', '//', 1)
            cases.append({"id": s, "kind": "formatted"})
        for _ in range(500 if not big else 12000):
            t = valid_tokens(rng)
            s = fmt(t, selectors=rng.random() < 0.7)
            for _ in range(rng.choice([1, 1, 2])):
                s = mutate(rng, s)
            cases.append({"id": s, "kind": "mutated"})
        for _ in range(300 if not big else 8000):
            n = rng.choice([0, 1, 2, 2, 3, 3, 4, 4, 5, 6, 8])
            cases.append({"id": ''.join(rng.choice(S_ALPHA) for _ in range(n)), "kind": "random"})
        for _ in range(350 if not big else 8000):
            c = legacy_case(rng)
            if rng.random() < 0.3:
                c = {"id": mutate(rng, c["id"]), "kind": "legacy-mutated"}
            cases.append(c)
        if big:
            for n in range(0, 7):
                for tup in itertools.product('a1/:~.', repeat=n):
                    cases.append({"id": ''.join(tup), "kind": "exhaustive"})
        return cases

    def impl(self, cases):
        import logging
        from cylc.flow import LOG
        from cylc.flow.id import Tokens, tokenise, detokenise, legacy_tokenise, upgrade_legacy_ids
        LOG.setLevel(logging.CRITICAL)

        def tl(t):
            return [dict.get(t, k) for k in KEYS]

        def tok(s, relative=False):
            try:
                return tl(tokenise(s, relative=relative))
            except ValueError:
                return None

        out = []
        for c in cases:
            s = c["id"]
            res = {}
            try:
                res["tok"] = tok(s)
                res["tok_rel"] = tok(s, True)
                try:
                    lt = legacy_tokenise(s)
                    res["legacy_keys"] = sorted(lt)
                    res["legacy"] = tl(lt)
                except ValueError:
                    res["legacy"] = None
                res["up_abs"] = upgrade_legacy_ids('w:x', s)
                res["up_rel"] = upgrade_legacy_ids(s, relative=True)
                res["up_abs_tok"] = tok(res["up_abs"][1]) if len(res["up_abs"]) == 2 else "?"
                res["up_rel_tok"] = tok(res["up_rel"][0], True) if len(res["up_rel"]) == 1 else "?"
                # parse -> format -> parse, with selectors
                rt = {}
                if res["tok"] is not None:
                    T = tokenise(s)
                    for sel in (True, False):
                        try:
                            s2 = detokenise(T, selectors=sel)
                            T2 = tokenise(s2)
                            rt[str(sel)] = {"s2": s2, "t2": tl(T2), "s3": detokenise(T2, selectors=sel),
                                            "eq": T2 == Tokens(s2), "hash": hash(T2) == hash(Tokens(s2))}
                        except ValueError as e:
                            rt[str(sel)] = {"err": str(e)[:60]}
                res["rt"] = rt
            except Exception as e:  # noqa
                res["exc"] = f"{type(e).__name__}: {e}"[:200]
            out.append(res)
        return out

    def coq_case(self, c, r):
        if "exc" in r:
            return None
        return ("{| Id.s_id := %s; Id.s_tok := %s; Id.s_tok_rel := %s; Id.s_legacy := %s; "
                "Id.s_up_abs := [%s]; Id.s_up_first := %s; Id.s_up_rel := [%s] |}" % (
                    hx(c["id"]), ctokens(r["tok"]), ctokens(r["tok_rel"]), ctokens(r["legacy"]),
                    "; ".join(hx(x) for x in r["up_abs"]), hx('w:x'), "; ".join(hx(x) for x in r["up_rel"])))

    def oracle(self, c, r):
        if "exc" in r:
            return "unexpected exception: " + r["exc"]
        # (1) parse -> format -> parse is stable; the formatted string is canonical
        for sel, d in r["rt"].items():
            t = r["tok"]
            if "err" in d:
                continue            # tokens that cannot be formatted (bad job, empty after strip)
            if any(v == '' for v in t):
                continue
            want = canon(t, sel == "True")
            if want is None:
                continue
            if sel == "False" and t[3] and ':' in t[3]:
                continue            # ':' inside a cycle (outside the valid domain)
            if d["t2"] != want:
                return f"tokenise(detokenise(tokenise(s), selectors={sel})) = {d['t2']} but canonical tokens are {want}"
            if d["s3"] != d["s2"]:
                return f"detokenise(tokenise({d['s2']!r})) = {d['s3']!r}"
            if not (d["eq"] and d["hash"]):
                return "Tokens.__eq__/__hash__ disagree on equal tokens"
        # (2) legacy identifiers upgrade to the equivalent tokens
        lt = r["legacy"]
        if c.get("kind") == "legacy":
            task, cyc, sel = c["fields"]
            want = [None, None, None, cyc, None, task, sel, None, None]
            if lt != want:
                return f"legacy_tokenise({c['id']!r}) = {lt}, expected cycle={cyc!r} task={task!r} sel={sel!r}"
        if lt is not None and all(v != '' for v in lt):
            if r.get("legacy_keys") != ['cycle', 'task', 'task_sel']:
                return "legacy_tokenise returned unexpected keys"
            if len(r["up_abs"]) != 2 or r["up_abs"][0] != 'w:x' or r["up_abs_tok"] != lt:
                return f"upgrade_legacy_ids('w:x', {c['id']!r}) = {r['up_abs']} does not tokenise to {lt}"
            if len(r["up_rel"]) != 1 or r["up_rel_tok"] != lt:
                return f"upgrade_legacy_ids({c['id']!r}, relative=True) = {r['up_rel']} does not tokenise to {lt}"
        if lt is None:
            if r["up_abs"] != ['w:x', c["id"]] or r["up_rel"] != [c["id"]]:
                return "upgrade_legacy_ids changed a non-legacy id"
        return None

    def key(self, c, r):
        return c["id"] if re.search(r'[/:~.]', c["id"]) else None

    def classify(self, c, r, failure):
        if failure.startswith("legacy_tokenise(") and c.get("kind") == "legacy":
            task, cyc, sel = c["fields"]
            if c.get("form") == "slash" and len(cyc) == 1 and r["legacy"] is None:
                return "idstr:legacy-slash-one-char-cycle"
            return "idstr:legacy-parse"
        if failure.startswith("unexpected exception"):
            return "idstr:exception"
        if "upgrade_legacy_ids" in failure:
            return "idstr:legacy-upgrade"
        return "idstr:roundtrip"

    def shrink(self, c):
        s = c["id"]
        if c.get("kind") == "legacy":
            task, cyc, sel = c["fields"]
            for f in ([task[1:], cyc, sel], [task, cyc[:-1], sel], [task, cyc, None], [task[:-1], cyc, sel]):
                if f[0] and f[1] and f != c["fields"] and not f[0][0].isspace() and not f[0][-1].isspace():
                    s2 = (f'{f[0]}.{f[1]}' if c["form"] == 'dot' else f'{f[1]}/{f[0]}') + (f':{f[2]}' if f[2] else '')
                    yield dict(c, id=s2, fields=f)
            return
        for i in range(len(s)):
            yield dict(c, id=s[:i] + s[i + 1:])


def truthy(v):
    return bool(v)


def canon(t, selectors):
    """independent statement of what formatting then re-parsing tokens must give:
    gaps above the lowest token become '*', the job is zero padded, selectors kept
    only when asked for and only down to the lowest token."""
    u, w, ws, c, cs, k, ks, j, js = t
    hu, hw, hc, hk, hj = map(truthy, (u, w, c, k, j))
    partial = not (hc or hk or hj)
    if not (hu or hw) and partial:
        return None
    out = [None] * 9
    if hu:
        out[0] = u
    if (hu or hw) and (hw or not partial):
        out[1] = w or '*'
        out[2] = ws if selectors and ws else None
    if not partial:
        out[3] = c or '*'
        out[4] = cs if selectors and cs else None
    if hk or hj:
        out[5] = k or '*'
        out[6] = ks if selectors and ks else None
    if hj:
        if j != 'NN':
            try:
                j = '%02d' % int(j)
            except ValueError:
                return None
        out[7] = j
        out[8] = js if selectors and js else None
    return out


def in_fragment(t):
    j = t[7]
    if not j or j == 'NN' or re.fullmatch('[0-9]+', j):
        return True
    try:
        int(j)
    except ValueError:
        return True     # implementation raises, model says DBadJob
    return False        # '+4', ' 4', unicode digits: int() accepts, model does not


class IdTokStream(Stream):
    name = "idtok"
    coq_import = "From Cylc Require Import Model.Codes Model.Id."
    check_fn = "Id.check_tcase"
    show_fn = "Id.tmodel_out"
    rule = ("token dictionaries: each field absent or a value over the alphabet its character class allows "
            "(incl. '~' '.' '*' inner spaces, hierarchical workflows, jobs 1/01/007/100/NN), with gaps and stray "
            "selectors; a separately tagged invalid stream (empty values, ':' in cycles, padded values, separators "
            "inside values, non-numeric jobs); each formatted with the 4 (selectors, relative) combinations, "
            "re-parsed and re-formatted; non-trivial = at least two tokens present")
    n_hashseeds = 2
    shard_size = 300

    def corpus(self):
        def T(**kw):
            t = dict.fromkeys(KEYS)
            t.update(kw)
            return {"tokens": [t[k] for k in KEYS], "kind": "valid"}
        return [T(user='u', workflow='w', cycle='c', task='t', job='01'),
                T(user='u', workflow='a/b', workflow_sel='s', cycle='1', cycle_sel='x', task='t~.', task_sel='y',
                  job='4', job_sel='z'),
                T(user='u'), T(workflow='w'), T(cycle='1'), T(task='t'), T(job='1'), T(user='u', cycle='1'),
                T(user='u', job='NN'), T(workflow='w', workflow_sel='s', cycle_sel='x'),
                T(cycle='*', task='*'), T(workflow='*', cycle='2000', job='100'),
                dict(T(cycle='1:a'), kind="invalid"), dict(T(cycle='1', job='x'), kind="invalid"),
                dict(T(), kind="invalid"), dict(T(job_sel='x'), kind="invalid"), dict(T(user=''), kind="invalid")]

    def gen(self, rng, tier):
        big = tier != "quick"
        cases = []
        for _ in range(900 if not big else 25000):
            t = valid_tokens(rng)
            cases.append({"tokens": [t[k] for k in KEYS], "kind": "valid"})
        for _ in range(250 if not big else 6000):
            t = invalid_tokens(rng)
            cases.append({"tokens": [t[k] for k in KEYS], "kind": "invalid"})
        return cases

    def impl(self, cases):
        from cylc.flow.id import Tokens, tokenise, detokenise
        out = []
        for c in cases:
            kw = {k: v for k, v in zip(KEYS, c["tokens"]) if v is not None}
            res = {"detok": [], "rt": []}
            try:
                T = Tokens(**kw)
                is_rel = not (T['user'] or T['workflow'])
                for sel, rel in FLAGS:
                    try:
                        s = detokenise(T, selectors=sel, relative=rel)
                    except ValueError as e:
                        res["detok"].append({"err": "notokens" if "No tokens" in str(e) else "badjob"})
                        res["rt"].append(None)
                        continue
                    res["detok"].append(s)
                    try:
                        T2 = tokenise(s, relative=rel and is_rel)
                        s3 = detokenise(T2, selectors=sel, relative=rel)
                        res["rt"].append({"t2": [T2[k] for k in KEYS], "s3": s3,
                                          "eq": T2 == T2.duplicate() and hash(T2) == hash(T2.duplicate())})
                    except ValueError as e:
                        res["rt"].append({"err": str(e)[:80]})
                # relative and absolute forms agree on the task part
                ra = None
                if not is_rel and (T['cycle'] or T['task'] or T['job']):
                    try:
                        for sel in (False, True):
                            A = tokenise(detokenise(T, selectors=sel))
                            rs = detokenise(A.task, selectors=sel, relative=True)
                            R = tokenise(rs, relative=True)
                            R2 = tokenise('//' + rs)
                            ok = (A.task == R and R == R2 and hash(A.task) == hash(R)
                                  and [A.task[k] for k in KEYS] == [R[k] for k in KEYS]
                                  and rs == (A.relative_id_with_selectors if sel else A.relative_id))
                            ra = ok if ra is None else (ra and ok)
                    except ValueError as e:
                        ra = "err: " + str(e)[:60]
                res["rel_abs"] = ra
                res["eq"] = (T == T.duplicate() and hash(T) == hash(T.duplicate()) and not (T != T.duplicate()))
                # tokens that differ in one regular field are different
                for k in ('user', 'workflow', 'cycle', 'task', 'job'):
                    other = T.duplicate(**{k: (T[k] or '') + '9'})
                    if other == T or not (other != T) or T == other:
                        res["eq"] = False
            except Exception as e:  # noqa
                res["exc"] = f"{type(e).__name__}: {e}"[:200]
            out.append(res)
        return out

    def coq_case(self, c, r):
        if "exc" in r or not in_fragment(c["tokens"]):
            return None
        return "{| Id.t_tokens := %s; Id.t_detok := [%s] |}" % (
            ctokens_raw(c["tokens"]), "; ".join(cdres(x) for x in r["detok"]))

    def oracle(self, c, r):
        if "exc" in r:
            return "unexpected exception: " + r["exc"]
        if c.get("kind") != "valid":
            return None
        t = c["tokens"]
        if not r["eq"]:
            return "Tokens.duplicate()/__eq__/__hash__ disagree"
        for (sel, rel), s, rt in zip(FLAGS, r["detok"], r["rt"]):
            want = canon(t, sel)
            if want is None:
                if not isinstance(s, dict):
                    return f"detokenise gave {s!r} for tokens without any regular token"
                continue
            if isinstance(s, dict):
                return f"detokenise(selectors={sel}, relative={rel}) raised {s['err']} on valid tokens"
            if "err" in rt:
                return f"detokenise(selectors={sel}, relative={rel}) = {s!r} does not re-parse: {rt['err']}"
            if rt["t2"] != want:
                return (f"tokenise(detokenise(t, selectors={sel}, relative={rel}) = {s!r}) = {rt['t2']}, "
                        f"expected {want}")
            if rt["s3"] != s:
                return f"detokenise(tokenise({s!r})) = {rt['s3']!r}"
            if not rt["eq"]:
                return "Tokens.duplicate()/__eq__/__hash__ disagree on re-parsed tokens"
        if r["rel_abs"] not in (None, True):
            return f"relative and absolute forms disagree on the task part ({r['rel_abs']})"
        return None

    def key(self, c, r):
        if sum(1 for i in (0, 1, 3, 5, 7) if c["tokens"][i]) < 2:
            return None
        return super().key(c, r)

    def classify(self, c, r, failure):
        return "idtok:" + ("relabs" if "relative and absolute" in failure else "roundtrip")

    def shrink(self, c):
        t = c["tokens"]
        for i, v in enumerate(t):
            if v:
                yield dict(c, tokens=t[:i] + [None] + t[i + 1:])
                if len(v) > 1:
                    yield dict(c, tokens=t[:i] + [v[:-1].rstrip() or v[:1]] + t[i + 1:])


STREAMS = [IdStrStream(), IdTokStream()]

META = {
    "level_text": ("Coq theorems over Model/Id.v for ALL valid tokens (each field any string over its character class, "
                   "non-empty, no white space at the edges; cycles without ':'; jobs 'NN' or ASCII digits), all four "
                   "(selectors, relative) combinations and arbitrary str.isspace / \\d classes satisfying three stated "
                   "hypotheses (proved for the running CPython's tables): tokenise(detokenise(t)) = canon t (gaps become "
                   "'*', job zero padded, selectors kept only on request and down to the lowest token); valid tokens always "
                   "format; a canonical string parses and formats back to itself; Tokens.task of the parsed full id equals "
                   "the parse of the relative id; legacy task.cycle and cycle/task ids (any valid cycle, incl. one character) are recognised, "
                   "upgraded to //cycle/task[:sel] and the new id parses to the same tokens. The parsers are compared with "
                   "the real tokenise / legacy_tokenise / upgrade_legacy_ids / detokenise inside Coq on dense generated "
                   "strings and token sets; the oracle checks the round trips, Tokens.__eq__/__hash__/duplicate and the "
                   "relative/absolute agreement directly on the implementation."),
    "level_note": ("The cycle/task legacy form with a ONE-character cycle ('1/foo') was a finding of this check, fixed in "
                   "/repo 26dc1a0; the full statement is now the theorem c23_legacy_slash_upgrade_full and the witness is a "
                   "corpus regression case. Regex backtracking "
                   "is not modelled generically: Model/Id.v is a hand transcription validated per pattern by correspondence "
                   "(thorough: every string of length <= 6 over {a 1 / : ~ .}). 'Canonical string' is defined as the image "
                   "of detokenise on valid tokens. Jobs that int() accepts but that are not ASCII digit strings ('+4', "
                   "unicode digits) are outside the model (oracle only). Observed: the cycle class admits ':' through "
                   "backtracking ('//1:a:b' -> cycle '1:a'), such tokens do not round-trip without selectors; id_cli.cli_tokenise "
                   "exists because of this."),
    "technique": "Coq proof (parser/printer round trip by structural lemmas on span/app) + in-Coq differential correspondence + direct round-trip oracle",
    "design_ref": "5/C23",
}
