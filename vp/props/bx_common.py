"""Shared helpers for C11/C12 (not a property module): boolean expressions as
JSON trees  ["v", n] | ["and", l, r] | ["or", l, r]  over numbered outputs,
their Python text, their Gallina term (Model/BExpr.v) and a reference
evaluator that is independent of both cylc and the Gallina model."""
from vp import coqfmt as q

# completion variables / graph triggers / task messages of the numbered outputs
STD_TRIG = ["expired", "submitted", "submit-failed", "started", "succeeded", "failed"]
EXPIRED, SUBMITTED, SUBMIT_FAILED, STARTED, SUCCEEDED, FAILED = range(6)
CUSTOM_TRIG = ["x", "y-z", "w", "u"]          # ids 6, 7, 8, 9
UNREG = {20: "foo", 21: "finished", 22: "succeed", 23: "fail"}   # never registered as outputs


def trig(i):
    if i < 6:
        return STD_TRIG[i]
    if i in UNREG:
        return UNREG[i]
    return CUSTOM_TRIG[i - 6]


def compvar(i):
    return trig(i).replace("-", "_")


def msg(i):
    return trig(i) if i < 6 else f"msg {trig(i)}"


def to_py(e, rng=None):
    """Python text; with rng: random redundant brackets / spacing."""
    def wrap(s):
        if rng is not None and rng.random() < 0.15:
            return "(" + s + ")"
        return s

    def go(e):
        if e[0] == "v":
            return wrap(compvar(e[1]))
        l, r = go(e[1]), go(e[2])
        if e[0] == "and":
            # `and` binds tighter than `or`: bracket `or` operands
            if e[1][0] == "or":
                l = "(" + l + ")"
            if e[2][0] == "or":
                r = "(" + r + ")"
            return wrap(l + " and " + r)
        return wrap(l + " or " + r)
    return go(e)


def to_coq(e):
    if e[0] == "v":
        return f"(BVar {q.cnat(e[1])})"
    return f"({'BAnd' if e[0] == 'and' else 'BOr'} {to_coq(e[1])} {to_coq(e[2])})"


def bvars(e):
    if e[0] == "v":
        return [e[1]]
    return bvars(e[1]) + bvars(e[2])


def size(e):
    return 1 if e[0] == "v" else 1 + size(e[1]) + size(e[2])


class NameErr(Exception):
    pass


def ev(e, env):
    """Reference evaluation with Python's short-circuit order; env: id -> bool,
    missing id -> NameErr."""
    if e[0] == "v":
        if e[1] not in env:
            raise NameErr(e[1])
        return env[e[1]]
    a = ev(e[1], env)
    if e[0] == "and":
        return ev(e[2], env) if a else False
    return True if a else ev(e[2], env)


def ev_opt(e, env):
    try:
        return ev(e, env)
    except NameErr:
        return None


def subsets(l):
    """Same enumeration order as BExpr.subsets."""
    if not l:
        return [[]]
    s = subsets(l[1:])
    return s + [[l[0]] + t for t in s]


def rand_expr(rng, atoms, leaves):
    if leaves <= 1:
        return ["v", rng.choice(atoms)]
    k = rng.randint(1, leaves - 1)
    return [rng.choice(["and", "or"]), rand_expr(rng, atoms, k), rand_expr(rng, atoms, leaves - k)]


def all_exprs(atoms, leaves, _memo={}):
    """All expression trees with exactly `leaves` leaves over atoms."""
    key = (tuple(atoms), leaves)
    if key in _memo:
        return _memo[key]
    if leaves == 1:
        out = [["v", a] for a in atoms]
    else:
        out = []
        for k in range(1, leaves):
            for l in all_exprs(atoms, k):
                for r in all_exprs(atoms, leaves - k):
                    out.append(["and", l, r])
                    out.append(["or", l, r])
    _memo[key] = out
    return out


def sub_exprs(e):
    """Strictly smaller variants (for shrinking)."""
    if e[0] != "v":
        yield e[1]
        yield e[2]
        for s in sub_exprs(e[1]):
            yield [e[0], s, e[2]]
        for s in sub_exprs(e[2]):
            yield [e[0], e[1], s]


def cflag(f):
    return "None" if f is None else ("(Some true)" if f else "(Some false)")


def coq_tdef(std, custom):
    items = [q.cpair(q.cnat(i), cflag(f)) for i, f in enumerate(std)]
    items += [q.cpair(q.cnat(6 + j), cflag(f)) for j, f in enumerate(custom)]
    return q.clist(items)


def build_tdef(std, custom, user_text=None):
    """The real TaskDef (import cylc lazily: only valid in the impl subprocess)."""
    from cylc.flow.taskdef import TaskDef
    rt = {}
    if user_text is not None:
        rt["completion"] = user_text
    t = TaskDef("a", rt, None, None)
    for i, f in enumerate(std):
        if f is not None:
            t.set_required_output(STD_TRIG[i], f)
    for j, f in enumerate(custom):
        t.add_output(trig(6 + j), msg(6 + j))
        if f is not None:
            t.set_required_output(trig(6 + j), f)
    return t
