"""C02 — no task runs twice in a flow; retry bound (N+1)*(M+1); failed /
submit-failed output only when no retry remains (task level)."""
from vp.props.taskmsg_common import (TaskMsgStream, steps, op_msg, lined_up, exhausted)
from vp.props import c09 as _c09

GEN = ["taskmsg_tables"]
TRUSTED = list(_c09.TRUSTED)
ASSUMES = [
    "task level only: spawning paths / DB history (no_respawn_in_flow, no_duplicate_proxy) are scheduler-level and "
    "checked by the scenario streams",
    "bound theorem: job preparation only for waiting/preparing tasks; 'expired' only for waiting tasks; a polled/"
    "internal 'submission failed' is not delivered once the job has started (env_c02) - its violation by a failed "
    "submit-command result after 'started' is the known finding",
    "retry delays are not changed by broadcast between submissions",
]


class C02Stream(TaskMsgStream):
    def clauses(self, c, r):
        v = []
        sts = steps(c, r)
        env = True
        for i, (b, op, a) in enumerate(sts):
            new = set(a["outs"]) - set(b["outs"])
            spawned = {e[1] for e in a["eff"] if e[0] == "spawn"}
            if "failed" in new | spawned and not exhausted(b["exec"]):
                v.append(("failed-with-retry-left", f"step {i} {op}: failed output/children with timer {b['exec']}"))
            if "submit-failed" in new | spawned and not exhausted(b["sub"]):
                v.append(("submit-failed-with-retry-left",
                          f"step {i} {op}: submit-failed output/children with timer {b['sub']}"))
            for e in a["eff"]:
                if e[0] != "retry":
                    continue
                key = "exec" if e[1] == "exec" else "sub"
                if (b[key] is None or a[key] is None or a[key][1] != b[key][1] + 1 or a[key][1] > a[key][0]
                        or a["st"] != "waiting"):
                    v.append(("bad-retry", f"step {i} {op}: retry {e[1]} with timer {b[key]} -> {a[key]}, status {a['st']}"))
                if key == "sub" and op[0] == "subres" and b["st"] in ("running", "failed", "succeeded"):
                    v.append(("submit-fail-after-start",
                              f"step {i}: submission retry (resubmission) scheduled by a failed submit-command "
                              f"result although the job had started (status {b['st']})"))
            if op[0] == "prep" and a["sn"] != b["sn"]:
                if b["st"] != "waiting" or (b["sn"] > 0 and not lined_up(b)):
                    v.append(("resubmitted-without-retry", f"step {i}: new submission {a['sn']} from {b['st']} "
                              f"with timers {b['exec']}/{b['sub']}"))
                if a["exec"] != [c["n"], 0 if b["exec"] is None else b["exec"][1]] or \
                        a["sub"] != [c["m"], 0 if b["sub"] is None else b["sub"][1]]:
                    v.append(("timer-setup", f"step {i}: timers after preparation {a['exec']}/{a['sub']}"))
            kind, flag, stale = op_msg(op, b)
            if kind == ("std", "expired") and b["st"] != "waiting":
                env = False
            if kind == ("subfail",) and flag != "received" and b["st"] in ("running", "failed", "succeeded"):
                env = False
        if env and sts and sts[-1][2]["sn"] > (c["n"] + 1) * (c["m"] + 1):
            v.append(("submit-bound", f"{sts[-1][2]['sn']} submissions > ({c['n']}+1)*({c['m']}+1)"))
        return v


STREAMS = [C02Stream()]

# scheduler-level stream (pool automaton Model/Pool.v + real scheduler runs with retries, failures,
# submit failures, duplicated / re-ordered messages); added by the framework owner
from vp.sched.stream import SchedStream  # noqa: E402
STREAMS.append(SchedStream('C02', name="sched-retry", feat={'retries': True, 'abs': True}, n_quick=24, n_thorough=500))

META = {
    "level_text": (
        "Coq theorems over Model/TaskMsg.v: for a task with N execution and M submission retry delays and any op sequence "
        "from the fresh task that satisfies the environment hypothesis, the submit number never exceeds (N+1)*(M+1) "
        "(potential argument on (exec.num, submit.num), all lengths); a new submission happens only from waiting; the "
        "failed / submit-failed output is completed and its children are spawned only in a step in which the corresponding "
        "timer had no retry left; a retry effect increments exactly that timer. Without the hypothesis the bound is refuted "
        "in Coq by the failed-submit-result-after-started witness (known finding). Spawning/history clauses of C02 are "
        "scheduler level (other streams). Model tied to the code by per-step differential runs."),
    "level_note": _c09.META["level_note"],
    "technique": "Coq proof (potential function invariant over op sequences) + in-Coq differential correspondence + trace oracle",
    "design_ref": "5/C02",
}
