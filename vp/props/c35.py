"""C35 — runtime inheritance follows C3 linearization (cylc/flow/c3mro.py)."""
import itertools
from vp.core import Stream
from vp import coqfmt as q

TRUSTED = ["hand model Model/C3.v of c3mro.C3.merge/mro (names numbered by the harness)",
           "CPython type() MRO used as an independent oracle"]
ASSUMES = ["namespace names are non-empty strings (truthy), hierarchy is acyclic"]


def _dag(rng, n, maxp):
    """random DAG: node i may inherit only from nodes > i (so it is acyclic);
    parent order is random; node n-1 is 'root'."""
    tree = {}
    for i in range(n):
        pool = list(range(i + 1, n))
        k = rng.randint(0, min(maxp, len(pool)))
        tree[i] = rng.sample(pool, k)
    return tree


class C3Stream(Stream):
    name = "c3"
    coq_import = "From Cylc Require Import Model.C3."
    check_fn = "C3.check_case"
    show_fn = "C3.model_out"
    rule = ("random inheritance DAGs (node i inherits from a random ordered subset of nodes > i), "
            "every node queried; non-trivial = some node has >= 2 parents; thorough adds all DAGs with <= 4 nodes")
    n_hashseeds = 2

    def gen(self, rng, tier):
        cases = []
        n_rand = 150 if tier == "quick" else 3000
        for _ in range(n_rand):
            n = rng.randint(1, 8)
            tree = _dag(rng, n, 3)
            cases.append({"tree": {str(k): v for k, v in tree.items()}, "node": rng.randrange(n)})
        if tier == "thorough":
            # exhaustive: all DAGs on 4 nodes with ordered parent lists
            n = 4
            opts = []
            for i in range(n):
                pool = list(range(i + 1, n))
                o = []
                for k in range(len(pool) + 1):
                    o.extend(list(p) for p in itertools.permutations(pool, k))
                opts.append(o)
            for combo in itertools.product(*opts):
                cases.append({"tree": {str(i): combo[i] for i in range(n)}, "node": 0, "kind": "exhaustive4"})
        return cases

    def impl(self, cases):
        from cylc.flow.c3mro import C3
        out = []
        for c in cases:
            tree = {f"n{k}": [f"n{p}" for p in v] for k, v in c["tree"].items()}
            # independent oracle: CPython's own MRO for the equivalent class hierarchy
            py = None
            try:
                classes = {}
                reach, todo = set(), [c["node"]]
                while todo:
                    x = todo.pop()
                    if x not in reach:
                        reach.add(x)
                        todo.extend(c["tree"][str(x)])
                for k in sorted((str(x) for x in reach), key=int, reverse=True):
                    bases = tuple(classes[f"n{p}"] for p in c["tree"][k])
                    classes[f"n{k}"] = type(f"n{k}", bases, {})
                py = [cl.__name__ for cl in classes[f"n{c['node']}"].__mro__ if cl is not object]
            except TypeError:
                py = None
            try:
                snapshot = {k: list(v) for k, v in tree.items()}
                r = C3(tree).mro(f"n{c['node']}")
                res = {"mro": [int(x[1:]) for x in r], "tree_unchanged": tree == snapshot}
            except Exception as e:  # noqa
                if "bad runtime namespace inheritance hierarchy" in str(e):
                    res = {"mro": None}
                else:
                    res = {"exc": f"{type(e).__name__}: {e}"}
            res["py"] = None if py is None else [int(x[1:]) for x in py]
            # python's MRO for a *class being created* fails if any ancestor class
            # cannot be created; record which happened
            out.append(res)
        return out

    def coq_case(self, c, r):
        if "exc" in r:
            return None
        tree = q.clist(q.cpair(q.cnat(int(k)), q.clist(q.cnat(p) for p in v))
                       for k, v in sorted(c["tree"].items(), key=lambda kv: int(kv[0])))
        impl = q.copt(r["mro"], lambda l: q.clist(q.cnat(x) for x in l))
        return q.crecord(c_tree=tree, c_node=q.cnat(c["node"]), c_impl=impl)

    def oracle(self, c, r):
        if "exc" in r:
            return "unexpected exception: " + r["exc"]
        if r["mro"] != r["py"]:
            return f"C3.mro={r['mro']} but CPython MRO={r['py']}"
        if r["mro"] is not None and not r.get("tree_unchanged", True):
            return "C3.mro mutated the inheritance tree"
        return None

    def key(self, c, r):
        if max((len(v) for v in c["tree"].values()), default=0) < 2:
            return None
        return super().key(c, r)

    def shrink(self, c):
        tree = c["tree"]
        for k in list(tree):
            if int(k) != c["node"]:
                t2 = {a: [p for p in b if p != int(k)] for a, b in tree.items() if a != k}
                yield {"tree": t2, "node": c["node"]}
        for k, v in tree.items():
            for p in v:
                t2 = dict(tree); t2[k] = [x for x in v if x != p]
                yield {"tree": t2, "node": c["node"]}


STREAMS = [C3Stream()]

META = {
    "level_text": ("Coq theorems over Model/C3.v for all hierarchies and fuel: merge terminates within the fuel mro gives it; "
                   "an accepted result is a duplicate-free linear extension of the parents' linearizations and the local parent order "
                   "and contains nothing else; rejection happens only when no consistent order exists and never when one exists. "
                   "The model is tied to c3mro.py by differential runs (every node of random DAGs; all 4-node DAGs in thorough), "
                   "and the implementation is also compared with CPython's own MRO."),
    "level_note": ("Model/C3.v is a hand model (names numbered); trusted: Coq kernel+VM, the harness; "
                   "uniqueness of 'the' C3 order is carried by model=implementation=CPython agreement, not by a theorem."),
    "technique": "Coq proof (induction over merge fuel) + in-Coq differential correspondence + CPython MRO oracle",
    "design_ref": "5/C35",
}
