"""C42 — the subprocess pool runs every command once, within its bounds
(cylc/flow/subprocpool.py).

Component level: the real SubProcPool with real short processes (`true`,
`false`, a long `sleep` ended only by a forced timeout or by terminate(), a
non-existent binary) interleaved with set_stopping/close/terminate; callbacks
are counted per command.
"""
from vp.core import Stream
from vp import coqfmt as q

TRUSTED = [
    "hand model Model/SubProc.v of SubProcPool.put_command/process/set_stopping/close/terminate "
    "(which running commands have exited when process() polls them is taken from the real run)",
    "the OS: fork/exec, SIGKILL delivery, waitpid",
]
ASSUMES = [
    "commands are put with distinct contexts (one id each)",
    "callback_255 handling is outside this property (exactly one of callback/callback_255 runs; not exercised)",
]

SIG_DROPPED = "subproc:queued-command-dropped-without-callback"
SIG_TERM_RUNNING = "subproc:running-at-terminate-never-reaped-no-callback"

CMDS = {
    "true": ["true"],
    "false": ["false"],
    "sleep": ["sleep", "30"],
    "bad": ["/nonexistent/vp-c42-no-such-command"],
}


def _scenario(rng, want):
    size = rng.randint(1, 3)
    ev, ids = [], []
    n = rng.randint(5, 12)
    stopped = False
    for _ in range(n):
        x = rng.random()
        if x < 0.45 or not ids:
            typ = rng.choices(["true", "false", "sleep", "bad"], [35, 15, 35, 15])[0]
            ev.append(["put", len(ids), typ, int(rng.random() < 0.5)])
            ids.append(typ)
        elif x < 0.72:
            ev.append(["proc"])
        elif x < 0.84:
            i = rng.randrange(len(ids))
            ev.append(["timeout" if ids[i] == "sleep" else "wait", i])
        elif want != "plain" and x < 0.93:
            ev.append(["stop"] if rng.random() < 0.6 else ["close"])
            stopped = True
        elif want == "terminate" and x < 0.97 and stopped:
            break
        else:
            ev.append(["proc"])
    if want == "stopping" and not stopped:
        ev.insert(rng.randint(len(ev) // 2, len(ev)), ["stop"])
    if want == "terminate":
        ev.append(["term"])
    return {"size": size, "events": ev, "kind": want}


class SubProcStream(Stream):
    name = "subproc"
    coq_import = "From Cylc Require Import Model.SubProc."
    check_fn = "SubProc.check_case"
    show_fn = "SubProc.model_out"
    rule = ("random scenarios on a real SubProcPool (size 1-3): 3-8 commands of kinds true/false/long sleep/"
            "non-existent binary, half of them `jobs-submit`, interleaved with process(), forced timeouts, waits, "
            "set_stopping/close, optionally ending in terminate(); pools not terminated are drained at the end; "
            "non-trivial = at least one command was queued behind a full pool or a stop request was made")
    n_hashseeds = 8
    shard_size = 200
    impl_timeout = 900
    needs_scratch_home = True

    def corpus(self):
        return [
            # regression case (finding fixed in 2237225): queued jobs-submit taken off the queue by
            # process() while stopping must get its callback (ret_code 999)
            {"size": 1, "kind": "stopping", "events": [
                ["put", 0, "sleep", 1], ["put", 1, "true", 1], ["proc"], ["stop"], ["timeout", 0], ["proc"], ["proc"]]},
            # regression case (same fix): every queued command drained by terminate() gets its callback
            {"size": 1, "kind": "terminate", "events": [
                ["put", 0, "sleep", 0], ["put", 1, "true", 0], ["proc"], ["term"]]},
            # put after close / after set_stopping gets its callback at once (999)
            {"size": 2, "kind": "stopping", "events": [
                ["put", 0, "true", 0], ["stop"], ["put", 1, "true", 1], ["put", 2, "true", 0], ["close"],
                ["put", 3, "false", 0], ["proc"]]},
            # bound + OSError path
            {"size": 2, "kind": "plain", "events": [
                ["put", 0, "sleep", 0], ["put", 1, "bad", 0], ["put", 2, "sleep", 1], ["put", 3, "true", 0],
                ["put", 4, "false", 1], ["proc"], ["timeout", 0], ["proc"], ["wait", 3], ["proc"]]},
        ]

    def gen(self, rng, tier):
        n = 36 if tier == "quick" else 700
        out = []
        for i in range(n):
            want = ["plain", "stopping", "stopping", "terminate"][i % 4]
            out.append(_scenario(rng, want))
        return out

    # ------------------------------------------------------------ driver
    def impl(self, cases):
        import logging
        import time
        from cylc.flow import LOG
        from cylc.flow.subprocpool import SubProcPool
        from cylc.flow.subprocctx import SubProcContext
        LOG.setLevel(logging.CRITICAL + 1)

        out = []
        for c in cases:
            try:
                out.append(self._run_one(c, SubProcPool, SubProcContext, time))
            except Exception as e:  # noqa
                out.append({"exc": f"{type(e).__name__}: {e}"})
        return out

    @staticmethod
    def _run_one(c, SubProcPool, SubProcContext, time):
        pool = SubProcPool()
        pool.size = c["size"]
        pool.proc_pool_timeout = 60.0
        ctxs = {}
        cb_log = []          # (id, ret_code) in call order
        reported_999 = set()

        def cb(ctx, i):
            cb_log.append((i, ctx.ret_code))

        def ident(entry_ctx):
            for i, x in ctxs.items():
                if x is entry_ctx:
                    return i
            return -1

        def observe(n_cb_before):
            cbs = [[i, rc == 999] for i, rc in cb_log[n_cb_before:]]
            called = {i for i, _ in cb_log}
            dropped = []
            for i, x in ctxs.items():
                if x.ret_code == 999 and i not in called and i not in reported_999:
                    dropped.append(i)
                    reported_999.add(i)
            return {"cbs": cbs, "dropped": dropped,
                    "running": [ident(e[1]) for e in pool.runnings],
                    "queue": [ident(e[0]) for e in pool.queuings],
                    "stopping": bool(pool.stopping), "closed": bool(pool.closed)}

        trace = []
        terminated = False

        def do(ev):
            n0 = len(cb_log)
            running_before = [ident(e[1]) for e in pool.runnings]
            stopping_before = bool(pool.stopping)
            k = ev[0]
            if k == "put":
                ctx = SubProcContext("jobs-submit" if ev[3] else "other", list(CMDS[ev[2]]))
                ctxs[ev[1]] = ctx
                pool.put_command(ctx, callback=cb, callback_args=[ev[1]])
            elif k == "proc":
                pool.process()
            elif k == "stop":
                pool.set_stopping()
            elif k == "close":
                pool.close()
            elif k == "term":
                pool.terminate()
            ob = observe(n0)
            ob["ev"] = ev
            ob["running_before"] = running_before
            ob["stopping_before"] = stopping_before
            ob["done"] = [i for i, _ in ob["cbs"] if i in running_before]
            trace.append(ob)

        for ev in c["events"]:
            k = ev[0]
            if k in ("wait", "timeout"):
                for e in pool.runnings:
                    if ident(e[1]) == ev[1]:
                        if k == "timeout":
                            e[1].timeout = 0.0
                        else:
                            t_end = time.time() + 20
                            while e[0].poll() is None and time.time() < t_end:
                                time.sleep(0.005)
                continue
            do(ev)
            if k == "term":
                terminated = True
        left_running = []
        if not terminated:
            # drain: end the long sleeps by timeout, let the rest finish
            t_end = time.time() + 30
            while pool.is_not_done() and time.time() < t_end:
                for e in pool.runnings:
                    if e[1].cmd[0] == "sleep":
                        e[1].timeout = 0.0
                do(["proc"])
                if pool.is_not_done():
                    time.sleep(0.01)
        else:
            left_running = [ident(e[1]) for e in pool.runnings]
            # (the scheduler calls nothing after terminate(); reap our children ourselves)
            for e in pool.runnings:
                try:
                    e[0].wait(timeout=10)
                    for f in (e[0].stdout, e[0].stderr):
                        if f:
                            f.close()
                except Exception:  # noqa
                    pass
        count = {}
        for i, _ in cb_log:
            count[i] = count.get(i, 0) + 1
        return {
            "trace": trace,
            "final": {str(i): {"n_cb": count.get(i, 0), "ret": x.ret_code,
                               "err": (x.err or "")[:60]} for i, x in ctxs.items()},
            "left_running": left_running,
            "left_queue": [ident(e[0]) for e in pool.queuings],
            "not_done": bool(pool.is_not_done()) and not terminated,
        }

    # ------------------------------------------------------------ Coq case
    def coq_case(self, c, r):
        if "exc" in r:
            return None
        puts = {e[1]: e for e in c["events"] if e[0] == "put"}

        def cmd(i):
            e = puts[i]
            return "{| c_id := %s; c_submit := %s; c_bad := %s |}" % (
                q.cnat(i), q.cbool(e[3]), q.cbool(e[2] == "bad"))
        items = []
        for ob in r["trace"]:
            ev = ob["ev"]
            k = ev[0]
            done = q.clist(q.cnat(i) for i in ob["done"])
            if k == "put":
                e = f"(EPut {cmd(ev[1])})"
            elif k == "proc":
                e = f"(EProcess {done})"
            elif k == "stop":
                e = "ESetStopping"
            elif k == "close":
                e = "EClose"
            else:
                e = f"(ETerminate {done})"
            obs = q.crecord(
                ob_callbacks=q.clist(q.cpair(q.cnat(i), q.cbool(b)) for i, b in ob["cbs"]),
                ob_dropped=q.clist(q.cnat(i) for i in ob["dropped"]),
                ob_running=q.clist(q.cnat(i) for i in ob["running"]),
                ob_queue=q.clist(q.cnat(i) for i in ob["queue"]),
                ob_stopping=q.cbool(ob["stopping"]), ob_closed=q.cbool(ob["closed"]))
            items.append(q.cpair(e, obs))
        return q.crecord(c_size=q.cnat(c["size"]), c_trace=q.clist(items))

    # ------------------------------------------------------------ oracle
    def oracle(self, c, r):
        if "exc" in r:
            return "unexpected exception: " + r["exc"]
        puts = {e[1]: e for e in c["events"] if e[0] == "put"}
        fin = r["final"]
        # 1. never more than one callback
        for i, f in fin.items():
            if f["n_cb"] > 1:
                return f"multiple-callbacks: command {i} got {f['n_cb']} callbacks"
        # 2. the bound, 3. no jobs-submit started once stopping
        for ob in r["trace"]:
            if len(ob["running"]) > c["size"]:
                return f"bound: {len(ob['running'])} commands running with pool size {c['size']}"
            if len(set(ob["running"])) != len(ob["running"]):
                return "bound: a command is in the running list twice"
            if ob["stopping_before"]:
                for i in ob["running"]:
                    if i not in ob["running_before"] and puts[i][3]:
                        return f"submit-started-while-stopping: jobs-submit command {i} launched after the stop request"
        # 4. results make sense
        for i, f in fin.items():
            typ = puts[int(i)][2]
            if f["n_cb"] == 1 and f["ret"] != 999:
                if typ == "true" and f["ret"] not in (0, -9):
                    return f"result: `true` finished with {f['ret']}"
                if typ == "false" and f["ret"] not in (1, -9):
                    return f"result: `false` finished with {f['ret']}"
                if typ == "bad" and not (f["ret"] == 1 and "No such file" in f["err"]):
                    return f"result: non-existent command finished with {f['ret']} {f['err']!r}"
                if typ == "sleep" and f["ret"] != -9:
                    return f"result: long sleep finished with {f['ret']} (expected kill on timeout)"
        if r.get("not_done"):
            return "not-drained: pool still has work after the drain deadline"
        # 5. exactly one callback
        missing = [int(i) for i, f in fin.items() if f["n_cb"] == 0]
        if missing:
            dropped = {i for ob in r["trace"] for i in ob["dropped"]}
            other = [i for i in missing if i not in dropped and i not in r["left_running"]]
            if other:
                return f"no-callback: commands {other} never got a callback"
            d = [i for i in missing if i in dropped]
            if d:
                where = [ob["ev"][0] for ob in r["trace"] if set(ob["dropped"]) & set(d)]
                return (f"dropped-no-callback: queued commands {d} were taken off the queue with ret_code 999 "
                        f"and no callback (in {sorted(set(where))})")
            return (f"term-running-no-callback: commands {missing} were running at terminate(), were killed, "
                    f"but process() did not see them exit: no callback")
        return None

    def classify(self, c, r, failure):
        if failure.startswith("dropped-no-callback"):
            # narrow: only the two known places, and in process() only jobs-submit while stopping
            puts = {e[1]: e for e in c["events"] if e[0] == "put"}
            for ob in r["trace"]:
                for i in ob["dropped"]:
                    if ob["ev"][0] == "term":
                        continue
                    if ob["ev"][0] == "proc" and ob["stopping_before"] and puts[i][3]:
                        continue
                    return "subproc:dropped-elsewhere"
            return SIG_DROPPED
        if failure.startswith("term-running-no-callback"):
            return SIG_TERM_RUNNING
        return "subproc:" + failure.split(":")[0]

    def key(self, c, r):
        if not isinstance(r, dict) or "trace" not in r:
            return None
        if not any(ob["queue"] for ob in r["trace"]) and not any(ob["stopping"] for ob in r["trace"]):
            return None
        return super().key(c, r)

    def shrink(self, c):
        ev = c["events"]
        for i in range(len(ev)):
            if ev[i][0] == "put":
                continue
            yield {**c, "events": ev[:i] + ev[i + 1:]}
        # drop the last put (ids stay dense) and events naming it
        puts = [e for e in ev if e[0] == "put"]
        if len(puts) > 1:
            last = puts[-1][1]
            yield {**c, "events": [e for e in ev if not (len(e) > 1 and e[0] in ("put", "wait", "timeout") and e[1] == last)]}


STREAMS = [SubProcStream()]

META = {
    "level_text": (
        "Coq theorems over Model/SubProc.v for every event history (put/process with any set of exited commands/"
        "set_stopping/close/terminate): the running list never exceeds the pool size; no jobs-submit command is "
        "launched once stopping (and stopping never resets); conservation — the commands put so far are exactly "
        "(queue + running + called back + dropped), so with distinct commands nobody gets two callbacks and, when the "
        "pool is done (nothing queued or running), every command got exactly one callback (c42_one_callback, for the code "
        "after fix 2237225 which passes the callbacks when process()/terminate() take a command off the queue while "
        "stopping; the refutations for the pre-fix variant are kept, labelled as such, and their witnesses are regression "
        "cases). Still open: commands RUNNING at terminate() are killed but usually not seen to exit, so they get no "
        "callback (known finding; outside the theorem by its running=[] hypothesis). The model is tied to the real "
        "SubProcPool by differential scenarios with real processes, compared in Coq."),
    "level_note": (
        "Hand model; which processes have exited when polled is environment input taken from the real run; "
        "callback_255 not modelled; concurrency = length of the pool's runnings list (not an OS-level process count). "
        "Trusted: Coq kernel+VM, harness, OS."),
    "technique": "Coq proof (invariant + conservation by induction over event histories) + in-Coq differential correspondence with real processes + callback-count oracle",
    "design_ref": "5/C42",
}
