"""C19 — stop + restart: pool automaton restart events + real stop/restart of the scheduler, and an
uninterrupted run of the same scenario for comparison."""
from vp.sched.stream import SchedStream
from vp.props.c01 import TRUSTED, ASSUMES  # noqa

STREAMS = [SchedStream("C19", name="sched-restart", feat={"restart": True, "hold": True, "abs": True},
                       n_quick=24, n_thorough=500, extra_oracles=["C06"]),
           # restarts only (no other commands): here the continued run is compared with the uninterrupted one
           SchedStream("C19", name="sched-restart-only", feat={"restart": True, "abs": True},
                       n_quick=20, n_thorough=500),
           # broadcasts set / cancelled (several per database flush) before and between restarts
           SchedStream("C19", name="sched-restart-bcast", feat={"restart": True, "bcast": True, "abs": True},
                       n_quick=24, n_thorough=500)]
META = {
    "level_text": ("Coq theorems: what a restart must give back for each pooled task ([restored]: same flows, held flag, satisfied "
                   "prerequisites, outputs; preparing -> waiting under the same submit number); an accepted restart "
                   "(ERestart; ERestore*; ERestartDone) leaves exactly the old pool task by task, nothing lost or added "
                   "(c19_restart_roundtrip, proved for any number of tasks); hold set, hold point, stop point, stop task and history are "
                   "carried over; the reachable-state invariant holds across restarts. Tie: real stop (now / now-now / clean) + restart at "
                   "generated main-loop iterations, repeated restarts; every reloaded task and the post-restart pool, hold set, hold point "
                   "and stop state must be accepted by the automaton. The oracle also runs the same scenario uninterrupted and compares the "
                   "set of submitted instances and every instance's final outputs (this 'same future' half is not a theorem: partial)."),
    "level_note": TRUSTED[0] + " World assumption: a poll result never overtakes a job message already in the scheduler's queue; "
                  "messages the stopped scheduler never processed are re-sent by the jobs after the restart, in order.",
    "technique": "Coq proof of the restart round trip on the pool automaton + in-Coq validation of real stop/restart traces + uninterrupted-run comparison",
    "design_ref": "5/C19",
}
