"""C12 — required/optional output classification matches the expression; validation
table; skip-mode outputs (task_outputs.py, config.py, run_modes/skip.py)."""
import itertools
import json

from vp.core import Stream
from vp import coqfmt as q
from vp.props import bx_common as bx

TRUSTED = [
    "hand model Model/OptOutputs.v of get_optional_outputs / iter_required_messages / the consistency loop of "
    "_check_completion_expression / skip.process_outputs (outputs numbered by the harness)",
    "Model/BExpr.v evalo = CPython's short-circuit evaluation incl. NameError on unbound names (validated per case)",
    "harness: expressions are printed to Python text by vp/props/bx_common.to_py; string-level pre-checks of "
    "_check_completion_expression (hyphens, 'finished', alternative qualifiers) are only spot-checked by the oracle",
]
ASSUMES = [
    "distinct outputs have distinct completion variables",
    "custom output messages differ from the standard output names",
    "skip-mode: [skip]outputs does not contain both succeeded and failed (enforced by check_task_skip_config)",
]

FLAGS = [None, True, False]
NAME2ID = {}
for _i in list(range(10)) + list(bx.UNREG):
    NAME2ID[bx.compvar(_i)] = _i
MSG2ID = {bx.msg(i): i for i in range(10)}
PRE = (bx.EXPIRED, bx.SUBMIT_FAILED)


def _cls_coq(v):
    return "Unref" if v is None else f"(Opt {q.cbool(v)})"


def brute_required(fn, atoms, o, disable=None):
    """`o` is necessary: fn is false for EVERY assignment in which o is absent
    (expired / submit-failed / the disabled output absent too)."""
    free = [a for a in atoms if a != o and a not in PRE and a != disable]
    for s in bx.subsets(free):
        if fn(set(s)):
            return False
    return True


def _expr_fn(e, atoms):
    return lambda s: bx.ev(e, {a: (a in s) for a in atoms})


# ---------------------------------------------------------------- classify
class ClassifyStream(Stream):
    name = "classify"
    coq_import = "From Cylc Require Import Model.BExpr Model.Completion Model.OptOutputs."
    check_fn = "OptOutputs.check_case"
    show_fn = "OptOutputs.model_out"
    rule = ("real get_optional_outputs + TaskOutputs.iter_required_messages on boolean expressions over "
            "succeeded/failed/expired/submit_failed/two custom outputs, disable in {None, succeeded, failed}; thorough = "
            "every expression with <= 3 leaves (5 nodes) x 3 disable values plus random ones up to 7 leaves and random "
            "output sets / unregistered names; non-trivial = >= 2 distinct names")
    shard_size = 500
    n_hashseeds = 6

    def corpus(self):
        full = list(range(8))
        return [
            # the four doctests of get_optional_outputs
            {"expr": ["or", ["and", ["v", 4], ["or", ["v", 6], ["v", 7]]], ["v", 5]], "outs": [4, 6, 7, 5, 0], "disable": None},
            {"expr": ["or", ["and", ["and", ["v", 4], ["v", 6]], ["v", 7]], ["v", 0]], "outs": [4, 6, 7, 5, 0], "disable": None},
            {"expr": ["or", ["and", ["v", 4], ["v", 6]], ["and", ["v", 5], ["v", 7]]], "outs": [4, 6, 5, 7], "disable": None},
            {"expr": ["or", ["and", ["v", 4], ["v", 6]], ["and", ["v", 5], ["v", 7]]], "outs": [4, 6, 5, 7], "disable": 5},
            {"expr": None, "outs": full, "disable": None, "kind": "blank"},
            {"expr": ["or", ["v", 4], ["and", ["v", 4], ["v", 20]]], "outs": full, "disable": None, "kind": "unregistered"},
            {"expr": ["or", ["v", 4], ["v", 20]], "outs": full, "disable": None, "kind": "unregistered"},
        ]

    def gen(self, rng, tier):
        pool = [4, 5, 0, 2, 6, 7]
        full = list(range(8))
        cases = []
        if tier == "thorough":
            for n in (1, 2, 3):
                for e in bx.all_exprs(pool, n):
                    for d in (None, 4, 5):
                        cases.append({"expr": e, "outs": full, "disable": d, "kind": "exhaustive"})
            n_rand = 4000
        else:
            box = [e for n in (1, 2, 3) for e in bx.all_exprs(pool, n)]
            for e in rng.sample(box, 160):
                cases.append({"expr": e, "outs": full, "disable": rng.choice([None, None, 4, 5]), "kind": "exhaustive"})
            n_rand = 140
        for _ in range(n_rand):
            atoms = rng.choice([pool, list(range(10)), [4, 5, 6, 7, 8], [1, 3, 4, 5, 6, 0, 2]])
            kind = "random"
            outs = sorted(set(full) | set(atoms))
            r = rng.random()
            if r < 0.12:
                atoms = atoms + [20]
                kind = "unregistered"
            elif r < 0.25:
                outs = [o for o in outs if rng.random() < 0.7]
                kind = "partial-outs"
            cases.append({"expr": bx.rand_expr(rng, atoms, rng.randint(2, 7)), "outs": outs,
                          "disable": rng.choice([None, None, 4, 5]), "kind": kind,
                          "style": rng.randrange(1 << 30)})
        return cases

    def impl(self, cases):
        import random
        from cylc.flow.task_outputs import TaskOutputs, get_optional_outputs
        out = []
        for c in cases:
            try:
                text = "" if c["expr"] is None else bx.to_py(
                    c["expr"], random.Random(c["style"]) if "style" in c else None)
                dis = None if c["disable"] is None else bx.trig(c["disable"])
                res = {}
                try:
                    d = get_optional_outputs(text, {bx.trig(i) for i in c["outs"]}, disable=dis)
                    bad = [k for k, v in d.items() if not (v is None or v is True or v is False)]
                    if bad:
                        raise RuntimeError(f"non-bool classification for {bad}")
                    res["cls"] = sorted([NAME2ID[k], v] for k, v in d.items())
                except NameError:
                    res["cls"] = "NameError"
                to = TaskOutputs(text)
                for i in c["outs"]:
                    to.add(bx.trig(i), bx.msg(i))
                try:
                    res["req"] = sorted(MSG2ID[m] for m in to.iter_required_messages(disable=dis))
                except NameError:
                    res["req"] = "NameError"
                out.append(res)
            except Exception as e:  # noqa
                out.append({"exc": f"{type(e).__name__}: {e}"[:300]})
        return out

    def coq_case(self, c, r):
        if "exc" in r:
            return None
        cls = None if r["cls"] == "NameError" else r["cls"]
        req = None if r["req"] == "NameError" else r["req"]
        return q.crecord(
            c_expr=q.copt(c["expr"], bx.to_coq),
            c_outs=q.clist(q.cnat(o) for o in c["outs"]),
            c_disable=q.copt(c["disable"], q.cnat),
            c_impl=q.copt(cls, lambda l: q.clist(q.cpair(q.cnat(k), _cls_coq(v)) for k, v in l)),
            c_impl_req=q.copt(req, lambda l: q.clist(q.cnat(k) for k in l)))

    def oracle(self, c, r):
        if "exc" in r:
            return "unexpected exception: " + r["exc"]
        e, outs = c["expr"], c["outs"]
        used = sorted(set(bx.bvars(e))) if e is not None else []
        valid = all(v in outs or v in PRE for v in used)
        if not valid:
            return None          # property speaks about valid expressions; the model covers the rest
        if r["cls"] == "NameError" or r["req"] == "NameError":
            return "NameError although every name in the expression is an output"
        got = {k: v for k, v in r["cls"]}
        atoms = sorted(set(outs) | set(used))
        fn = _expr_fn(e, atoms) if e is not None else None
        for o in atoms:
            if o not in got:
                return f"output {bx.compvar(o)} missing from the classification"
            if o not in used:
                exp = None
            else:
                exp = not brute_required(fn, atoms, o, c["disable"])
            if got[o] is not exp:
                return (f"{bx.compvar(o)} classified {got[o]} (True=optional, False=required, None=unreferenced) "
                        f"but by exhaustive evaluation it is {exp}")
        exp_req = sorted(o for o in outs if got.get(o) is False)
        if r["req"] != exp_req:
            return f"iter_required_messages gave {r['req']} but the required outputs are {exp_req}"
        return None

    def key(self, c, r):
        if c["expr"] is None or len(set(bx.bvars(c["expr"]))) < 2:
            return None
        return json.dumps([c["expr"], c["outs"], c["disable"]])

    def classify(self, c, r, failure):
        return f"classify:{c.get('kind', 'valid')}:disable={c['disable']}"

    def shrink(self, c):
        if c["expr"] is not None:
            for e in bx.sub_exprs(c["expr"]):
                yield dict(c, expr=e)
        for i, o in enumerate(c["outs"]):
            if c["expr"] is None or o not in bx.bvars(c["expr"]):
                yield dict(c, outs=c["outs"][:i] + c["outs"][i + 1:])


# ---------------------------------------------------------------- validate
def _table_ok(pre, g, e):
    """Consistency table: g/e = True optional, False required, None unset/unreferenced."""
    if g is True and e is False:
        return False
    if g is False and e is None:
        return False
    if g is True and e is None:
        return not pre
    if g is False and e is True:
        return pre
    return True


def _expected_verdict(std, custom, e):
    """Reference decision from the property text: brute-force classification + table."""
    flags = list(std) + list(custom)
    outs = list(range(len(flags)))
    used = sorted(set(bx.bvars(e)))
    if not all(v in outs for v in used):
        return None
    atoms = outs
    fn = _expr_fn(e, atoms)
    g = {o: (None if f is None else (not f)) for o, f in enumerate(flags)}
    if g[bx.SUCCEEDED] is True and g[bx.FAILED] is None:
        g[bx.FAILED] = True
    for o in outs:
        eo = None if o not in used else (not brute_required(fn, atoms, o))
        if not _table_ok(o in PRE, g[o], eo):
            return "RejectInconsistent"
    return "Accept"


def _verdict_of(fn):
    from cylc.flow.exceptions import WorkflowConfigError
    try:
        fn()
        return {"verdict": "Accept"}
    except WorkflowConfigError as e:
        m = str(e)
        return {"verdict": "RejectExpr" if m.startswith("Error in [runtime]") else "RejectInconsistent",
                "msg": m[:200]}
    except KeyError as e:
        return {"verdict": "KeyError", "msg": str(e)}
    except Exception as e:  # noqa
        return {"exc": f"{type(e).__name__}: {e}"[:300]}


class _ValidateBase(Stream):
    coq_import = "From Cylc Require Import Model.BExpr Model.Completion Model.OptOutputs."
    check_fn = "OptOutputs.vcheck_case"
    show_fn = "OptOutputs.vmodel_out"

    def _flags(self, c, r):
        raise NotImplementedError

    def coq_case(self, c, r):
        if "exc" in r or r.get("verdict") in (None, "KeyError"):
            return None
        fl = self._flags(c, r)
        if fl is None:
            return None
        std, custom = fl
        return q.crecord(v_tdef=bx.coq_tdef(std, custom), v_expr=bx.to_coq(c["expr"]),
                         v_impl=r["verdict"])

    def oracle(self, c, r):
        if "exc" in r:
            return "unexpected exception: " + r["exc"]
        fl = self._flags(c, r)
        if fl is None:
            return None
        std, custom = fl
        nreg = 6 + len(custom)
        used = set(bx.bvars(c["expr"]))
        unreg = [v for v in used if v >= nreg]
        if r["verdict"] == "KeyError":
            # crash (not acceptance) while formatting the message for a name that is not an
            # output but was shielded from evaluation by short-circuiting
            return None if unreg else "KeyError from validation of an expression over registered outputs"
        if unreg:
            return "expression naming an unregistered output was accepted" if r["verdict"] == "Accept" else None
        exp = _expected_verdict(std, custom, c["expr"])
        if r["verdict"] != exp:
            return (f"validation said {r['verdict']} ({r.get('msg', '')!r}) but the consistency table "
                    f"over the exhaustive classification says {exp}")
        return None

    def key(self, c, r):
        fl = self._flags(c, r)
        if fl is None or all(f is None for f in fl[0] + fl[1]):
            return None
        return json.dumps([fl, c["expr"]])

    def classify(self, c, r, failure):
        return f"{self.name}:{r.get('verdict', 'exc')}"


class ValidateStream(_ValidateBase):
    name = "validate"
    rule = ("real WorkflowConfig._check_completion_expression called on a stand-in config holding a real TaskDef: "
            "random required/optional/unset flags x expressions, plus for every output kind (pre-execution / other) every "
            "(graph flag, expression class) pair of the 9-row table; non-trivial = some flag set")
    n_hashseeds = 4

    def corpus(self):
        N = None
        return [
            {"std": [N, N, N, N, False, N], "custom": [True, False],
             "expr": ["or", ["and", ["v", 4], ["v", 6]], ["v", 5]]},
            {"std": [N, N, N, N, False, N], "custom": [True, False],
             "expr": ["and", ["or", ["v", 4], ["v", 5]], ["v", 6]]},
            {"std": [False, N, False, N, True, N], "custom": [],
             "expr": ["or", ["v", 4], ["v", 2]]},
            {"std": [N, N, N, N, True, N], "custom": [], "expr": ["or", ["v", 4], ["v", 20]], "kind": "unregistered"},
            {"std": [N, N, N, N, False, N], "custom": [True],
             "expr": ["or", ["or", ["v", 5], ["and", ["v", 5], ["v", 20]]], ["and", ["v", 4], ["v", 6]]],
             "kind": "unregistered-shielded"},
        ]

    def gen(self, rng, tier):
        cases = []
        # table rows: one output under test with each graph flag, in expressions that make it
        # required / optional / unreferenced
        for o in (0, 2, 1, 3, 4, 5, 6):
            for gflag in FLAGS:
                for shape in ("req", "opt", "unref"):
                    std = [None] * 6
                    custom = [None, None]
                    other = 4 if o != 4 else 5
                    if o < 6:
                        std[o] = gflag
                    else:
                        custom[o - 6] = gflag
                    e = {"req": ["and", ["v", o], ["v", other]],
                         "opt": ["or", ["v", o], ["v", other]],
                         "unref": ["v", other]}[shape]
                    cases.append({"std": std, "custom": custom, "expr": e, "kind": "table"})
        n = 180 if tier == "quick" else 8000
        for _ in range(n):
            ncu = rng.randint(0, 2)
            atoms = list(range(6 + ncu))
            kind = "random"
            # realistic flags: mostly unset, success flags and customs set
            std = [rng.choice(FLAGS) if rng.random() < 0.35 else None for _ in range(6)]
            custom = [rng.choice(FLAGS) for _ in range(ncu)]
            if rng.random() < 0.5:
                # start from the default expression's shape so that acceptance is common
                req = [i for i, f in enumerate(std + custom) if f is True]
                e = None
                for i in req:
                    e = ["v", i] if e is None else ["and", e, ["v", i]]
                if std[4] is False or std[5] is False:
                    e = ["or", ["v", 4], ["v", 5]] if e is None else ["and", e, ["or", ["v", 4], ["v", 5]]]
                if e is None:
                    e = ["v", 4]
                for i in (0, 2):
                    if std[i] is False or rng.random() < 0.1:
                        e = ["or", e, ["v", i]]
                for i, f in enumerate(std + custom):
                    if f is False and i not in (0, 2, 4, 5) and rng.random() < 0.8:
                        e = ["and", e, ["or", ["v", i], ["v", rng.choice([4, 5])]]]
                kind = "near-valid"
            else:
                if rng.random() < 0.1:
                    atoms = atoms + [rng.choice([20, 21, 22])]
                    kind = "unregistered"
                e = bx.rand_expr(rng, atoms, rng.randint(1, 6))
            cases.append({"std": std, "custom": custom, "expr": e, "kind": kind})
        return cases

    def impl(self, cases):
        from types import SimpleNamespace
        import cylc.flow.flags
        from cylc.flow.config import WorkflowConfig
        cylc.flow.flags.cylc7_back_compat = False
        out = []
        for c in cases:
            try:
                tdef = bx.build_tdef(c["std"], c["custom"])
                fake = SimpleNamespace(taskdefs={"a": tdef},
                                       experimental=SimpleNamespace(expire_triggers=False))
                text = bx.to_py(c["expr"])
                out.append(_verdict_of(
                    lambda: WorkflowConfig._check_completion_expression(fake, "a", text, False)))
            except Exception as e:  # noqa
                out.append({"exc": f"{type(e).__name__}: {e}"[:300]})
        return out

    def _flags(self, c, r):
        return (c["std"], c["custom"])

    def shrink(self, c):
        for e in bx.sub_exprs(c["expr"]):
            if not c["custom"] or max(bx.bvars(e)) < 6 + len(c["custom"]):
                yield dict(c, expr=e)
        for i, f in enumerate(c["std"]):
            if f is not None:
                s = list(c["std"]); s[i] = None
                yield dict(c, std=s)


class ConfigStream(_ValidateBase):
    name = "config"
    rule = ("real WorkflowConfig on a generated flow.cylc: graph lines `a:<output>[?] => bN` declare optionality, "
            "[runtime][a]completion holds the generated expression; the flags WorkflowConfig derives from the graph alone "
            "are fed to the model, which must predict accept / reject; non-trivial = graph accepted and some flag set")
    needs_scratch_home = True
    n_hashseeds = 4
    impl_timeout = 900

    def corpus(self):
        return [
            {"graph": [[6, False], [4, True]], "expr": ["or", ["and", ["v", 4], ["v", 6]], ["v", 5]]},
            {"graph": [[6, False], [4, True]], "expr": ["and", ["or", ["v", 4], ["v", 5]], ["v", 6]]},
            {"graph": [[6, True], [4, False], [2, True], [0, True]], "expr": ["or", ["v", 4], ["v", 2]]},
            {"graph": [[5, False]], "expr": ["v", 5]},
        ]

    def gen(self, rng, tier):
        n = 120 if tier == "quick" else 3000
        cases = []
        for _ in range(n):
            graph = []
            for o in (4, 5, 6, 7, 0, 2, 1, 3):
                p = {4: 0.7, 5: 0.3, 6: 0.7, 7: 0.5, 0: 0.25, 2: 0.25, 1: 0.15, 3: 0.15}[o]
                if rng.random() < p:
                    opt = rng.random() < (0.9 if o in (0, 2) else 0.5)
                    graph.append([o, opt])
            if not graph:
                graph = [[4, False]]
            atoms = [4, 5, 6, 7, 0, 2]
            if rng.random() < 0.6:
                req = [o for o, opt in graph if not opt]
                e = None
                for i in req:
                    e = ["v", i] if e is None else ["and", e, ["v", i]]
                if any(o in (4, 5) and opt for o, opt in graph):
                    e = ["or", ["v", 4], ["v", 5]] if e is None else ["and", e, ["or", ["v", 4], ["v", 5]]]
                if e is None:
                    e = ["v", 4]
                for o, opt in graph:
                    if o in (0, 2) and opt and rng.random() < 0.85:
                        e = ["or", e, ["v", o]]
                    elif opt and o in (6, 7) and rng.random() < 0.7:
                        e = ["and", e, ["or", ["v", o], ["v", rng.choice([4, 5])]]]
            else:
                e = bx.rand_expr(rng, atoms, rng.randint(1, 5))
            cases.append({"graph": graph, "expr": e})
        return cases

    def impl(self, cases):
        import os
        import cylc.flow.flags
        from cylc.flow.config import WorkflowConfig
        from cylc.flow.option_parsers import Options
        from cylc.flow.scripts.validate import get_option_parser
        opts = Options(get_option_parser())()
        d = os.path.join(os.environ["HOME"], "wf")
        os.makedirs(d, exist_ok=True)
        path = os.path.join(d, "flow.cylc")

        def write(c, completion):
            lines = "\n".join(
                f"            a:{bx.trig(o)}{'?' if opt else ''} => b{k}" for k, (o, opt) in enumerate(c["graph"]))
            comp = f"        completion = {completion}\n" if completion is not None else ""
            with open(path, "w") as f:
                f.write("[scheduling]\n    [[graph]]\n        R1 = '''\n" + lines + "\n        '''\n"
                        "[runtime]\n    [[a]]\n" + comp +
                        "        [[[outputs]]]\n            x = msg x\n            y-z = msg y-z\n"
                        "    [[" + ", ".join(f"b{k}" for k in range(len(c["graph"]))) + "]]\n")

        out = []
        for c in cases:
            try:
                cylc.flow.flags.cylc7_back_compat = False
                write(c, None)
                try:
                    cfg = WorkflowConfig("wf", path, opts)
                except Exception as e:  # graph itself not valid: nothing to check
                    out.append({"graph_invalid": f"{type(e).__name__}: {e}"[:200]})
                    continue
                o = cfg.taskdefs["a"].outputs
                flags = [o[bx.trig(i)][1] for i in range(8)]
                write(c, bx.to_py(c["expr"]))
                r = _verdict_of(lambda: WorkflowConfig("wf", path, opts))
                r["flags"] = flags
                out.append(r)
            except Exception as e:  # noqa
                out.append({"exc": f"{type(e).__name__}: {e}"[:300]})
        return out

    def _flags(self, c, r):
        if "flags" not in r:
            return None
        return (r["flags"][:6], r["flags"][6:])

    def oracle(self, c, r):
        if "graph_invalid" in r:
            return None
        return super().oracle(c, r)

    def coq_case(self, c, r):
        if "graph_invalid" in r:
            return None
        return super().coq_case(c, r)

    def shrink(self, c):
        for i in range(len(c["graph"])):
            yield dict(c, graph=c["graph"][:i] + c["graph"][i + 1:])
        for e in bx.sub_exprs(c["expr"]):
            yield dict(c, expr=e)


# ---------------------------------------------------------------- skip mode
class SkipStream(Stream):
    name = "skip"
    coq_import = "From Cylc Require Import Model.BExpr Model.Completion Model.OptOutputs."
    check_fn = "OptOutputs.scheck_case"
    show_fn = "OptOutputs.smodel_out"
    rule = ("real run_modes.skip.process_outputs on real TaskDef/TaskOutputs (default and user expressions), "
            "[skip]outputs empty (default) or a random subset not containing both succeeded and failed; "
            "non-trivial = some flag set or user expression")
    n_hashseeds = 4

    def corpus(self):
        N = None
        return [
            # regression (fixed finding, ac1cb29): failed required -> default skip outputs must contain it
            {"std": [N, N, N, N, N, True], "custom": [], "user": None, "conf": [], "kind": "required-failed"},
            {"std": [N, N, N, N, N, True], "custom": [True], "user": None, "conf": [], "kind": "required-failed"},
            {"std": [N, N, N, N, N, N], "custom": [N], "user": ["and", ["v", 5], ["v", 6]], "conf": [],
             "kind": "required-failed"},
            {"std": [N, N, N, N, N, N], "custom": [], "user": ["and", ["v", 4], ["v", 5]], "conf": [],
             "kind": "both-required"},
            {"std": [N, N, N, N, True, N], "custom": [True, False], "user": None, "conf": []},
            {"std": [N, N, N, N, False, N], "custom": [True], "user": None, "conf": []},
            {"std": [N, N, N, N, False, N], "custom": [True], "user": None, "conf": [5]},
            {"std": [N, N, N, N, N, N], "custom": [N],
             "user": ["or", ["and", ["v", 4], ["v", 6]], ["v", 5]], "conf": []},
        ]

    def gen(self, rng, tier):
        n = 180 if tier == "quick" else 8000
        cases = []
        for _ in range(n):
            ncu = rng.randint(0, 2)
            atoms = list(range(6 + ncu))
            std = [rng.choice(FLAGS) if rng.random() < 0.4 else None for _ in range(6)]
            custom = [rng.choice(FLAGS) for _ in range(ncu)]
            user = bx.rand_expr(rng, atoms, rng.randint(1, 5)) if rng.random() < 0.35 else None
            conf = []
            if rng.random() < 0.35:
                conf = [a for a in atoms if rng.random() < 0.3]
                if 4 in conf and 5 in conf:
                    conf.remove(rng.choice([4, 5]))
            cases.append({"std": std, "custom": custom, "user": user, "conf": conf,
                          "kind": "default-conf" if not conf else "conf"})
        return cases

    def impl(self, cases):
        from types import SimpleNamespace
        from cylc.flow.run_modes.skip import process_outputs
        from cylc.flow.task_outputs import TaskOutputs
        out = []
        for c in cases:
            try:
                text = bx.to_py(c["user"]) if c.get("user") is not None else None
                tdef = bx.build_tdef(c["std"], c["custom"], text)
                to = TaskOutputs(tdef)
                itask = SimpleNamespace(state=SimpleNamespace(outputs=to))
                rt = {"skip": {"outputs": [bx.trig(i) for i in c["conf"]]}}
                res = process_outputs(itask, rt)
                r = {"out": sorted(MSG2ID[m] for m in res),
                     "req": sorted(MSG2ID[m] for m in to.iter_required_messages())}
                if not c["conf"]:
                    res2 = process_outputs(itask, None)
                    if res2 != res:
                        r["exc"] = "process_outputs(itask, None) differs from empty [skip]outputs"
                out.append(r)
            except NameError:
                out.append({"nameerror": True})
            except Exception as e:  # noqa
                out.append({"exc": f"{type(e).__name__}: {e}"[:300]})
        return out

    def coq_case(self, c, r):
        if "exc" in r:
            return None
        return q.crecord(
            s_tdef=bx.coq_tdef(c["std"], c["custom"]),
            s_user=q.copt(c.get("user"), bx.to_coq),
            s_conf=q.clist(q.cnat(a) for a in c["conf"]),
            s_impl=q.copt(None if "nameerror" in r else r["out"], lambda l: q.clist(q.cnat(a) for a in l)))

    @staticmethod
    def _required(c):
        """Outputs necessary for completion (exhaustive evaluation), no disable."""
        from vp.props.c11 import rule
        atoms = list(range(6 + len(c["custom"])))
        if c.get("user") is not None:
            fn = _expr_fn(c["user"], atoms)
            used = set(bx.bvars(c["user"]))
        else:
            flags = c["std"] + c["custom"]
            std = c["std"]
            blank = not (any(f is True for f in flags) or std[4] is False or std[5] is False
                         or std[1] is False or std[2] is False or std[0] is False)
            if blank:
                return []
            fn = lambda s: rule(c["std"], c["custom"], s)  # noqa
            used = set(i for i, f in enumerate(flags) if f is True)
            if std[4] is False or std[5] is False:
                used |= {4, 5}
            if std[1] is False or std[2] is False:
                used.add(2)
            if std[0] is False:
                used.add(0)
        return [o for o in atoms if o in used and brute_required(fn, atoms, o)]

    def oracle(self, c, r):
        if "exc" in r:
            return "unexpected exception: " + r["exc"]
        if "nameerror" in r:
            return "NameError from an expression over registered outputs"
        out = set(r["out"])
        if not (bx.SUBMITTED in out and bx.STARTED in out):
            return "submitted/started not generated"
        if (bx.SUCCEEDED in out) == (bx.FAILED in out):
            return f"skip mode outputs {sorted(out)} do not contain exactly one of succeeded/failed"
        if not c["conf"]:
            req = self._required(c)
            # an expression that requires BOTH succeeded and failed cannot be satisfied together with
            # "exactly one of succeeded/failed"; every other required output must be there
            both = bx.SUCCEEDED in req and bx.FAILED in req
            missing = [o for o in req if o not in out
                       and not (both and o in (bx.SUCCEEDED, bx.FAILED))]
            if missing:
                return ("default skip-mode outputs omit required output(s) "
                        + ", ".join(bx.trig(o) for o in missing))
            if (bx.FAILED in out) != (bx.FAILED in req):
                return "default skip mode should produce failed exactly when failed is a required output"
            fail_tol = c["std"][bx.SUCCEEDED] is False or c["std"][bx.FAILED] is False
            if c.get("user") is None and not (fail_tol and bx.FAILED in req):
                # outputs the graph marks required ("all required outputs will be generated");
                # excluded: failure tolerated and yet `failed` necessary (then failed alone completes)
                flagged = [i for i, f in enumerate(c["std"] + c["custom"])
                           if f is True and i not in (bx.SUCCEEDED, bx.FAILED) and i not in out]
                if flagged:
                    return ("default skip-mode outputs omit graph-required output(s) "
                            + ", ".join(bx.trig(o) for o in flagged))
        else:
            if (bx.FAILED in out) != (bx.FAILED in c["conf"]):
                return "failed generated although not configured (or configured but not generated)"
            missing = [o for o in c["conf"] if o not in out]
            if missing:
                return "configured skip outputs not generated: " + ", ".join(bx.trig(o) for o in missing)
        return None

    def key(self, c, r):
        if c.get("user") is None and all(f is None for f in c["std"] + c["custom"]):
            return None
        return json.dumps([c["std"], c["custom"], c.get("user"), c["conf"]])

    def classify(self, c, r, failure):
        if failure == "default skip-mode outputs omit required output(s) failed":
            return "skip:default-omits-required-failed"      # the finding fixed by ac1cb29
        return "skip:" + ("conf" if c["conf"] else "default")

    def shrink(self, c):
        for i, f in enumerate(c["std"]):
            if f is not None:
                s = list(c["std"]); s[i] = None
                yield dict(c, std=s)
        for j, f in enumerate(c["custom"]):
            if f is not None:
                s = list(c["custom"]); s[j] = None
                yield dict(c, custom=s)
        if c.get("user") is not None:
            for e in bx.sub_exprs(c["user"]):
                yield dict(c, user=e)
        for i in range(len(c["conf"])):
            yield dict(c, conf=c["conf"][:i] + c["conf"][i + 1:])


STREAMS = [ClassifyStream(), ValidateStream(), ConfigStream(), SkipStream()]

META = {
    "level_text": (
        "Coq theorems over Model/OptOutputs.v for every And/Or expression, output set and output: for valid expressions "
        "get_optional_outputs classifies an output required iff the expression is false with that output alone missing "
        "(expired/submit-failed absent), which by monotonicity is iff it is false in EVERY such state; optional iff "
        "referenced and not required; None iff unreferenced; the consistency decision equals the documented 9-row table and "
        "acceptance implies graph-required outputs are necessary; skip-mode default outputs contain every required output "
        "plus exactly one of succeeded/failed (failed iff configured or itself required; only an expression requiring both "
        "succeeded and failed is excluded, where the two clauses contradict each other), and for default expressions every "
        "graph-required output. Tied to the code by in-Coq comparison on exhaustive small "
        "expression boxes, real WorkflowConfig validation runs and real process_outputs runs."),
    "level_note": (
        "hand model; expression text <-> tree conversion is in the harness; string-level pre-checks of validation and the "
        "KeyError crash for unregistered names shielded by short-circuiting are outside the model (oracle: never accepted)"),
    "technique": "Coq proof (monotone boolean functions, structural induction) + in-Coq differential correspondence + brute-force oracle",
    "design_ref": "5/C12",
}
