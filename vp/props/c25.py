"""C25 — the published data store reflects the task pool.

Streams: the shared in-process scheduler driver (vp/sched/driver.py) with the
data-store extension vp/sched/store_ext.py (records the delta_task_* calls, every
article put on the publish queue, keeps a client replica fed by the real
module-level apply_delta).  The recorded calls are replayed by Model/Store.v and
its store / published deltas / replica are compared with the real ones inside Coq.
"""
from __future__ import annotations

import json
import os
import random
from pathlib import Path

from vp import coqfmt as q
from vp.sched import oracles, scen
from vp.sched.stream import SchedStream
from vp.sched.store_ext import STATUSES

GEN = ["store_tables"]

TRUSTED = [
    "Model/Store.v is a hand model of the task-proxy part of DataStoreMgr / apply_delta (presence semantics of protobuf "
    "optional fields, MergeFrom, CLEAR_FIELD_MAP from Gen/StoreTables.v, store_node_fetcher, the delta_task_* functions, "
    "update_data_structure / update_workflow_states / initiate_data_model, the publish queue, the aliasing of the batch's "
    "`added` elements with the store).  Which ghost nodes the n-window walk creates and prunes is taken from the run.",
    "Trusted: Coq kernel+VM; the in-process driver vp/sched/driver.py (fake process pool) and vp/sched/store_ext.py "
    "(wrappers recording calls, the client replica built with the real apply_delta the way cylc-uiserver does: clear on "
    "`reloaded`, apply, reconcile checksum); protobuf's own SerializeToString/ParseFromString.",
]
ASSUMES = ["integer cycling; jobs simulated by the harness; a client subscribes to the 'all' topic from the start of a "
           "scheduler session and misses nothing"]

KNOWN_REPEATED = "replica-repeated-field-multiplicity"
KNOWN_REPEATED_WF = "replica-workflow-id-list-multiplicity"


# ---------------------------------------------------------------------------
# recorded run -> Gallina events
# ---------------------------------------------------------------------------
class _Numbering:
    def __init__(self):
        self.ids, self.labels, self.edges = {}, {}, {}

    def id(self, i):
        return self.ids.setdefault((int(i[0]), i[1]), len(self.ids))

    def label(self, s):
        return self.labels.setdefault(s, len(self.labels))

    def edge(self, s):
        return self.edges.setdefault(s, len(self.edges))


def _c_outs(nb, outs):
    return q.clist(q.cpair(q.cN(nb.label(k)), q.cbool(v)) for k, v in outs)


def _c_prereqs(ps):
    return q.clist(q.cpair(q.cbool(s), q.clist(q.cbool(c) for c in cs)) for s, cs in ps)


def _c_pv(nb, pv):
    return q.capp("mkPv", q.cN(STATUSES.index(pv["state"])), q.cbool(pv["held"]), q.cbool(pv["queued"]),
                  q.cbool(pv["runahead"]), q.clist(q.cN(f) for f in pv["flows"]),
                  _c_outs(nb, pv["outputs"]), _c_prereqs(pv["prereqs"]))


def _c_node(nb, v, edges=True):
    ob = lambda x: q.copt(x, q.cbool)   # noqa
    return q.capp(
        "mkNode", q.copt(v["state"], lambda s: q.cN(STATUSES.index(s))), ob(v["held"]), ob(v["queued"]),
        ob(v["runahead"]), q.copt(v["flows"], lambda l: q.clist(q.cN(f) for f in l)),
        _c_outs(nb, v["outputs"]), _c_prereqs(v["prereqs"]),
        q.clist(q.cN(nb.edge(e)) for e in v["edges"]) if edges else "[]")


def _c_store(nb, views):
    return q.clist(q.cpair(q.cN(nb.id(v["id"])), _c_node(nb, v, edges=False)) for v in views)


def _c_delta(nb, dv):
    if dv is None:
        return "empty_delta"
    return q.capp("mkDelta",
                  q.clist(q.cpair(q.cN(nb.id(v["id"])), _c_node(nb, v)) for v in dv["added"]),
                  q.clist(q.cpair(q.cN(nb.id(v["id"])), _c_node(nb, v)) for v in dv["updated"]),
                  q.clist(q.cN(nb.id(i)) for i in dv["pruned"]), q.cbool(dv["reloaded"]))


def events_of(trace):
    """Gallina `list event` for the recorded run, or None when outside the modelled fragment."""
    nb = _Numbering()
    evs = []
    for e in trace:
        if "snap" not in e or "ds" not in e["snap"]:
            continue
        ds = e["snap"]["ds"]
        if ds.get("error"):
            return None
        for l in ds["log"]:
            k = l["k"]
            i = q.cN(nb.id(l["id"])) if "id" in l else None
            if k == "init":
                if l["ntp"]:
                    return None       # task proxies in the store right after initiate_data_model
                op = q.capp("OpInit", q.cbool(not l["reloaded"]))
            elif k == "ghost":
                op = q.capp("OpGhost", i, q.cbool(l["held"]), q.copt(l["pv"], lambda p: _c_pv(nb, p)))
            elif k in ("hist", "state", "outputs", "prereqs", "from_proxy"):
                op = q.capp({"hist": "OpHist", "state": "OpState", "outputs": "OpOutputs", "prereqs": "OpPrereqs",
                             "from_proxy": "OpFromProxy"}[k], i, _c_pv(nb, l["pv"]))
            elif k == "held":
                op = q.capp("OpHeld", i, q.cbool(l["held"]))
            elif k == "flows":
                op = q.capp("OpFlows", i, q.clist(q.cN(f) for f in l["flows"]))
            elif k == "edge":
                op = q.capp("OpEdge", q.cN(nb.id(l["c"])), q.cN(nb.id(l["p"])), q.cN(nb.edge(l["e"])))
            elif k == "prune":
                op = q.capp("OpPrune", q.clist(q.cN(nb.id(x)) for x in l["ids"]),
                            q.clist(q.cN(nb.id(x)) for x in l["dedupe"]))
            elif k == "update":
                op = q.capp("OpUpdate", q.cbool(l["published"]))
            elif k == "wfstates":
                op = "OpWfStates"
            elif k == "put":
                evs.append(q.capp("EPut", q.cbool(l["forced"]), _c_delta(nb, l["tp"])))
                continue
            else:
                return None
            evs.append(q.capp("EOp", op))
        if ds.get("replica") is None:
            return None
        evs.append(q.capp("ECheck", _c_store(nb, ds["tps"]), _c_store(nb, ds["replica"])))
    return q.clist(evs)


# ---------------------------------------------------------------------------
# oracle (implementation only)
# ---------------------------------------------------------------------------
def store_oracle(scn, run):
    """First failure text, or None.  The known aliasing defect (repeated-field multiplicities in the client
    replica) is reported last and only when nothing else is wrong."""
    f = oracles.ORACLES["C25"](scn, run)      # every pooled task is in the store with the pool's values
    if f:
        return f
    known = known_wf = None
    n_checked = 0
    for e in run["trace"]:
        if "snap" not in e:
            continue
        ds = e["snap"].get("ds")
        if ds is None:
            return "data-store extension not installed (no 'ds' in snapshot)"
        if ds.get("error"):
            return "data-store extension failed: " + ds["error"]
        for c in ds["checks"]:
            return f"at {e['e']} {e.get('n')}: {c}"
        if e["e"] != "tick_end":
            continue
        n_checked += 1
        if ds["pool_missing"]:
            return f"tick {e['n']}: pooled tasks {ds['pool_missing']} are not in the data store"
        snap = e["snap"]
        # the client's picture of every pooled task = the pool
        rep = {tuple(v["id"]): v for v in (ds["replica"] or [])}
        if ds["publish_pending"]:
            return (f"tick {e['n']}: the main-loop iteration ended with deltas handed to get_publish_deltas() "
                    f"but not put on the publish queue (publish_pending is still set)")
        if True:
            for t in snap["tasks"]:
                v = rep.get(tuple(t["id"]))
                if v is None:
                    return f"tick {e['n']}: pooled task {t['id']} is not in the client replica"
                got = [v["state"], bool(v["held"]), bool(v["queued"]), bool(v["runahead"]), v["flows"] or [],
                       sorted(k for k, s in v["outputs"] if s), [p[0] for p in v["prereqs"]]]
                want = [t["status"], t["held"], t["queued"], t["runahead"], t["flows"], sorted(t["outputs"]), t["sat"]]
                if got != want:
                    return f"tick {e['n']}: client replica has {t['id']} as {got}, the pool has {want}"
            d = ds["diff"]
            if d["serious"]:
                return f"tick {e['n']}: client replica differs from the scheduler's store: {d['serious']}"
            if d["repeated"] and known is None:
                known = f"{KNOWN_REPEATED}: tick {e['n']}: {d['repeated']}"
            if d["repeated_wf"] and known_wf is None:
                known_wf = f"{KNOWN_REPEATED_WF}: tick {e['n']}: {d['repeated_wf']}"
    return known_wf or known


class StoreStream(SchedStream):
    coq_import = "From Cylc Require Import Model.Store."
    check_fn = "Store.check_case"
    show_fn = "Store.model_out"
    shard_size = 4

    def __init__(self, name, feat, n_quick, n_thorough, p_reload=0.0, p_window=0.0):
        super().__init__("C25", name=name, feat=feat, n_quick=n_quick, n_thorough=n_thorough)
        self.p_reload, self.p_window = p_reload, p_window
        self.cache_key = f"sched-store:{name}:{json.dumps(self.feat, sort_keys=True)}:{p_reload}:{p_window}"
        self.rule += (f"; C25 additions: reload command with probability {p_reload}, graph-window resize with "
                      f"probability {p_window} at a random tick")

    def corpus(self):
        """Minimal witnesses of the two open findings: a => b (the client gets the edge id twice), and the same
        with a hold point and a restart (the start-up put publishes the restored workflow state twice)."""
        base = {"icp": 1, "fcp": 2, "tasks": ["a", "b"],
                "sections": [{"rec": "P1", "lines": [{"lhs": None, "rhs": "a"}, {"lhs": None, "rhs": "b"},
                                                     {"lhs": {"task": "a", "off": 0, "out": "succeeded"}, "rhs": "b"}]}],
                "customs": {}, "opt": [["a", "succeeded", False], ["b", "succeeded", False]], "runahead": 1,
                "queues": {}, "seed": 1, "fail_rate": 0.0, "custom_rate": 1.0, "disorder": 0.0, "ops": []}
        if self.feat.get("restart"):
            c = json.loads(json.dumps(base))
            c["ops"] = [{"tick": 1, "cmd": "set_hold_point", "args": {"point": "1"}},
                        {"tick": 2, "cmd": "restart", "mode": "now"},
                        {"tick": 6, "cmd": "release_hold_point", "args": {}}]
            return [c]
        return [base]

    def _more(self, s, r):
        s.pop("baseline", None)          # the uninterrupted comparison run belongs to C19
        if r.random() < self.p_reload:
            s["ops"].append({"tick": r.randint(0, 8), "cmd": "reload_workflow", "args": {}})
        if r.random() < self.p_window:
            s["ops"].append({"tick": r.randint(0, 8), "cmd": "x_window", "args": {"n": r.choice([0, 2, 2, 3])}})
            if r.random() < 0.5:
                s["ops"].append({"tick": r.randint(4, 12), "cmd": "x_window", "args": {"n": 1}})
        s["ops"].sort(key=lambda o: o["tick"])
        return s

    def gen(self, rng, tier):
        n = self.n_quick if tier == "quick" else self.n_thorough
        r2 = random.Random(rng.randrange(1 << 30))
        return [self._more(scen.gen_scenario(r2, self.feat), r2) for _ in range(n)]

    def search(self, rng, tier):
        r2 = random.Random(rng.randrange(1 << 30))
        return [self._more(scen.gen_scenario(r2, self.feat), r2) for _ in range(2 * self.n_quick)]

    def impl(self, cases):
        from vp.sched import driver, store_ext
        store_ext.install(driver)
        home = Path(os.environ["HOME"])
        out = []
        for c in cases:
            store_ext.reset_run()
            out.append(driver.run_many([c], home)[0])
        return out

    def coq_case(self, c, r):
        if r["meta"].get("error"):
            return None
        return events_of(r["trace"])

    def oracle(self, c, r):
        if r["meta"].get("error"):
            return "scheduler run raised: " + r["meta"]["error"]
        return store_oracle(c, r)

    def classify(self, c, r, failure):
        if failure.startswith(KNOWN_REPEATED_WF):
            return f"store:{KNOWN_REPEATED_WF}"
        if failure.startswith(KNOWN_REPEATED):
            return f"store:{KNOWN_REPEATED}"
        return f"store:{failure[:70]}"


STREAMS = [
    StoreStream("store-cmds", {"hold": True, "abs": True, "queues": True, "stop": True}, 20, 400, p_window=0.4),
    StoreStream("store-restart", {"restart": True, "retries": True, "hold": True}, 14, 300, p_reload=0.5),
]

META = {
    "level_text": (
        "Coq theorems over Model/Store.v (task-proxy part of DataStoreMgr + module-level apply_delta, protobuf presence "
        "semantics, CLEAR_FIELD_MAP read from the source), for ALL sequences of delta_* calls, update_data_structure, "
        "_update_workflow_state, reload and the start-up put: (1) delta algebra — the client replica obtained by folding "
        "apply_delta over everything put on the publish queue (plus what is handed over but not yet put) equals the scheduler's "
        "store on status, held/queued/runahead, flow numbers, outputs and prerequisites, and after every "
        "update_data_structure/_update_workflow_state nothing is outstanding; ingredients proved for all inputs: MergeFrom on "
        "task-proxy elements is a monoid action, the published batch (whose `added` elements are aliased with the store) has the "
        "effect of the applied batch, apply_delta respects store equality, a duplicated publish is harmless on these fields; "
        "(2) pool-reflected — for all programs of pool mutations each accompanied by the scheduler's delta_* call "
        "(add/ghost/from_task_proxy, state with the literal 'only if it differs from the store or the pending delta' rule, outputs, "
        "prerequisites, flows, remove, arbitrary calls about non-pool ids, edges, pruning of non-pool ids), after "
        "update_data_structure every pooled task is in the store with the pool's status, flags, flows, outputs and "
        "prerequisites; the delta_task_state rule is proved lossless. The full statement 'replica = store on every field' is "
        "REFUTED in the faithful model (c25_replica_strict_refuted: a task added and given an edge in one batch gets the edge id "
        "twice in the client) — this is a genuine defect of apply_delta (known finding, fix proposed). "
        "Tie: every generated scheduler run (hold/release/hold-point/stop commands, queues, retries, restarts, reload, graph-window "
        "resizing) is replayed: the recorded delta_* calls drive the model and its store, each published task-proxy delta and the "
        "client replica are compared inside Coq with the real store, the real published deltas and a real replica built with "
        "the real apply_delta at every main-loop iteration. Oracle (implementation only): every pooled task is in "
        "data_store_mgr.data with the pool's values, the replica (fed only by published deltas, decoded from the wire format) "
        "equals the scheduler's store element by element for all seven element types, per-topic and 'all' deltas agree, "
        "checksums match."),
    "level_note": (
        "Partial: theorem (2) excludes update_workflow_states() running while task-proxy deltas are pending (covered by theorem "
        "(1), the replay and the oracle); the n-window walk (which ghost nodes exist / are pruned), jobs, families, the "
        "workflow element, edge pruning and protobuf encoding are not modelled (the oracle compares them at run time; ghost "
        "creation / pruning enter the model as recorded data). Model/Store.v is a hand model; trusted: Coq kernel+VM, the "
        "in-process driver (fake process pool), vp/sched/store_ext.py (call recording, replica as in cylc-uiserver: clear on "
        "`reloaded`, apply_delta, checksum), protobuf. Two open findings are reported as KNOWN-FINDING and do not fail the check: "
        "duplicated edge/job ids of newly added task proxies in the client, and duplicated id lists of the workflow element "
        "after the start-up double publish."),
    "technique": ("Coq proof (monoid of MergeFrom, closed form of apply_delta, invariants over all operation sequences, refutation "
                  "witness) + in-Coq replay of recorded delta calls of real scheduler runs + client-replica oracle"),
    "design_ref": "5/C25",
}
