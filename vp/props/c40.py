"""C40 — workflow-state queries match exactly what was recorded
(cylc/flow/dbstatecheck.py: CylcWorkflowDBChecker.workflow_state_query)."""
import itertools
import json
import re

from vp.core import Stream
from vp import coqfmt as q

TRUSTED = [
    "hand model Model/LikeGlob.v of workflow_state_query / _glob_escape / _selector_in_outputs / check_polling_config "
    "(status and output strings interned by the harness)",
    "SQLite LIKE / GLOB / == semantics modelled by hand (tmatch over tokens); validated on every run against the "
    "sqlite3 library of /venv/bin/python by the 'sqlite' stream",
    "python re used as the independent reference matcher of the oracle",
]
ASSUMES = [
    "Cylc 8 database (flow_nums column present, no NULL status); text without NUL characters",
    "rows are identified by (name, cycle, flow_nums), the tables' primary key",
]

# interned strings (ids are fixed in Model/LikeGlob.v)
STRS = ["waiting", "expired", "preparing", "submit-failed", "submitted", "running",
        "failed", "succeeded", "finished", "finish", "started", "x", "y", "the quick brown", "Succeeded"]
SID = {s: i for i, s in enumerate(STRS)}
FINAL = {"expired", "submit-failed", "failed", "succeeded"}   # independent copy for the oracle

FEATURES = ["wildcard-underscore", "wildcard-percent", "case-insensitive"]


def _fold(t):
    return "".join(chr(ord(c) + 32) if "A" <= c <= "Z" else c for c in t)


def _ref_match(pat, s, feats=()):
    """Reference matcher.  feats == () is the property's own notion ('*' = any
    sequence, everything else literal); feats adds SQLite LIKE features on
    patterns that contain '*' (which is when the code uses LIKE)."""
    if pat is None:
        return True
    if "*" not in pat:
        return pat == s
    nocase = "case-insensitive" in feats
    rx = []
    for ch in pat:
        if ch == "*" or (ch == "%" and "wildcard-percent" in feats):
            rx.append(".*")
        elif ch == "_" and "wildcard-underscore" in feats:
            rx.append(".")
        else:
            rx.append(re.escape(_fold(ch) if nocase else ch))
    return re.fullmatch("".join(rx), _fold(s) if nocase else s, flags=re.S) is not None


def _sel_ok(qr, row):
    sel = qr["sel"]
    if not (qr["trigger"] or qr["message"]):
        return sel is None or row["status"] == sel
    if sel is None:
        return True
    msgs = [m for _, m in row["outputs"]]
    outs = [t for t, _ in row["outputs"]] if row["dict"] else msgs
    ok = False
    if qr["message"]:
        ok = ok or sel in msgs
    if qr["trigger"]:
        ok = ok or sel in outs or (sel in ("finished", "finish") and ("succeeded" in outs or "failed" in outs))
    return ok


def _expected(case, feats=()):
    qr = case["q"]
    out = []
    for i, row in enumerate(case["rows"]):
        if (_ref_match(qr["task"], row["name"], feats) and _ref_match(qr["cycle"], row["cycle"], feats)
                and _sel_ok(qr, row) and (qr["flow"] is None or qr["flow"] in row["flows"])):
            out.append(i)
    return out


def _fstr(flows):
    if flows == [1]:
        return ""
    return "(flows=%s)" % (",".join(str(i) for i in sorted(flows)) or "none")


NAME_CH = "aAbB1_%xé"
CYC_CH = "120TZtz_"


def _word(rng, alphabet, lo=1, hi=4):
    return "".join(rng.choice(alphabet) for _ in range(rng.randint(lo, hi)))


def _variant(rng, w, alphabet):
    if not w or rng.random() < 0.3:
        return w
    i = rng.randrange(len(w))
    ch = w[i]
    r = rng.random()
    if r < 0.4 and ch.lower() != ch.upper():
        new = ch.swapcase()
    elif r < 0.7:
        new = rng.choice(alphabet)
    elif r < 0.85:
        new = rng.choice("_%")
    else:
        return w[:i] + w[i + 1:] if len(w) > 1 else w
    return w[:i] + new + w[i + 1:]


def _pattern(rng, w, alphabet):
    """turn a word into a query pattern: None / exact / with '*'s"""
    r = rng.random()
    if r < 0.12:
        return None
    w = _variant(rng, w, alphabet) if rng.random() < 0.5 else w
    if r < 0.3:
        return w
    for _ in range(rng.choice([1, 1, 1, 2])):
        i = rng.randint(0, len(w))
        j = min(len(w), i + rng.choice([0, 0, 1, 1, 2, 3]))
        w = w[:i] + "*" + w[j:]
    return w


def _rows(rng, n):
    bases = [_word(rng, NAME_CH) for _ in range(rng.randint(1, 3))]
    cbases = [_word(rng, CYC_CH) for _ in range(rng.randint(1, 2))]
    rows, seen = [], set()
    for _ in range(n):
        name = _variant(rng, rng.choice(bases), NAME_CH)
        cyc = _variant(rng, rng.choice(cbases), CYC_CH)
        flows = sorted(rng.sample([1, 2, 3], rng.choice([0, 1, 1, 1, 2, 3])))
        if rng.random() < 0.4:
            flows = [1]
        k = (name, cyc, tuple(flows))
        if k in seen:
            continue
        seen.add(k)
        isdict = rng.random() < 0.7
        pool = ["submitted", "started", "succeeded", "failed", "x", "y", "finished", "the quick brown", "Succeeded"]
        trigs = rng.sample(pool, rng.randint(0, 4))
        if isdict:
            outs = [[t, rng.choice([t, t, rng.choice(pool)])] for t in trigs]
        else:
            outs = [[t, t] for t in trigs]
        rows.append({"name": name, "cycle": cyc, "flows": flows, "status": rng.choice(STRS[:8]),
                     "submit": rng.randint(1, 3), "dict": isdict, "outputs": outs})
    return rows, bases, cbases


def _query(rng, rows, bases, cbases):
    src = rng.choice(rows) if rows and rng.random() < 0.7 else None
    task = _pattern(rng, src["name"] if src else rng.choice(bases), NAME_CH)
    cyc = _pattern(rng, src["cycle"] if src else rng.choice(cbases), CYC_CH)
    if rng.random() < 0.4:
        cyc = None if rng.random() < 0.5 else "*"
    mode = rng.random()
    trig = msg = False
    if mode < 0.45:
        sel = rng.choice([None, None, "succeeded", "failed", "expired", "submit-failed",
                          src["status"] if src else "running", rng.choice(STRS[:8]), "x"])
    else:
        trig = mode < 0.8
        msg = not trig or rng.random() < 0.15
        sel = rng.choice([None, "succeeded", "failed", "finished", "finish", "started", "x", "y",
                          "the quick brown", "Succeeded", "submitted"])
    flow = rng.choice([None, None, 1, 2, 3, 4])
    return {"task": task, "cycle": cyc, "sel": sel, "trigger": trig, "message": msg, "flow": flow}


def _row(name, cycle="1", flows=(1,), status="succeeded", outputs=()):
    return {"name": name, "cycle": cycle, "flows": list(flows), "status": status, "submit": 1,
            "dict": True, "outputs": [list(o) for o in outputs]}


class QueryStream(Stream):
    name = "query"
    coq_import = "From Cylc Require Import Model.LikeGlob."
    check_fn = "LikeGlob.check_case"
    show_fn = "LikeGlob.model_out"
    needs_scratch_home = True
    n_hashseeds = 4
    shard_size = 120
    rule = ("random task_states/task_outputs tables (1-8 rows, names over 'aAbB1_%xé', cycles over '120TZtz_', "
            "flow sets over {1,2,3}, dict/list outputs) created with the real CylcWorkflowDAO schema, one "
            "workflow_state_query per case (status / trigger / message mode, patterns derived from recorded names "
            "with '*' inserted and single-character variations, flow filter); non-trivial = a pattern contains '*'")

    def corpus(self):
        rows = [_row("axb"), _row("a_b"), _row("A_B1"), _row("a_b1"), _row("a%b"), _row("ab", flows=(2,))]
        qs = lambda **kw: dict({"task": None, "cycle": None, "sel": "succeeded", "trigger": False,
                                "message": False, "flow": None}, **kw)
        return [
            # regression cases (witnesses of the LIKE defect fixed by 5844984): '_' / '%' must not act as
            # wildcards and matching must be case sensitive
            {"rows": [_row("axb"), _row("a_b1")], "q": qs(task="a_b*"), "kind": "regression"},
            {"rows": [_row("axb"), _row("a%b")], "q": qs(task="a%b*"), "kind": "regression"},
            {"rows": [_row("A_B1"), _row("a_b1")], "q": qs(task="a_b*"), "kind": "regression"},
            {"rows": [_row("a", cycle="2020T00Z"), _row("a", cycle="2020t00z")],
             "q": qs(task="a", cycle="2020T*"), "kind": "regression"},
            # ordinary behaviour
            {"rows": rows, "q": qs(task="a_b"), "kind": "valid"},
            {"rows": rows, "q": qs(task="a*", flow=2), "kind": "valid"},
            {"rows": rows, "q": qs(sel="running"), "kind": "valid"},
            {"rows": [_row("t", outputs=[("succeeded", "succeeded"), ("x", "the quick brown")]),
                      _row("u", outputs=[("failed", "failed")]), _row("v", outputs=[("started", "started")])],
             "q": qs(sel="finished", trigger=True), "kind": "valid"},
        ]

    def gen(self, rng, tier):
        n = 260 if tier == "quick" else 5000
        cases = []
        for _ in range(n):
            rows, bases, cbases = _rows(rng, rng.randint(1, 8))
            cases.append({"rows": rows, "q": _query(rng, rows, bases, cbases), "kind": "valid"})
        # selector / flow logic on its own (plain or absent patterns)
        for _ in range(n // 3):
            rows, bases, cbases = _rows(rng, rng.randint(2, 8))
            qr = _query(rng, rows, bases, cbases)
            qr["task"] = rng.choice([None, None, "*", rng.choice(rows)["name"]])
            qr["cycle"] = rng.choice([None, None, "*", rng.choice(rows)["cycle"]])
            if qr["trigger"] and rng.random() < 0.5:
                qr["sel"] = rng.choice(["finish", "finished"])
            cases.append({"rows": rows, "q": qr, "kind": "selector"})
        return cases

    def impl(self, cases):
        import os
        import shutil
        import sqlite3
        import tempfile
        from cylc.flow.rundb import CylcWorkflowDAO
        from cylc.flow.dbstatecheck import CylcWorkflowDBChecker
        from cylc.flow.exceptions import InputError
        d = tempfile.mkdtemp(prefix="c40-", dir=os.environ.get("TMPDIR") or "/var/tmp")
        out = []
        try:
            db = os.path.join(d, "db")
            CylcWorkflowDAO(db, create_tables=True).close()
            for c in cases:
                conn = sqlite3.connect(db)
                conn.execute(f"DELETE FROM {CylcWorkflowDAO.TABLE_TASK_STATES}")
                conn.execute(f"DELETE FROM {CylcWorkflowDAO.TABLE_TASK_OUTPUTS}")
                index, recorded = {}, {}
                for i, r in enumerate(c["rows"]):
                    fl = json.dumps(r["flows"])
                    oj = (json.dumps({t: m for t, m in r["outputs"]}) if r["dict"]
                          else json.dumps([m for _, m in r["outputs"]]))
                    conn.execute(
                        f"INSERT INTO {CylcWorkflowDAO.TABLE_TASK_STATES}"
                        "(name, cycle, flow_nums, submit_num, status) VALUES (?,?,?,?,?)",
                        (r["name"], r["cycle"], fl, r["submit"], r["status"]))
                    conn.execute(
                        f"INSERT INTO {CylcWorkflowDAO.TABLE_TASK_OUTPUTS}"
                        "(cycle, name, flow_nums, outputs) VALUES (?,?,?,?)",
                        (r["cycle"], r["name"], fl, oj))
                    index[(r["name"], r["cycle"], _fstr(r["flows"]))] = i
                    recorded[i] = (r["status"], str(json.loads(oj)))
                conn.commit()
                conn.close()
                qr = c["q"]
                outputs_mode = qr["trigger"] or qr["message"]
                try:
                    with CylcWorkflowDBChecker("", "", db_path=db) as ch:
                        res = ch.workflow_state_query(
                            task=qr["task"], cycle=qr["cycle"], selector=qr["sel"],
                            is_trigger=qr["trigger"], is_message=qr["message"], flow_num=qr["flow"])
                    idx, bad = [], 0
                    for row in res:
                        k = (row[0], row[1], row[3] if len(row) > 3 else "")
                        i = index.get(k)
                        if i is None or row[2] != recorded[i][1 if outputs_mode else 0]:
                            bad += 1
                        else:
                            idx.append(i)
                    subs = [c["rows"][i]["submit"] for i in idx]
                    out.append({"idx": sorted(idx), "dups": len(idx) != len(set(idx)), "bad_rows": bad,
                                "order_ok": outputs_mode or subs == sorted(subs)})
                except InputError:
                    out.append({"exc": "InputError"})
                except Exception as e:  # noqa
                    out.append({"exc": f"{type(e).__name__}: {e}"})
        finally:
            shutil.rmtree(d, ignore_errors=True)
        return out

    # ---- Gallina ----
    def coq_case(self, c, r):
        if "exc" in r and r["exc"] != "InputError":
            return None
        if r.get("bad_rows") or r.get("dups"):
            return None
        rows = q.clist(
            q.crecord(r_name=q.ccodes(x["name"]), r_cycle=q.ccodes(x["cycle"]),
                      r_flows=q.clist(q.cz(f) for f in x["flows"]), r_status=q.cnat(SID[x["status"]]),
                      r_is_dict=q.cbool(x["dict"]),
                      r_outputs=q.clist(q.cpair(q.cnat(SID[t]), q.cnat(SID[m])) for t, m in x["outputs"]))
            for x in c["rows"])
        qr = c["q"]
        query = q.crecord(
            q_task=q.copt(qr["task"], q.ccodes), q_cycle=q.copt(qr["cycle"], q.ccodes),
            q_sel=q.copt(qr["sel"], lambda s: q.cnat(SID[s])),
            q_trigger=q.cbool(qr["trigger"]), q_message=q.cbool(qr["message"]),
            q_flow=q.copt(qr["flow"], q.cz))
        impl = "None" if "exc" in r else q.copt(r["idx"], lambda l: q.clist(q.cnat(i) for i in l))
        return q.crecord(c_rows=rows, c_query=query, c_impl=impl)

    # ---- oracle ----
    def oracle(self, c, r):
        qr = c["q"]
        status_mode = not (qr["trigger"] or qr["message"])
        want_error = bool(qr["sel"]) and status_mode and qr["sel"] not in FINAL
        if "exc" in r:
            if r["exc"] == "InputError" and want_error:
                return None
            return "unexpected exception: " + r["exc"]
        if want_error:
            return "polling for a non-final status was not rejected"
        if r["bad_rows"] or r["dups"]:
            return "query returned rows that were not recorded (or duplicates)"
        exp = _expected(c)
        if r["idx"] != exp:
            extra = [c["rows"][i]["name"] + "@" + c["rows"][i]["cycle"] for i in r["idx"] if i not in exp]
            miss = [c["rows"][i]["name"] + "@" + c["rows"][i]["cycle"] for i in exp if i not in r["idx"]]
            return (f"query task={qr['task']!r} cycle={qr['cycle']!r} returned rows {r['idx']}, "
                    f"exact matching gives {exp} (extra {extra}, missing {miss})")
        if not r["order_ok"]:
            return "status rows not ordered by submit number"
        return None

    def classify(self, c, r, failure):
        if isinstance(r, dict) and "idx" in r and not r.get("bad_rows") and not r.get("dups"):
            # explained exactly by SQLite LIKE semantics?  name the first LIKE feature
            # of the smallest feature set that reproduces the answer
            for k in (1, 2, 3):
                for fs in itertools.combinations(FEATURES, k):
                    if _expected(c, fs) == r["idx"]:
                        return "like-" + fs[0]
        return super().classify(c, r, failure)

    def key(self, c, r):
        qr = c["q"]
        if not any(p and "*" in p for p in (qr["task"], qr["cycle"])):
            return None
        return super().key(c, r)

    def shrink(self, c):
        rows = c["rows"]
        for i in range(len(rows)):
            yield dict(c, rows=rows[:i] + rows[i + 1:])
        for f in ("task", "cycle", "flow", "sel"):
            if c["q"][f] is not None:
                yield dict(c, q=dict(c["q"], **{f: None}))
        for f in ("task", "cycle"):
            p = c["q"][f]
            if p and len(p) > 1:
                for i in range(len(p)):
                    yield dict(c, q=dict(c["q"], **{f: p[:i] + p[i + 1:]}))


class SqliteStream(Stream):
    """Ties the hand-written LIKE / GLOB models to the sqlite3 library itself."""
    name = "sqlite"
    coq_import = "From Cylc Require Import Model.LikeGlob."
    check_fn = "LikeGlob.check_sqcase"
    show_fn = "LikeGlob.sq_model"
    n_hashseeds = 2
    shard_size = 1500
    rule = ("(operator, pattern, string) triples evaluated by sqlite3 itself: LIKE over 'aAbB1_%*é', GLOB over "
            "'aAb1*?[]^-', GLOB on glob_escape(pattern); thorough adds all LIKE patterns/strings of length <= 3 over "
            "'aA_%b' and all GLOB patterns of length <= 4 over 'a[]^-*' against strings of length <= 2")

    LIKE_CH = "aAbB1_%*éÉ"
    GLOB_CH = "aAb1*?[]^-é"

    def corpus(self):
        return [{"op": 0, "pat": "a_b%", "s": "axb"}, {"op": 0, "pat": "a_b%", "s": "A_B1"},
                {"op": 0, "pat": "é%", "s": "É"}, {"op": 1, "pat": "a[?]*", "s": "a?b"},
                {"op": 1, "pat": "[]-a]", "s": "^"}, {"op": 1, "pat": "[a-]", "s": "-"},
                {"op": 1, "pat": "[^]a]", "s": "]"}, {"op": 1, "pat": "a[", "s": "a["},
                {"op": 2, "pat": "a?[*", "s": "a?[x"}, {"op": 2, "pat": "a_b*", "s": "axb"}]

    def gen(self, rng, tier):
        n = 1500 if tier == "quick" else 12000
        cases = []
        for _ in range(n):
            op = rng.choice([0, 1, 1, 2])
            ch = self.LIKE_CH if op == 0 else self.GLOB_CH + ("_%" if op == 2 else "")
            s = _word(rng, ch + "ab", 0, 4)
            if rng.random() < 0.6:
                pat = s
                for _ in range(rng.randint(1, 3)):
                    i = rng.randint(0, len(pat))
                    j = min(len(pat), i + rng.choice([0, 1, 1, 2]))
                    pat = pat[:i] + rng.choice(ch) + pat[j:]
            else:
                pat = _word(rng, ch, 0, 5)
            cases.append({"op": op, "pat": pat, "s": s})
        if tier == "thorough":
            def words(ab, n):
                for k in range(n + 1):
                    for t in itertools.product(ab, repeat=k):
                        yield "".join(t)
            for p in words("aA_%b", 3):
                for s in words("aA_%b", 3):
                    cases.append({"op": 0, "pat": p, "s": s, "kind": "exhaustive-like"})
            for p in words("a[]^-*", 4):
                for s in words("a]^-b", 2):
                    cases.append({"op": 1, "pat": p, "s": s, "kind": "exhaustive-glob"})
        return cases

    @staticmethod
    def _escape(p):
        return "".join("[" + c + "]" if c in "?[" else c for c in p)

    def impl(self, cases):
        import sqlite3
        conn = sqlite3.connect(":memory:")
        out = []
        for c in cases:
            try:
                if c["op"] == 0:
                    v = conn.execute("SELECT ? LIKE ?", (c["s"], c["pat"])).fetchone()[0]
                elif c["op"] == 1:
                    v = conn.execute("SELECT ? GLOB ?", (c["s"], c["pat"])).fetchone()[0]
                else:
                    v = conn.execute("SELECT ? GLOB ?", (c["s"], self._escape(c["pat"]))).fetchone()[0]
                out.append({"m": bool(v)})
            except Exception as e:  # noqa
                out.append({"exc": f"{type(e).__name__}: {e}"})
        return out

    def coq_case(self, c, r):
        if "exc" in r:
            return None
        return q.crecord(s_op=q.cnat(c["op"]), s_pat=q.ccodes(c["pat"]), s_str=q.ccodes(c["s"]),
                         s_impl=q.cbool(r["m"]))

    def oracle(self, c, r):
        if "exc" in r:
            return "unexpected exception: " + r["exc"]
        if c["op"] == 2:
            # the proposed replacement (GLOB on the escaped pattern) must be exact matching
            pat = c["pat"]
            exp = re.fullmatch("".join(".*" if ch == "*" else re.escape(ch) for ch in pat), c["s"], flags=re.S)
            if bool(exp) != r["m"]:
                return f"GLOB on the escaped pattern {pat!r} vs {c['s']!r}: sqlite says {r['m']}"
        return None

    def search(self, rng, tier):
        return []


STREAMS = [QueryStream(), SqliteStream()]

META = {
    "level_text": (
        "Coq theorems over Model/LikeGlob.v for all tables, patterns and queries: the query as coded (SQLite GLOB on "
        "the escaped pattern when it contains '*', == otherwise) returns exactly the recorded instances that match, "
        "'*' = any sequence and every other character literal and case-sensitive, for every non-empty pattern "
        "(c40_query_exact, via c40_fixed_glob_exact); flow filtering keeps exactly the instances in the requested flow; "
        "_selector_in_outputs characterised; each instance is returned at most once. The query model is compared with "
        "the real CylcWorkflowDBChecker on generated sqlite databases (real DAO schema, names with _ % mixed case) and "
        "the LIKE/GLOB models with sqlite3 itself. The former LIKE defect (fixed by 5844984) is kept as labelled "
        "legacy theorems and as regression cases in the corpus."),
    "level_note": (
        "Hand model (strings as code points, status/output strings interned); SQLite's matcher is modelled, not "
        "verified, and tied by differential runs (exhaustive small boxes in thorough). Cylc 7 back-compat DBs and "
        "adjust_point_to_db are outside the model. An empty pattern string means 'not given' (code: `if task:`)."),
    "technique": "Coq proof (induction over pattern tokens) + in-Coq differential correspondence (real DB checker, real sqlite) + regex oracle",
    "design_ref": "5/C40",
}
