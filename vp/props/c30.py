"""C30 — commands: pool automaton + real scheduler runs with the command."""
from vp.sched.stream import SchedStream
from vp.props.c01 import TRUSTED, ASSUMES  # noqa
from vp.sched import corpora

_WITNESS = {  # remove 1/a while its job is running: its id stays in the hold set (known finding)
    "icp": 1, "fcp": 1, "tasks": ["a", "b"],
    "sections": [{"rec": "R1", "lines": [{"lhs": None, "rhs": "a"}, {"lhs": None, "rhs": "b"},
                                          {"lhs": {"task": "a", "off": 0, "out": "succeeded"}, "rhs": "b"}]}],
    "customs": {}, "opt": [["a", "succeeded", False], ["b", "succeeded", False]], "runahead": 1, "queues": {},
    "seed": 3, "fail_rate": 0, "custom_rate": 1.0, "disorder": 0,
    "ops": [{"tick": 2, "cmd": "remove_tasks", "args": {"tasks": ["1/a"], "flow": ["all"]}}]}
STREAMS = [SchedStream('C30', name='sched-remove', feat={'remove': True, 'set': True, 'hold': True}, n_quick=32, n_thorough=700,
                       corpus=[_WITNESS] + corpora.c30_corpus())]
META = {
    "level_text": "Coq theorems: ECmdRemove erases exactly the removed instance's completed outputs (except recorded absolute outputs), submissions and history, leaves hold state and pool ids unchanged; frame: every pooled task keeps status, outputs, flows, force-satisfied prerequisites, held flag, submit number, and loses exactly the naturally satisfied prerequisites that came from the removed instance; no submission of it stays on record (it can run again). Tie: real runs with cylc remove at generated iterations (pooled, active and finished instances) accepted by the automaton, whose pool must equal the real pool after the command. Oracle: instance gone, children's natural prerequisites unset, later incarnation starts from scratch, no stale hold (known finding). Removal from a subset of flows is not generated (partial).",
    "level_note": TRUSTED[0] + " Commands use --flow=all only; new/none flows are not generated.",
    "technique": 'Coq proof of the remove frame conditions on the pool automaton + in-Coq trace validation + oracle',
    "design_ref": "5/C30",
}
