"""C18 — cycle point and interval algebra is a consistent total order.

Two correspondence streams against Model/PointAlg.v:
  integer  : IntegerPoint / IntegerInterval (cylc/flow/cycling/integer.py +
             PointBase/IntervalBase in cylc/flow/cycling/__init__.py)
  datetime : ISO8601Point / ISO8601Interval over four calendars, several
             time zones, expanded years and a seconds-resolution format,
             compared with an independent calendar reference
             (vp/props/c18_isoref.py).
"""
import itertools
import json
import re

from vp.core import Stream
from vp import coqfmt as q
from vp.props import c18_isoref as R

TRUSTED = [
    "hand model Model/PointAlg.v of PointBase/IntervalBase comparison+hash plumbing and IntegerPoint/IntegerInterval",
    "Python int()/str() on ASCII [+-]?[0-9]+ modelled by Coq's DecimalString (parse_int/show_z)",
    "datetime: metomi.isodatetime parse/dump/arithmetic enter the theorems as Section variables inst/fmt/isecs "
    "with hypotheses H_fmt_inst (parse(dump z) = z on the format's grid); validated per case against the "
    "independent calendar reference vp/props/c18_isoref.py (own Gregorian/360/365/366-day arithmetic)",
    "hash(point) = hash(point.value) is identified with the value string",
]
ASSUMES = [
    "integer point strings are ASCII [+-]?digits without whitespace/underscores (others only checked by the oracle)",
    "hash consistency is claimed for points built from integers or standardised (IntegerPoint('01') == IntegerPoint('1') "
    "but their hashes differ: outside the property's domain, recorded as an observation)",
    "datetime add/sub round trip is claimed for fixed-length intervals that are multiples of the cycle point format's "
    "resolution (default CCYYMMDDThhmm drops seconds: (p + PT30S) - PT30S != p; observation, see c18 datetime 'offgrid')",
    "streams integer/datetime: one cycle point configuration per process (the harness clears iso8601's lru_caches when it "
    "switches configuration); stream reinit: several configurations in one process, nothing cleared inside a scenario",
    "reinit: under a cycle point format without time zone designator, standardise/add/subtract are exercised on "
    "designator-less strings only (the dumper drops the zone of a point written with another designator without "
    "converting it: observation), compare on all spellings; days <= 28 (point_parse is not keyed on the calendar, so a "
    "date valid only in the earlier calendar is accepted after re-init: observation); the lru_cache size (10000) is not reached",
]

CMPNAMES = ["cmp", "eq", "ne", "lt", "le", "gt", "ge", "hash_eq"]


def _sgn(a, b):
    return (a > b) - (a < b)


def _pyint(s):
    try:
        return int(s)
    except ValueError:
        return None


def _modelled_int_str(s):
    return all(33 <= ord(ch) < 127 and ch != "_" for ch in s)


def _errname(e, iso=False):
    n = type(e).__name__
    if n in ("PointParsingError", "IntervalParsingError"):
        return n
    if n == "ValueError" and not iso:
        return n
    return "OtherError"


# ---------------------------------------------------------------------------
# integer stream
# ---------------------------------------------------------------------------
MALFORMED = ["", "abc", "1a", "a1", "--1", "+-1", "-+1", "1.0", "0x10", "+", "-", "1e3", "P1", "1-"]
OUTSIDE = [" 5", "5 ", "1_000", "5\n", "５", " -7 "]      # Python int() accepts these; not modelled
BAD_INTERVALS = ["", "5", "P", "P-5", "PT1H", "p5", "--P1", "P1D", "P 1", "+-P1", "P1.0"]


def _decorate(rng, v):
    """one of the ways of writing integer v as a point string"""
    k = rng.randrange(6)
    mag = str(abs(v))
    sign = "-" if v < 0 else ""
    if k <= 1:
        return str(v)
    if k == 2:
        return sign + "0" * rng.randint(1, 3) + mag
    if k == 3 and v >= 0:
        return "+" + mag
    if k == 4 and v >= 0:
        return "+" + "0" * rng.randint(1, 2) + mag
    if k == 5 and v == 0:
        return rng.choice(["-0", "-00", "+0", "00"])
    return str(v)


def _value(rng):
    k = rng.randrange(10)
    if k < 5:
        return rng.randint(-12, 12)
    if k < 8:
        return rng.randint(-10**5, 10**5)
    return rng.randint(-10**30, 10**30)


def _near(rng, v):
    k = rng.randrange(6)
    if k < 2:
        return v
    if k == 2:
        return v + rng.choice([-1, 1])
    if k == 3:
        return -v
    return _value(rng)


def _interval(rng, d=None):
    if d is None:
        d = _value(rng) if rng.random() < 0.8 else 0
    mag = str(abs(d))
    if rng.random() < 0.2:
        mag = "0" * rng.randint(1, 2) + mag
    if d < 0:
        return "-P" + mag
    return rng.choice(["P", "P", "+P"]) + mag if d > 0 or rng.random() < 0.7 else "-P" + mag


def _interval_value(s):
    import re
    if not re.fullmatch(r"[-+]?P[0-9]+", s):
        return None
    return int(s.replace("P", ""))


class IntegerStream(Stream):
    name = "integer"
    coq_import = "From Cylc Require Import Model.PointAlg."
    check_fn = "PointAlg.check_case"
    show_fn = "PointAlg.model_out"
    n_hashseeds = 3
    rule = ("IntegerPoint/IntegerInterval operations on random values (small, medium, 30-digit) written in random "
            "decorations (leading zeros, +, -0) plus malformed strings: compare (cmp,==,!=,<,<=,>,>=,hash), standardise "
            "twice, p+i/(p+i)-i/p-i/i+p/p-q/q+(p-q), sorted(), interval compare and arithmetic; non-trivial = both "
            "operands parse; thorough adds all ordered pairs of a 40-string box")

    def corpus(self):
        return [
            {"op": "cmp", "a": "01", "b": "1"},          # equal, hashes differ (observation)
            {"op": "cmp", "a": "1", "b": "1"},
            {"op": "cmp", "a": "-0", "b": "0"},
            {"op": "cmp", "a": "abc", "b": "abc"},       # equal strings short-circuit: no ValueError
            {"op": "cmp", "a": "abc", "b": "1"},
            {"op": "cmp", "a": "9", "b": "10"},          # numeric, not lexicographic
            {"op": "cmp", "a": "-9", "b": "-10"},
            {"op": "std", "a": "+007"},
            {"op": "std", "a": "1 "},
            {"op": "arith", "p": "007", "i": "-P03", "q": "+2"},
            {"op": "arith", "p": "5", "i": "PT1H", "q": "2"},
            {"op": "sort", "l": ["10", "9", "09", "-1", "+9", "1"]},
            {"op": "vcmp", "i": "P1", "j": "+P1"},
            {"op": "vcmp", "i": "-P0", "j": "P0"},
            {"op": "varith", "i": "-P3", "j": "+P5", "k": -2},
            {"op": "cross"},
        ]

    def gen(self, rng, tier):
        n = 500 if tier == "quick" else 15000
        cases = []
        for _ in range(n):
            k = rng.randrange(20)
            v = _value(rng)
            w = _near(rng, v)
            bad = rng.random() < 0.06
            a = _decorate(rng, v)
            b = _decorate(rng, w)
            if bad:
                if rng.random() < 0.5:
                    a = rng.choice(MALFORMED)
                else:
                    b = rng.choice(MALFORMED)
                if rng.random() < 0.3:
                    b = a
            if k < 7:
                c = {"op": "cmp", "a": a, "b": b}
                if rng.random() < 0.3:
                    c["from_int"] = True         # IntegerPoint(int) constructor
                    c["a"], c["b"] = str(v), str(w)
            elif k < 9:
                c = {"op": "std", "a": a}
            elif k < 13:
                i = _interval(rng) if rng.random() > 0.05 else rng.choice(BAD_INTERVALS)
                c = {"op": "arith", "p": a, "i": i, "q": b}
            elif k < 15:
                vals = [_near(rng, v) for _ in range(rng.randint(0, 7))]
                l = [_decorate(rng, x) for x in vals]
                if rng.random() < 0.08 and l:
                    l[rng.randrange(len(l))] = rng.choice(MALFORMED)
                c = {"op": "sort", "l": l}
            elif k < 18:
                d = _value(rng)
                c = {"op": "vcmp", "i": _interval(rng, d), "j": _interval(rng, _near(rng, d))}
                if rng.random() < 0.05:
                    c["j"] = rng.choice(BAD_INTERVALS)
            else:
                c = {"op": "varith", "i": _interval(rng), "j": _interval(rng), "k": rng.randint(-5, 5)}
            if bad:
                c["kind"] = "malformed"
            cases.append(c)
        for s in OUTSIDE:
            cases.append({"op": "cmp", "a": s, "b": rng.choice(["5", "1000", "-7"]), "kind": "outside-model"})
            cases.append({"op": "std", "a": s, "kind": "outside-model"})
        if tier == "thorough":
            box = ["0", "-0", "+0", "00", "1", "01", "+1", "-1", "-01", "2", "9", "10", "010", "-9", "-10",
                   "99", "100", "-100", "+100", "0100", "11", "-11", "12", "21", "19", "91", "1000000000000000000000",
                   "999999999999999999999", "-1000000000000000000000", "3", "-3", "+3", "003", "", "abc", "-", "+", "1a", "7", "70"]
            for a, b in itertools.product(box, box):
                cases.append({"op": "cmp", "a": a, "b": b, "kind": "box"})
        return cases

    # -- implementation driver ------------------------------------------------
    def impl(self, cases):
        from cylc.flow.cycling.integer import IntegerPoint as P, IntegerInterval as I
        out = []
        for c in cases:
            try:
                op = c["op"]
                if op == "cmp":
                    if c.get("from_int"):
                        a, b = P(int(c["a"])), P(int(c["b"]))
                    else:
                        a, b = P(c["a"]), P(c["b"])
                    r = {"z": [a.__cmp__(b), int(a == b), int(a != b), int(a < b), int(a <= b),
                               int(a > b), int(a >= b), int(hash(a) == hash(b))], "s": []}
                elif op == "std":
                    a = P(c["a"])
                    s1 = str(a.standardise())
                    s2 = str(P(s1).standardise())
                    r = {"z": [], "s": [s1, s2]}
                elif op == "arith":
                    i = I(c["i"])
                    p, qq = P(c["p"]), P(c["q"])
                    s1 = p + i
                    s2 = s1 - i
                    s3 = p - i
                    s4 = i + p
                    i5 = p - qq
                    s6 = qq + i5
                    assert isinstance(i5, I) and isinstance(s1, P) and isinstance(s4, P)
                    r = {"z": [], "s": [str(x) for x in (s1, s2, s3, s4, i5, s6)]}
                elif op == "sort":
                    r = {"z": [], "s": [str(x) for x in sorted(P(x) for x in c["l"])]}
                elif op == "vcmp":
                    a, b = I(c["i"]), I(c["j"])
                    r = {"z": [a.__cmp__(b), int(a == b), int(a != b), int(a < b), int(a <= b),
                               int(a > b), int(a >= b), int(hash(a) == hash(b))], "s": []}
                elif op == "varith":
                    a, b = I(c["i"]), I(c["j"])
                    r = {"z": [int(bool(a))], "s": [str(a + b), str(a - b), str(-a), str(abs(a)), str(a * c["k"])]}
                elif op == "cross":
                    from cylc.flow.cycling.iso8601 import ISO8601Point, init
                    init(time_zone="Z")
                    ip, dp = P("20000101"), ISO8601Point("20000101T0000Z")
                    r = {"z": [ip.__cmp__(None), int(ip == None), ip.__cmp__(dp), dp.__cmp__(ip),  # noqa: E711
                               int(ip == dp), int(ip < dp), int(dp > ip), int(ip in [dp]), int(P("3") in {P(3)})],
                         "s": []}
                else:
                    r = {"exc": "harness: unknown op"}
            except Exception as e:  # noqa
                r = {"exc": _errname(e), "msg": f"{type(e).__name__}: {e}"[:200]}
            out.append(r)
        return out

    # -- Gallina case -----------------------------------------------------------
    def coq_case(self, c, r):
        op = c["op"]
        strs = [c.get(k, "") for k in ("a", "b", "p", "q", "i", "j")] + list(c.get("l", []))
        if op == "cross" or not all(_modelled_int_str(s) or s == "" for s in strs):
            return None
        if "exc" in r:
            if r["exc"] not in ("ValueError", "PointParsingError", "IntervalParsingError", "OtherError"):
                return None
            impl = f"(OErr {r['exc']})"
        else:
            impl = f"(OVals {q.clist(q.cz(z) for z in r['z'])} {q.clist(q.cstr(s) for s in r['s'])})"
        if op == "cmp":
            o = f"(ICmp {q.cstr(c['a'])} {q.cstr(c['b'])})"
        elif op == "std":
            o = f"(IStd {q.cstr(c['a'])})"
        elif op == "arith":
            o = f"(IArith {q.cstr(c['p'])} {q.cstr(c['i'])} {q.cstr(c['q'])})"
        elif op == "sort":
            o = f"(ISort {q.clist(q.cstr(s) for s in c['l'])})"
        elif op == "vcmp":
            o = f"(VCmp {q.cstr(c['i'])} {q.cstr(c['j'])})"
        else:
            o = f"(VArith {q.cstr(c['i'])} {q.cstr(c['j'])} {q.cz(c['k'])})"
        return q.crecord(c_op=o, c_inst="[]", c_fmt="[]", c_isecs="[]", c_resol=q.cz(1), c_impl=impl)

    # -- property oracle (Python ints are the reference) -------------------------
    def oracle(self, c, r):
        op = c["op"]
        exc = r.get("exc")
        if exc and exc.startswith("harness"):
            return exc
        if op == "cmp":
            va, vb = _pyint(c["a"]), _pyint(c["b"])
            if c["a"] != c["b"] and (va is None or vb is None):
                return None if exc == "ValueError" else f"expected ValueError comparing {c['a']!r},{c['b']!r}: {r}"
            if exc:
                return f"unexpected {r.get('msg')}"
            s = 0 if c["a"] == c["b"] else _sgn(va, vb)
            want = [s, int(s == 0), int(s != 0), int(s < 0), int(s <= 0), int(s > 0), int(s >= 0)]
            if r["z"][:7] != want:
                bad = [n for n, x, y in zip(CMPNAMES, r["z"], want) if x != y]
                return f"IntegerPoint({c['a']!r}) vs IntegerPoint({c['b']!r}): wrong {bad}: got {r['z'][:7]} want {want}"
            std = lambda x: _pyint(x) is not None and x == str(int(x))   # noqa: E731
            if s == 0 and std(c["a"]) and std(c["b"]) and not r["z"][7]:
                return f"equal standardised points {c['a']!r},{c['b']!r} hash differently"
            if c["a"] == c["b"] and not r["z"][7]:
                return "identical strings hash differently"
            return None
        if op == "std":
            va = _pyint(c["a"])
            if va is None:
                return None if exc == "PointParsingError" else f"expected PointParsingError for {c['a']!r}: {r}"
            if exc:
                return f"unexpected {r.get('msg')}"
            if r["s"][0] != str(va):
                return f"standardise({c['a']!r}) = {r['s'][0]!r}, value not preserved / not canonical"
            if r["s"][1] != r["s"][0]:
                return f"standardise not idempotent on {c['a']!r}: {r['s']}"
            return None
        if op == "arith":
            d = _interval_value(c["i"])
            if d is None:
                return None if exc == "IntervalParsingError" else f"expected IntervalParsingError for {c['i']!r}: {r}"
            vp, vq = _pyint(c["p"]), _pyint(c["q"])
            if vp is None or vq is None:
                return None if exc == "ValueError" else f"expected ValueError: {r}"
            if exc:
                return f"unexpected {r.get('msg')}"
            s1, s2, s3, s4, i5, s6 = r["s"]
            if s2 != str(vp):
                return f"(p + i) - i = {s2!r} for p={c['p']!r} i={c['i']!r}, expected {vp}"
            if s1 != str(vp + d) or s4 != s1 or s3 != str(vp - d):
                return f"p+i={s1!r} i+p={s4!r} p-i={s3!r} for p={c['p']!r} i={c['i']!r}"
            if _interval_value(i5) != vp - vq or s6 != str(vp):
                return f"p-q={i5!r}, q+(p-q)={s6!r} for p={c['p']!r} q={c['q']!r}"
            return None
        if op == "sort":
            vals = [_pyint(x) for x in c["l"]]
            if None in vals:
                if len(set(c["l"])) >= 2:
                    return None if exc == "ValueError" else f"expected ValueError sorting {c['l']}: {r}"
                return None if not exc else f"unexpected {r.get('msg')}"
            if exc:
                return f"unexpected {r.get('msg')}"
            want = [s for _, _, s in sorted((v, i, s) for i, (v, s) in enumerate(zip(vals, c["l"])))]
            return None if r["s"] == want else f"sorted({c['l']}) = {r['s']}, expected {want}"
        if op == "vcmp":
            va, vb = _interval_value(c["i"]), _interval_value(c["j"])
            if va is None or vb is None:
                return None if exc == "IntervalParsingError" else f"expected IntervalParsingError: {r}"
            if exc:
                return f"unexpected {r.get('msg')}"
            s = _sgn(va, vb)
            want = [s, int(s == 0), int(s != 0), int(s < 0), int(s <= 0), int(s > 0), int(s >= 0)]
            if r["z"][:7] != want:
                return f"IntegerInterval({c['i']!r}) vs ({c['j']!r}): got {r['z'][:7]} want {want}"
            if c["i"] == c["j"] and not r["z"][7]:
                return "identical interval strings hash differently"
            return None
        if op == "varith":
            va, vb = _interval_value(c["i"]), _interval_value(c["j"])
            if va is None or vb is None:
                return None if exc == "IntervalParsingError" else f"expected IntervalParsingError: {r}"
            if exc:
                return f"unexpected {r.get('msg')}"
            got = [_interval_value(s) for s in r["s"]]
            want = [va + vb, va - vb, -va, abs(va), va * c["k"]]
            if got != want or r["z"] != [int(va != 0)]:
                return f"interval arithmetic on {c['i']!r},{c['j']!r},k={c['k']}: {r['s']} {r['z']} want {want}"
            return None
        if op == "cross":
            if exc:
                return f"unexpected {r.get('msg')}"
            want = [-1, 0, -1, 1, 0, 1, 1, 0, 1]
            return None if r["z"] == want else f"cross-type comparisons {r['z']} want {want}"
        return None

    def key(self, c, r):
        if "exc" in r or c["op"] == "cross":
            return None
        return super().key(c, r)

    def classify(self, c, r, failure):
        return f"integer:{c['op']}:{'exc' if 'exc' in r else 'value'}"

    def shrink(self, c):
        if c["op"] == "sort":
            for i in range(len(c["l"])):
                yield {**c, "l": c["l"][:i] + c["l"][i + 1:]}
        for k in ("a", "b", "p", "q"):
            if k in c and _pyint(c[k]) is not None and abs(int(c[k])) > 20:
                yield {**c, k: str(int(c[k]) % 17)}


# ---------------------------------------------------------------------------
# datetime stream
# ---------------------------------------------------------------------------
TZS = ["Z", "+0530", "-0800", "+01", "-1145", "+1300"]
POINT_TZS = ["Z", "+0530", "-0800", "+01", None, "-0330", "+1245"]
BAD_POINTS = ["garbage", "2000-13-01T00Z", "20001301T0000Z", "20000132T0000Z", "", "T", "20000101T2500Z"]


def _configs(rng, tier):
    cfgs = [
        {"cal": "gregorian", "tz": "Z", "xdigits": 0},
        {"cal": "gregorian", "tz": "+0530", "xdigits": 0},
        {"cal": "360day", "tz": "Z", "xdigits": 0},
        {"cal": "gregorian", "tz": "Z", "xdigits": 2},
        {"cal": "gregorian", "tz": "Z", "xdigits": 0, "secs": True},
    ]
    n = 5 if tier == "quick" else 40
    for _ in range(n):
        cfgs.append({"cal": rng.choice(R.CALENDARS), "tz": rng.choice(TZS),
                     "xdigits": rng.choice([0, 0, 2, 3]), **({"secs": True} if rng.random() < 0.25 else {})})
    return cfgs


def _fields(rng, cfg, base=None):
    cal = cfg["cal"]
    if base is not None and rng.random() < 0.7:
        # near an existing instant: same, +-1 minute .. +-400 days
        dz = rng.choice([0, 0, 60, -60, 3600, -86400, 86400 * 7, rng.randint(-400, 400) * 86400 + rng.randint(-1440, 1440) * 60])
        y, mo, d, h, mi, s = R.fields(cal, base + dz, "Z")
        lo, hi = (-9000, 99000) if cfg["xdigits"] else (3, 9996)
        if lo <= y <= hi:
            return y, mo, d, h, mi, 0
    if cfg["xdigits"]:
        y = rng.choice([rng.randint(-3000, 3000), rng.randint(9990, 10010), rng.randint(-9000, 99000), rng.randint(-3, 3)])
    else:
        y = rng.choice([rng.randint(3, 9996), rng.randint(1990, 2030), rng.choice([1600, 1900, 2000, 2100, 2400, 4, 100])])
    mo = rng.choice([rng.randint(1, 12), 2, 2, 12, 1, 3])
    dim = R.days_in_month(cal, y, mo)
    d = rng.choice([rng.randint(1, dim), dim, 1, min(28, dim)])
    h = rng.choice([rng.randint(0, 23), 0, 23])
    mi = rng.choice([rng.randint(0, 59), 0, 59])
    return y, mo, d, h, mi, 0


def _point(rng, cfg, base=None, offgrid=False, standard=False):
    """-> (string, instant).  standard=True: the string is already in the
    workflow's standard form (computed by the reference formatter)."""
    y, mo, d, h, mi, s = _fields(rng, cfg, base)
    if cfg.get("secs") or offgrid:
        s = rng.choice([0, rng.randint(1, 59), 30, 59])
    tz = rng.choice(POINT_TZS)
    z = R.instant(cfg["cal"], y, mo, d, h, mi, s, tz if tz else cfg["tz"])
    if standard:
        zz = z - z % R.resolution(cfg)
        return R.fmt_point(cfg, zz), zz
    prec = "s" if s else rng.choice(["m", "m", "m", "h", "d"])
    if prec == "h":
        z -= mi * 60
    elif prec == "d":
        z -= h * 3600 + mi * 60
        tz_eff = cfg["tz"]
        z = R.instant(cfg["cal"], y, mo, d, 0, 0, 0, tz_eff)
        tz = None
    if prec == "h" and tz not in (None, "Z") and len(tz) == 5 and tz[3:] != "00":
        pass
    style = {"ext": rng.random() < 0.4, "prec": prec}
    return R.render_point(cfg, y, mo, d, h, mi, s, tz, style), z


def _duration(rng, cfg):
    """-> (string, seconds): a fixed-length interval on the format's grid"""
    k = rng.randrange(8)
    if k == 0:
        parts = {"W": rng.randint(1, 60)}
    elif k == 1:
        parts = {"D": rng.randint(1, 800)}
    elif k == 2:
        parts = {"H": rng.randint(1, 100)}
    elif k == 3:
        parts = {"M": rng.randint(1, 3000)}
    elif k == 4:
        parts = {"D": rng.randint(0, 40), "H": rng.randint(0, 23), "M": rng.randint(0, 59)}
    elif k == 5:
        parts = {"D": rng.choice([1, 28, 29, 30, 31, 365, 366, 360])}
    elif k == 6:
        parts = {"H": rng.choice([1, 6, 12, 24])}
    else:
        parts = {"D": rng.randint(1, 5), "H": rng.randint(1, 23)}
    if cfg.get("secs") and "W" not in parts and rng.random() < 0.6:
        parts["S"] = rng.randint(1, 200)
    secs = (parts.get("W", 0) * 604800 + parts.get("D", 0) * 86400 + parts.get("H", 0) * 3600
            + parts.get("M", 0) * 60 + parts.get("S", 0))
    s = "P"
    if "W" in parts:
        s += f"{parts['W']}W"
    else:
        if parts.get("D"):
            s += f"{parts['D']}D"
        t = "".join(f"{parts[u]}{u}" for u in "HMS" if parts.get(u))
        if t:
            s += "T" + t
        if s == "P":
            s, secs = "PT0M", 0
    sg = rng.choice(["", "", "", "-", "+"])
    if sg == "-":
        secs = -secs
    return sg + s, secs


class DatetimeStream(Stream):
    name = "datetime"
    coq_import = "From Cylc Require Import Model.PointAlg."
    check_fn = "PointAlg.check_case"
    show_fn = "PointAlg.model_out"
    n_hashseeds = 3
    rule = ("ISO8601Point/ISO8601Interval under random configurations (4 calendars x 6 workflow time zones x expanded year "
            "digits 0/2/3 x minute/second format); points written basic/extended, with other time zones, date-only, "
            "hour-only; intervals weeks/days/hours/minutes(/seconds) on the format's grid, signed; ops: compare (8 results), "
            "standardise twice, p+i/(p+i)-i/p-i/i+p/len(p-q); instants and dumps come from the independent reference "
            "c18_isoref; non-trivial = all strings parse")

    def corpus(self):
        g = {"cal": "gregorian", "tz": "Z", "xdigits": 0}
        return [
            {"cfg": g, "op": "cmp", "a": "20000101T0000Z", "b": "20000101T0100+01", "za": R.instant("gregorian", 2000, 1, 1), "zb": R.instant("gregorian", 2000, 1, 1)},
            {"cfg": g, "op": "arith", "p": "20000229T0000Z", "i": "P1D", "q": "19990101T0630Z",
             "zp": R.instant("gregorian", 2000, 2, 29), "d": 86400, "zq": R.instant("gregorian", 1999, 1, 1, 6, 30)},
            {"cfg": g, "op": "arith", "p": "20000101T0000Z", "i": "PT30S", "q": "20000101T0000Z",
             "zp": R.instant("gregorian", 2000, 1, 1), "d": 30, "zq": R.instant("gregorian", 2000, 1, 1),
             "kind": "offgrid"},
        ]

    def gen(self, rng, tier):
        per = 45 if tier == "quick" else 400
        cases = []
        for cfg in _configs(rng, tier):
            base = None
            for _ in range(per):
                k = rng.randrange(10)
                a, za = _point(rng, cfg, base, standard=rng.random() < 0.3)
                base = za if rng.random() < 0.8 else None
                if k < 4:
                    stdb = rng.random() < 0.4
                    b, zb = _point(rng, cfg, za, standard=stdb)
                    c = {"cfg": cfg, "op": "cmp", "a": a, "b": b, "za": za, "zb": zb}
                elif k < 6:
                    c = {"cfg": cfg, "op": "std", "a": a, "za": za}
                    if rng.random() < 0.25 and not cfg.get("secs"):
                        a, za = _point(rng, cfg, base, offgrid=True)
                        c = {"cfg": cfg, "op": "std", "a": a, "za": za, "kind": "offgrid"}
                else:
                    i, d = _duration(rng, cfg)
                    b, zb = _point(rng, cfg, za)
                    c = {"cfg": cfg, "op": "arith", "p": a, "i": i, "q": b, "zp": za, "d": d, "zq": zb}
                if rng.random() < 0.04:
                    bad = rng.choice(BAD_POINTS)
                    if c["op"] == "arith":
                        c.update(p=bad, zp=None)
                    else:
                        c.update(a=bad, za=None)
                    c["kind"] = "malformed"
                cases.append(c)
        return cases

    def impl(self, cases):
        from cylc.flow.cycling import iso8601
        from cylc.flow.cycling.iso8601 import ISO8601Point as P, ISO8601Interval as I, init
        out = []
        cur = None
        for c in cases:
            cfg = c["cfg"]
            try:
                if cfg != cur:
                    # a real process has one configuration; emulate a fresh one
                    for obj in (iso8601, P, I):
                        for n in dir(obj):
                            f = getattr(obj, n, None)
                            if hasattr(f, "cache_clear"):
                                f.cache_clear()
                    fmtstr = None
                    if cfg.get("secs"):
                        fmtstr = ("+X" if cfg["xdigits"] else "") + "CCYYMMDDThhmmss" + cfg["tz"]
                    init(num_expanded_year_digits=cfg["xdigits"], custom_dump_format=fmtstr,
                         time_zone=cfg["tz"], cycling_mode=cfg["cal"])
                    cur = cfg
                op = c["op"]
                if op == "cmp":
                    a, b = P(c["a"]), P(c["b"])
                    r = {"z": [a.__cmp__(b), int(a == b), int(a != b), int(a < b), int(a <= b),
                               int(a > b), int(a >= b), int(hash(a) == hash(b))], "s": []}
                elif op == "std":
                    s1 = str(P(c["a"]).standardise())
                    s2 = str(P(s1).standardise())
                    r = {"z": [], "s": [s1, s2]}
                else:
                    p, qq, i = P(c["p"]), P(c["q"]), I(c["i"])
                    s1 = p + i
                    s2 = s1 - i
                    s3 = p - i
                    s4 = i + p
                    i5 = p - qq
                    assert isinstance(i5, I) and isinstance(s1, P) and isinstance(s4, P)
                    r = {"z": [], "s": [str(x) for x in (s1, s2, s3, s4)], "diff": str(i5)}
            except Exception as e:  # noqa
                r = {"exc": _errname(e, iso=True), "msg": f"{type(e).__name__}: {e}"[:200]}
            out.append(r)
        return out

    # instants the model will ask the tables about
    def _tables(self, c, r):
        cfg = c["cfg"]
        res = R.resolution(cfg)
        fl = lambda z: z - z % res   # noqa: E731
        inst, zs = {}, set()
        if c["op"] in ("cmp", "std"):
            inst[c["a"]] = c["za"]
            if c["op"] == "cmp":
                inst[c["b"]] = c["zb"]
            if c["za"] is not None:
                zs.add(fl(c["za"]))
        else:
            inst[c["p"]] = c["zp"]
            inst[c["q"]] = c["zq"]
            if c["zp"] is not None:
                x, d = c["zp"], c["d"]
                zs |= {fl(x + d), fl(fl(x + d) - d), fl(x - d)}
        fmt = {}
        for z in zs:
            try:
                s = R.fmt_point(cfg, z)
            except ValueError:       # year outside 0..9999 without expanded digits
                return None
            fmt[z] = s
            inst.setdefault(s, z)
        return inst, fmt

    def coq_case(self, c, r):
        if "exc" in r:
            impl = f"(OErr {r['exc']})"
        elif c["op"] == "arith":
            ln = 0 if r["diff"] == "P0Y" else R.decode_duration(r["diff"])
            if ln is None:
                return None
            impl = f"(OVals [{q.cz(ln)}] {q.clist(q.cstr(s) for s in r['s'])})"
        else:
            impl = f"(OVals {q.clist(q.cz(z) for z in r['z'])} {q.clist(q.cstr(s) for s in r['s'])})"
        t = self._tables(c, r)
        if t is None:
            return None
        inst, fmt = t
        if c["op"] == "cmp":
            o = f"(DCmp {q.cstr(c['a'])} {q.cstr(c['b'])})"
        elif c["op"] == "std":
            o = f"(DStd {q.cstr(c['a'])})"
        else:
            o = f"(DArith {q.cstr(c['p'])} {q.cstr(c['i'])} {q.cstr(c['q'])})"
        isecs = "[]" if c["op"] != "arith" else q.clist([q.cpair(q.cstr(c["i"]), q.copt(c["d"], q.cz))])
        return q.crecord(
            c_op=o,
            c_inst=q.clist(q.cpair(q.cstr(s), q.copt(z, q.cz)) for s, z in sorted(inst.items())),
            c_fmt=q.clist(q.cpair(q.cz(z), q.cstr(s)) for z, s in sorted(fmt.items())),
            c_isecs=isecs, c_resol=q.cz(R.resolution(c["cfg"])), c_impl=impl)

    def oracle(self, c, r):
        cfg = c["cfg"]
        res = R.resolution(cfg)
        exc = r.get("exc")
        op = c["op"]
        zin = [c.get(k) for k in (("za", "zb") if op == "cmp" else ("za",) if op == "std" else ("zp", "zq"))]
        if None in zin:
            if op == "cmp" and c["a"] == c["b"]:
                return None if not exc else f"unexpected {r.get('msg')}"
            return None if exc else f"malformed point accepted: {c} -> {r}"
        if exc:
            # years that the dump format cannot represent are legitimately rejected
            if self._tables(c, r) is None:
                return None
            return f"unexpected {r.get('msg')} for {c}"
        dec = lambda s: R.decode_point(cfg, s)   # noqa: E731
        if op == "cmp":
            s = 0 if c["a"] == c["b"] else _sgn(c["za"], c["zb"])
            want = [s, int(s == 0), int(s != 0), int(s < 0), int(s <= 0), int(s > 0), int(s >= 0)]
            if r["z"][:7] != want:
                return f"ISO8601Point({c['a']!r}) vs ({c['b']!r}) [{cfg}]: got {r['z'][:7]} want {want}"
            isstd = lambda x, z: z % res == 0 and x == R.fmt_point(cfg, z)   # noqa: E731
            if s == 0 and isstd(c["a"], c["za"]) and isstd(c["b"], c["zb"]) and not r["z"][7]:
                return f"equal standardised points {c['a']!r},{c['b']!r} hash differently"
            return None
        if op == "std":
            s1, s2 = r["s"]
            z1 = dec(s1)
            if z1 is None or not s1.endswith(cfg["tz"]):
                return f"standardise({c['a']!r}) = {s1!r}: not in the standard format of {cfg}"
            if c["za"] % res == 0:
                if z1 != c["za"]:
                    return f"standardise({c['a']!r}) = {s1!r} changed the instant ({c['za']} -> {z1}) [{cfg}]"
            elif not (0 <= c["za"] - z1 < res):
                return f"standardise({c['a']!r}) = {s1!r}: off-grid point not truncated to the format's resolution"
            if s2 != s1:
                return f"standardise not idempotent on {c['a']!r}: {r['s']}"
            return None
        # arith
        x, d = c["zp"], c["d"]
        s1, s2, s3, s4 = r["s"]
        if x % res == 0 and d % res == 0:
            want = [x + d, x, x - d, x + d]
            got = [dec(s) for s in r["s"]]
            if got != want:
                return (f"p={c['p']!r} i={c['i']!r} [{cfg}]: p+i, (p+i)-i, p-i, i+p = {r['s']} "
                        f"(instants {got}, expected {want})")
            if x == dec(c["p"]) and c["p"] == R.fmt_point(cfg, x) and s2 != c["p"]:
                return f"(p + i) - i = {s2!r} != p = {c['p']!r}"
        ln = 0 if r["diff"] == "P0Y" else R.decode_duration(r["diff"])
        if ln is not None and ln != c["zp"] - c["zq"]:
            return f"p - q = {r['diff']!r} ({ln}s) for p={c['p']!r} q={c['q']!r}, expected {c['zp'] - c['zq']}s"
        return None

    def key(self, c, r):
        if "exc" in r:
            return None
        return super().key(c, r)

    def classify(self, c, r, failure):
        return f"datetime:{c['op']}:{c['cfg']['cal']}:{'exc' if 'exc' in r else 'value'}"


# ---------------------------------------------------------------------------
# re-initialisation stream: several configurations in ONE process
# ---------------------------------------------------------------------------
SIG_STALE = "reinit:stale-op-cache:keyed-on-calendar-only"
RTZS = ["Z", "+05", "+0530", "-0800", "+01", "-0330"]
RKIND = {"cmp": 0, "add": 1, "sub": 2}


def _cfg_core(cfg):
    """what the lru_cache keys of ISO8601Point's cached functions do NOT contain"""
    return (cfg["tz"], bool(cfg.get("nodesig")), cfg["xdigits"])


def _rpoint(rng, cfg, z, desig):
    """write instant z (of calendar cfg.cal) in basic format; desig None = no designator
    (then the string denotes z only under cfg's own time zone)"""
    tz = cfg["tz"] if desig is None else desig
    y, mo, d, h, mi, s = R.fields(cfg["cal"], z, tz)
    return f"{R.fmt_year(y, cfg['xdigits'])}{mo:02d}{d:02d}T{h:02d}{mi:02d}" + ("" if desig is None else desig)


def _pinfo(string, cfg):
    """fields of a generated point string: (y, mo, d, h, mi, designator or None)"""
    m = re.fullmatch(r"([+-]\d{5,}|\d{4})(\d\d)(\d\d)T(\d\d)(\d\d)(Z|[+-]\d\d(?:\d\d)?)?", string)
    return int(m.group(1)), int(m.group(2)), int(m.group(3)), int(m.group(4)), int(m.group(5)), m.group(6)


def _rinst(string, cfg):
    y, mo, d, h, mi, tz = _pinfo(string, cfg)
    if d > R.days_in_month(cfg["cal"], y, mo):
        return None
    return R.instant(cfg["cal"], y, mo, d, h, mi, 0, tz or cfg["tz"])


class ReinitStream(Stream):
    name = "reinit"
    coq_import = "From Cylc Require Import Model.PointAlg."
    check_fn = "PointAlg.check_rcase"
    show_fn = "PointAlg.rmodel_out"
    n_hashseeds = 3
    shard_size = 100
    rule = ("one process, iso8601.init() under configuration A (time zone, cycle point format with or without time zone "
            "designator, expanded year digits, calendar), then standardise/compare/add/subtract on generated points, "
            "re-init under B (sometimes back to A) and repeat on the same keys, on previously parsed strings in new pairings and "
            "on fresh strings; expected values per configuration from the independent calendar; the Coq model carries the "
            "lru_caches of ISO8601Point keyed as in the code; non-trivial = at least two different configurations")

    def corpus(self):
        f = {"cal": "gregorian", "xdigits": 0, "nodesig": True}
        a, b = {**f, "tz": "+05"}, {**f, "tz": "Z"}
        loc = ["20000101T0000", "20000101T0300", "20000102T1200"]
        oth = ["19991231T2200Z", "20000101T0000Z", "20000101T0100Z", "20000101T0600+05"]
        return [
            # the seeded scenario: parse under +05 only, then compare fresh pairs under Z
            {"configs": [a, b], "ivs": {},
             "phases": [[{"op": "std", "a": x} for x in loc],
                        [{"op": "cmp", "a": x, "b": y} for x in loc + oth for y in loc + oth if x != y]]},
            # witness of the stale-cache finding: the same pair compared under both configurations
            {"configs": [a, b], "ivs": {},
             "phases": [[{"op": "cmp", "a": "20000101T0000Z", "b": "20000101T0000"}],
                        [{"op": "cmp", "a": "20000101T0000Z", "b": "20000101T0000"}]], "kind": "same-key"},
            # ... and the same addition under two time zones (default formats)
            {"configs": [{"cal": "gregorian", "xdigits": 0, "tz": "Z"}, {"cal": "gregorian", "xdigits": 0, "tz": "+05"}],
             "ivs": {"PT1H": 3600},
             "phases": [[{"op": "add", "a": "20000101T0000Z", "b": "PT1H"}],
                        [{"op": "add", "a": "20000101T0000Z", "b": "PT1H"}]], "kind": "same-key"},
        ]

    def _gen_case(self, rng):
        xd = rng.choice([0, 0, 0, 2])
        mode = rng.randrange(10)
        cal = rng.choice(R.CALENDARS)
        tzs = rng.sample(RTZS, 3)
        if mode < 5:          # same designator-less format, different time zones
            cfgs = [{"cal": cal, "tz": tzs[0], "xdigits": xd, "nodesig": True},
                    {"cal": cal, "tz": tzs[1], "xdigits": xd, "nodesig": True}]
        elif mode < 7:        # default formats, different time zones
            cfgs = [{"cal": cal, "tz": tzs[0], "xdigits": xd}, {"cal": cal, "tz": tzs[1], "xdigits": xd}]
        elif mode < 9:        # with / without designator, maybe another calendar
            cfgs = [{"cal": cal, "tz": tzs[0], "xdigits": xd, **({"nodesig": True} if rng.random() < 0.5 else {})},
                    {"cal": rng.choice([cal, cal, rng.choice(R.CALENDARS)]), "tz": rng.choice(tzs[:2]), "xdigits": xd,
                     **({"nodesig": True} if rng.random() < 0.5 else {})}]
        else:                 # only the calendar changes (it IS in the cache keys)
            cfgs = [{"cal": cal, "tz": tzs[0], "xdigits": xd}, {"cal": rng.choice(R.CALENDARS), "tz": tzs[0], "xdigits": xd}]
        if rng.random() < 0.35:
            cfgs.append(dict(cfgs[0]) if rng.random() < 0.6 else {"cal": cal, "tz": tzs[2], "xdigits": xd, "nodesig": True})
        # a pool of points close to each other, days <= 28 (valid in every calendar)
        y = rng.choice([2000, rng.randint(1000, 9000)]) if not xd else rng.choice([2000, 12000, -50])
        base = R.instant("gregorian", y, rng.randint(1, 12), rng.randint(2, 27), rng.randint(0, 23), rng.choice([0, 30]), 0, "Z")
        locs, oths = [], []
        for _ in range(rng.randint(2, 4)):
            z = base + rng.choice([0, 0, 3600, -3600, 5 * 3600, 19800, -8 * 3600, rng.randint(-2000, 2000) * 60])
            c0 = {"cal": "gregorian", "tz": rng.choice([c["tz"] for c in cfgs]), "xdigits": xd}
            s = _rpoint(rng, c0, z, None)
            y_, mo_, d_, *_ = _pinfo(s, c0)
            if d_ <= 28 and s not in locs:
                locs.append(s)
        for _ in range(rng.randint(2, 4)):
            z = base + rng.choice([0, 0, 3600, -3600, 5 * 3600, 19800, rng.randint(-2000, 2000) * 60])
            s = _rpoint(rng, {"cal": "gregorian", "tz": "Z", "xdigits": xd}, z, rng.choice(RTZS))
            if _pinfo(s, None)[2] <= 28 and s not in oths:
                oths.append(s)
        ivs = {}
        for _ in range(2):
            i, d = _duration(rng, {})
            ivs[i] = d
        allp = locs + oths
        phases, seen_pairs = [], set()
        for k, cfg in enumerate(cfgs):
            steps = []
            arith_pool = locs if cfg.get("nodesig") else allp     # see ASSUMES
            if k == 0 and rng.random() < 0.7:
                steps += [{"op": "std", "a": x} for x in locs]    # what loading a workflow does
            for _ in range(rng.randint(3, 9)):
                r = rng.random()
                if r < 0.55 and len(allp) >= 2:
                    if k > 0 and seen_pairs and rng.random() < 0.3:
                        a_, b_ = rng.choice(sorted(seen_pairs))   # same key again
                    else:
                        a_, b_ = rng.sample(allp, 2)
                    steps.append({"op": "cmp", "a": a_, "b": b_})
                    seen_pairs.add((a_, b_))
                elif r < 0.7 and arith_pool:
                    steps.append({"op": "std", "a": rng.choice(arith_pool)})
                elif arith_pool:
                    steps.append({"op": rng.choice(["add", "sub"]), "a": rng.choice(arith_pool), "b": rng.choice(sorted(ivs))})
            phases.append(steps)
        return {"configs": cfgs, "ivs": ivs, "phases": phases}

    def gen(self, rng, tier):
        return [self._gen_case(rng) for _ in range(220 if tier == "quick" else 6000)]

    def impl(self, cases):
        from cylc.flow.cycling import iso8601
        from cylc.flow.cycling.iso8601 import ISO8601Point as P, ISO8601Interval as I, init
        out = []
        for c in cases:
            # each case starts like a fresh process; nothing is cleared inside a case
            for obj in (iso8601, P, I):
                for n in dir(obj):
                    f = getattr(obj, n, None)
                    if hasattr(f, "cache_clear"):
                        f.cache_clear()
            res = []
            for cfg, steps in zip(c["configs"], c["phases"]):
                fmtstr = None
                if cfg.get("nodesig"):
                    fmtstr = ("+X" if cfg["xdigits"] else "") + "CCYYMMDDThhmm"
                init(num_expanded_year_digits=cfg["xdigits"], custom_dump_format=fmtstr,
                     time_zone=cfg["tz"], cycling_mode=cfg["cal"])
                ph = []
                for st in steps:
                    try:
                        if st["op"] == "cmp":
                            a, b = P(st["a"]), P(st["b"])
                            ph.append({"cmp": a.__cmp__(b), "eq": bool(a == b), "lt": bool(a < b), "gt": bool(a > b)})
                        elif st["op"] == "std":
                            ph.append({"s": str(P(st["a"]).standardise())})
                        elif st["op"] == "add":
                            ph.append({"s": str(P(st["a"]) + I(st["b"]))})
                        else:
                            ph.append({"s": str(P(st["a"]) - I(st["b"]))})
                    except Exception as e:  # noqa
                        ph.append({"exc": _errname(e, iso=True), "msg": f"{type(e).__name__}: {e}"[:160]})
                res.append(ph)
            out.append({"phases": res})
        return out

    # expected answer of one step under the configuration in force (independent calendar)
    def _want(self, c, cfg, st):
        res = R.resolution(cfg)
        if st["op"] == "cmp":
            if st["a"] == st["b"]:
                return ("cmp", 0)
            za, zb = _rinst(st["a"], cfg), _rinst(st["b"], cfg)
            return ("cmp", _sgn(za, zb))
        z = _rinst(st["a"], cfg)
        if st["op"] == "add":
            z += c["ivs"][st["b"]]
        elif st["op"] == "sub":
            z -= c["ivs"][st["b"]]
        return ("s", R.fmt_point(cfg, z - z % res))

    def _walk(self, c, r):
        """-> list of (phase, index, cfg, step, got, want, key seen earlier under another non-calendar configuration)"""
        seen = {}
        rows = []
        for k, (cfg, steps, outs) in enumerate(zip(c["configs"], c["phases"], r["phases"])):
            for j, (st, o) in enumerate(zip(steps, outs)):
                want = self._want(c, cfg, st)
                got = ("exc", o["exc"]) if "exc" in o else ("cmp", o["cmp"]) if "cmp" in o else ("s", o["s"])
                stale = False
                if st["op"] in RKIND and st["a"] != st.get("b"):
                    key = (st["op"], st["a"], st["b"], cfg["cal"])
                    stale = any(core != _cfg_core(cfg) for core in seen.get(key, ()))
                    if "exc" not in o:
                        seen.setdefault(key, set()).add(_cfg_core(cfg))
                rows.append((k, j, cfg, st, o, got, want, stale))
        return rows

    def oracle(self, c, r):
        fresh, stale = None, None
        for k, j, cfg, st, o, got, want, was_seen in self._walk(c, r):
            msg = None
            if got != want:
                msg = (f"configuration #{k} {cfg}: {st} gives {o}, expected {want} under this configuration"
                       f" (earlier configurations: {c['configs'][:k]})")
            elif "cmp" in o and (o["eq"], o["lt"], o["gt"]) != (o["cmp"] == 0, o["cmp"] == -1, o["cmp"] == 1):
                msg = f"configuration #{k}: {st}: ==,<,> {o} inconsistent with __cmp__"
            if msg:
                if was_seen:
                    stale = stale or "[same operands already evaluated under another configuration] " + msg
                else:
                    fresh = fresh or msg
        return fresh or stale

    def classify(self, c, r, failure):
        if failure.startswith("[same operands already evaluated"):
            return SIG_STALE
        m = re.search(r"'op': '(\w+)'", failure)
        return f"reinit:{m.group(1) if m else 'other'}:first-evaluation-after-reinit"

    def coq_case(self, c, r):
        strs = sorted({st["a"] for ph in c["phases"] for st in ph} |
                      {st["b"] for ph in c["phases"] for st in ph if st["op"] == "cmp"})
        cfgs = []
        for cfg, steps in zip(c["configs"], c["phases"]):
            res = R.resolution(cfg)
            inst = {s_: _rinst(s_, cfg) for s_ in strs}
            fmt = {}
            for st in steps:
                if st["op"] == "cmp":
                    continue
                z = inst[st["a"]]
                if z is None:
                    continue
                z += {"add": 1, "sub": -1, "std": 0}[st["op"]] * c["ivs"].get(st.get("b"), 0)
                z -= z % res
                try:
                    fmt[z] = R.fmt_point(cfg, z)
                except ValueError:
                    return None
            cfgs.append(q.crecord(
                rc_cal=q.cz(R.CALENDARS.index(cfg["cal"])),
                rc_inst=q.clist(q.cpair(q.cstr(s_), q.copt(z, q.cz)) for s_, z in sorted(inst.items())),
                rc_fmt=q.clist(q.cpair(q.cz(z), q.cstr(s_)) for z, s_ in sorted(fmt.items())),
                rc_resol=q.cz(res)))
        steps, impl = [], []
        ctor = {"cmp": "RCmp", "add": "RAdd", "sub": "RSub"}
        for k, (ph, outs) in enumerate(zip(c["phases"], r["phases"])):
            for st, o in zip(ph, outs):
                op = f"(RStd {q.cstr(st['a'])})" if st["op"] == "std" else \
                    f"({ctor[st['op']]} {q.cstr(st['a'])} {q.cstr(st['b'])})"
                steps.append(q.cpair(q.cnat(k), op))
                if "exc" in o:
                    impl.append(f"(ROErr {o['exc']})")
                elif "cmp" in o:
                    impl.append("(ROCmp %s)" % {-1: "Lt", 0: "Eq", 1: "Gt"}[o["cmp"]])
                else:
                    impl.append(f"(ROStr {q.cstr(o['s'])})")
        return q.crecord(r_configs=q.clist(cfgs),
                         r_isecs=q.clist(q.cpair(q.cstr(i), q.copt(d, q.cz)) for i, d in sorted(c["ivs"].items())),
                         r_steps=q.clist(steps), r_impl=q.clist(impl))

    def key(self, c, r):
        if len({json.dumps(x, sort_keys=True) for x in c["configs"]}) < 2:
            return None
        return super().key(c, r)

    def shrink(self, c):
        for k, ph in enumerate(c["phases"]):
            for j in range(len(ph)):
                yield {**c, "phases": c["phases"][:k] + [ph[:j] + ph[j + 1:]] + c["phases"][k + 1:]}


STREAMS = [IntegerStream(), DatetimeStream(), ReinitStream()]


META = {
    "level_text": ("Coq theorems over Model/PointAlg.v, for all point/interval strings: IntegerPoint __cmp__ and ==,<,<=,>,>= are "
                   "exactly Z.compare / the Z comparisons of the integer values whatever the spelling, with the total-order laws "
                   "(reflexive, Eq iff equal value, antisymmetric, transitive, total); sorted() returns a value-ordered permutation; "
                   "the same for IntegerInterval plus from_integer round trip; two standardised (or built-from-int) points that "
                   "compare equal are the same string, hence hash equal; standardise is idempotent and value-preserving; "
                   "(p+i)-i = p, (p-i)+i = p, q+(p-q) = p as values and as strings for standardised p. Datetime: the same "
                   "statements (instant order, total-order laws, hash of equal standardised points, standardise idempotent, "
                   "(p+i)-i = p with p+i at instant+d) proved for every calendar/format satisfying iso_calendar_ok (positive "
                   "resolution; dump-then-parse is the identity on the format's grid). Both models are tied to the real classes "
                   "by differential runs compared inside Coq; the datetime run uses an independent calendar implementation "
                   "for the instants and dumps (4 calendars, 6 time zones, expanded years, second-resolution format). "
                   "Several configurations in one process: with the lru_caches of ISO8601Point modelled, c18_reinit_consistent proves "
                   "that every answer in every history of init()s and operations is a function of (configuration in force, operands) "
                   "only, provided the cache key determines the configuration; refuted for the key as coded (calendar only) and "
                   "reproduced on the real class (open finding); the reinit stream runs such histories in one process against the "
                   "faithful model and the per-configuration reference."),
    "level_note": ("Full proofs for the integer classes (string level, via Coq's DecimalString round trip). For datetime the "
                   "calendar (metomi.isodatetime parse/dump/duration arithmetic) is abstract: iso_calendar_ok and the shape of "
                   "dstd/dadd/dsub (dump of the floored instant) are assumptions validated by sampling, not proved. Domain "
                   "restrictions carried as explicit hypotheses: hash claim needs standardised points ('01' == '1', hashes differ); "
                   "datetime round trip needs intervals on the format's resolution (default format drops seconds). Trusted: Coq "
                   "kernel+VM, harness, c18_isoref.py reference calendar, identification of hash with the value string."),
    "technique": "Coq proof over a string-level model (DecimalString round trip) + in-Coq differential correspondence + independent calendar oracle",
    "design_ref": "5/C18",
}
