#!/venv/bin/python
"""CLI used by every MANIFEST command:  ./vp/check.py Cxx --tier quick|thorough [--replay PATH]"""
import argparse
import os
import sys
from pathlib import Path

sys.path.insert(0, str(Path(__file__).resolve().parent.parent))
os.environ.setdefault("PYTHONHASHSEED", "0")


def main():
    ap = argparse.ArgumentParser()
    ap.add_argument("prop")
    ap.add_argument("--tier", default=os.environ.get("VERIF_TIER", "quick"), choices=["quick", "thorough"])
    ap.add_argument("--replay")
    a = ap.parse_args()
    seed = int(os.environ.get("VERIF_SEED", "0") or 0)
    from vp import core
    sys.exit(core.run_check(a.prop.upper(), a.tier, seed, a.replay))


if __name__ == "__main__":
    main()
