"""The check pipeline shared by every property (DESIGN.md section 2.1).

lint -> gen -> prove -> correspond (impl vs Gallina model, compared inside
Coq) -> monitor (oracle on the implementation) -> search -> known findings
-> evidence.
"""
from __future__ import annotations

import concurrent.futures as cf
import fcntl
import hashlib
import importlib
import json
import os
import random
import re
import shutil
import subprocess
import sys
import time
from pathlib import Path

VERIF = Path(__file__).resolve().parent.parent
REPO = Path(os.environ.get("VERIF_REPO", "/repo"))
COQ = VERIF / "coq"
THEORIES = COQ / "theories"
PY = "/venv/bin/python"
CACHE = VERIF / ".cache"
NPROC = int(os.environ.get("VERIF_NPROC", "16"))

FORBIDDEN = re.compile(
    r"\b(Admitted|admit|Axiom|Axioms|Parameter|Parameters|Conjecture|Conjectures"
    r"|Hypothesis|Hypotheses|Variable|Variables|Abort)\b"
    r"|Unset\s+Guard|Unset\s+Positivity|Unset\s+Universe|bypass_check|type-in-type"
    r"|impredicative-set|Admit\s+Obligations|native_compute"
)
SECTION_OK = re.compile(r"\b(Hypothesis|Hypotheses|Variable|Variables)\b")


# --------------------------------------------------------------------------
# Streams
# --------------------------------------------------------------------------
class Stream:
    """One correspondence stream: generator + implementation driver +
    Gallina case printer + oracle.  Subclass per property (or share)."""

    name = "stream"
    coq_import = ""        # e.g. "From Cylc Require Import Model.C3."
    check_fn = ""          # Gallina function  case -> bool
    show_fn = ""           # optional Gallina function case -> printable model output
    rule = ""              # how cases are generated / what is non-trivial
    shard_size = 400       # cases per cases_k.v
    n_hashseeds = 4        # number of implementation subprocesses (each own PYTHONHASHSEED)
    impl_timeout = 600
    needs_scratch_home = False

    def gen(self, rng: random.Random, tier: str) -> list:
        raise NotImplementedError

    def corpus(self) -> list:
        return []

    def impl(self, cases: list) -> list:
        """Runs inside the implementation subprocess (cylc importable)."""
        raise NotImplementedError

    def coq_case(self, case, result) -> str | None:
        """Gallina term for the case with the implementation's output
        embedded; None when the case is outside the modelled fragment."""
        raise NotImplementedError

    def oracle(self, case, result) -> str | None:
        """Property oracle on the implementation alone: failure text or None."""
        return None

    def key(self, case, result):
        """Hashable identity of a non-trivial case, or None if trivial."""
        return json.dumps(case, sort_keys=True, default=str)

    def classify(self, case, result, failure) -> str:
        """Signature used to match known findings (narrow input class)."""
        return self.name + ":" + hashlib.sha1(
            json.dumps(case, sort_keys=True, default=str).encode()).hexdigest()[:12]

    def shrink(self, case):
        """Yield smaller variants of a failing case."""
        return iter(())

    def search(self, rng: random.Random, tier: str) -> list:
        """Extra cases for the failing-input search (when a proof or the
        correspondence broke and the normal cases showed no oracle failure)."""
        return self.gen(rng, "thorough" if tier == "quick" else tier)


# --------------------------------------------------------------------------
# helpers
# --------------------------------------------------------------------------
def sh(cmd, timeout=600, cwd=None, env=None, input=None):
    try:
        p = subprocess.run(cmd, cwd=cwd, env=env, input=input, timeout=timeout,
                           stdout=subprocess.PIPE, stderr=subprocess.STDOUT,
                           text=True)
        return p.returncode, p.stdout
    except subprocess.TimeoutExpired as e:
        out = e.stdout or ""
        if isinstance(out, bytes):
            out = out.decode(errors="replace")
        return 124, out + f"\n[timeout after {timeout}s]"


def lint() -> list[str]:
    """Forbidden-token grep over the Coq development."""
    bad = []
    for f in sorted(THEORIES.rglob("*.v")):
        txt = f.read_text()
        # strip comments (non-nested is enough for our own files)
        body = re.sub(r"\(\*.*?\*\)", " ", txt, flags=re.S)
        depth = 0
        for ln, line in enumerate(body.splitlines(), 1):
            if re.match(r"\s*Section\b", line):
                depth += 1
            m = FORBIDDEN.search(line)
            if m:
                if SECTION_OK.search(m.group(0)) and depth > 0:
                    pass
                else:
                    bad.append(f"{f.relative_to(VERIF)}:{ln}: {m.group(0)}")
            if re.match(r"\s*End\b", line) and depth > 0:
                depth -= 1
    write_coqproject()
    proj = (COQ / "_CoqProject").read_text()
    for tok in ("-vos", "-vok", "type-in-type", "impredicative-set", "bypass"):
        if tok in proj:
            bad.append(f"_CoqProject: {tok}")
    return bad


class BuildLock:
    def __enter__(self):
        COQ.mkdir(exist_ok=True)
        self.fh = open(COQ / ".build.lock", "w")
        fcntl.flock(self.fh, fcntl.LOCK_EX)
        return self

    def __exit__(self, *a):
        fcntl.flock(self.fh, fcntl.LOCK_UN)
        self.fh.close()


def write_coqproject():
    files = sorted(str(p.relative_to(COQ)) for p in THEORIES.rglob("*.v"))
    txt = "-Q theories Cylc\n-arg -w -arg -notation-overridden,-deprecated-hint-without-locality,-ambiguous-paths,-deprecated-instance-without-locality\n" + "\n".join(files) + "\n"
    p = COQ / "_CoqProject"
    if not p.exists() or p.read_text() != txt:
        p.write_text(txt)
        return True
    return False


def ensure_makefile():
    changed = write_coqproject()
    if changed or not (COQ / "Makefile").exists():
        rc, out = sh(["coq_makefile", "-f", "_CoqProject", "-o", "Makefile"], cwd=COQ)
        if rc != 0:
            raise RuntimeError("coq_makefile failed: " + out)


def dep_closure(rel: str) -> list[str]:
    """Transitive `From Cylc Require ...` closure of a theories-relative file
    (e.g. 'Props/C35.v'), in dependency order."""
    seen, order = set(), []

    def visit(r):
        if r in seen:
            return
        seen.add(r)
        f = THEORIES / r
        if not f.exists():
            return
        txt = re.sub(r"\(\*.*?\*\)", " ", f.read_text(), flags=re.S)
        for m in re.finditer(r"From\s+Cylc\s+Require\s+(?:Import\s+|Export\s+)?(.*?)\.(?=\s|$)", txt, flags=re.S):
            for mod in m.group(1).split():
                visit(mod.replace(".", "/") + ".v")
        for m in re.finditer(r"(?<!Cylc\s)Require\s+(?:Import\s+|Export\s+)?(.*?)\.(?=\s|$)", txt, flags=re.S):
            for mod in m.group(1).split():
                if mod.startswith("Cylc."):
                    visit(mod[len("Cylc."):].replace(".", "/") + ".v")
        order.append(r)

    visit(rel)
    return order


def build_prop(pid: str, timeout=1500) -> tuple[bool, str]:
    """Full .vo build of Props/<pid>.v and exactly its dependency closure,
    with a per-property Makefile so that another property's half-written file
    cannot break this build."""
    files = ["theories/" + r for r in dep_closure(f"Props/{pid}.v")]
    proj = ("-Q theories Cylc\n-arg -w -arg -notation-overridden,-deprecated-hint-without-locality,"
            "-ambiguous-paths,-deprecated-instance-without-locality\n" + "\n".join(files) + "\n")
    with BuildLock():
        pf = COQ / f"_CoqProject.{pid}"
        mk = COQ / f"Makefile.{pid}"
        if not pf.exists() or pf.read_text() != proj or not mk.exists():
            pf.write_text(proj)
            rc, out = sh(["coq_makefile", "-f", pf.name, "-o", mk.name], cwd=COQ)
            if rc != 0:
                return False, "coq_makefile failed: " + out
        rc, out = sh(["timeout", str(timeout), "make", "-f", mk.name, f"-j{NPROC}",
                      f"theories/Props/{pid}.vo"], cwd=COQ, timeout=timeout + 30)
    return rc == 0, out


def build(targets: list[str], timeout=3000, clean=False) -> tuple[bool, str]:
    """make the given .vo targets of the whole project (used by setup)."""
    with BuildLock():
        ensure_makefile()
        if clean:
            sh(["make", "clean"], cwd=COQ, timeout=120)
        rc, out = sh(["timeout", str(timeout), "make", "-k", f"-j{NPROC}", *targets],
                     cwd=COQ, timeout=timeout + 30)
    return rc == 0, out


def theorem_names(prop_file: Path) -> list[str]:
    txt = re.sub(r"\(\*.*?\*\)", " ", prop_file.read_text(), flags=re.S)
    return re.findall(r"^\s*Theorem\s+([A-Za-z0-9_']+)", txt, flags=re.M)


def print_assumptions(pid: str, names: list[str], scratch: Path) -> dict:
    """Re-check each theorem exists in the compiled Props file and collect
    what Print Assumptions says about it."""
    scratch.mkdir(parents=True, exist_ok=True)
    f = scratch / f"assume_{pid}.v"
    lines = [f"From Cylc Require Import Props.{pid}."]
    for n in names:
        lines.append(f'Goal True. idtac "@@BEGIN {n}". exact I. Qed.')
        lines.append(f"Print Assumptions {pid}.{n}.")
    lines.append('Goal True. idtac "@@END". exact I. Qed.')
    f.write_text("\n".join(lines) + "\n")
    rc, out = sh(["coqc", "-Q", str(THEORIES), "Cylc", str(f)], cwd=scratch, timeout=600)
    res = {}
    if rc != 0:
        return {n: {"ok": False, "text": out[-2000:]} for n in names}
    parts = re.split(r"@@BEGIN (\S+)\n", out)
    for i in range(1, len(parts), 2):
        text = parts[i + 1].split("@@END")[0].strip()
        res[parts[i]] = {"ok": True, "text": text}
    for n in names:
        res.setdefault(n, {"ok": False, "text": "missing"})
    return res


# axioms of the standard library that are acceptable (named in the trusted base)
ALLOWED_AXIOMS = (
    "functional_extensionality_dep", "propositional_extensionality",
    "classic", "proof_irrelevance", "JMeq_eq", "Eqdep.Eq_rect_eq.eq_rect_eq",
    "eq_rect_eq", "constructive_definite_description", "excluded_middle",
    "ClassicalDedekindReals", "sig_forall_dec", "sig_not_dec",
)


def assumptions_ok(text: str) -> bool:
    if "Closed under the global context" in text:
        return True
    names = re.findall(r"^([A-Za-z_][\w.']*)\s*:", text, flags=re.M)
    return all(any(n.endswith(a) for a in ALLOWED_AXIOMS) for n in names)


# --------------------------------------------------------------------------
# implementation runs
# --------------------------------------------------------------------------
def run_impl(prop_mod: str, stream: Stream, cases: list, seed: int, force_hs=None) -> list:
    """Run stream.impl(cases) in /venv/bin/python subprocesses against /repo,
    sharded so that each shard has its own PYTHONHASHSEED."""
    if not cases:
        return []
    ckey = None
    if getattr(stream, "cache_key", None) and force_hs is None and os.environ.get("VERIF_NOCACHE") != "1":
        h = hashlib.sha1()
        h.update(repo_hash().encode())
        h.update(json.dumps([stream.cache_key, seed, cases], sort_keys=True, default=str).encode())
        for f in sorted((VERIF / "vp" / "sched").glob("*.py")):
            h.update(f.read_bytes())
        ckey = CACHE / "impl" / (h.hexdigest() + ".json")
        if ckey.exists():
            try:
                return json.loads(ckey.read_text())
            except Exception:
                pass
    n = max(1, min(stream.n_hashseeds, len(cases)))
    shards = [list(range(i, len(cases), n)) for i in range(n)]
    results: list = [None] * len(cases)

    def one(si):
        idxs = shards[si]
        hs = force_hs if force_hs is not None else (seed * 7919 + si * 104729 + 1) % 4294967295
        env = dict(os.environ)
        env.update({
            "PYTHONPATH": f"{REPO}:{VERIF}",
            "PYTHONHASHSEED": str(hs),
            "PATH": "/venv/bin:" + env.get("PATH", ""),
            "PYTHONDONTWRITEBYTECODE": "1",
            "CYLC_FLOW_VERIF": "1",
        })
        scratch = None
        if stream.needs_scratch_home:
            scratch = Path(f"/var/tmp/vp-{os.getpid()}-{stream.name}-{si}")
            shutil.rmtree(scratch, ignore_errors=True)
            scratch.mkdir(parents=True)
            env["HOME"] = str(scratch)
            env["CYLC_CONF_PATH"] = str(scratch / "conf")
            (scratch / "conf").mkdir()
            env["TMPDIR"] = str(scratch)
        payload = json.dumps({"cases": [cases[i] for i in idxs], "hashseed": hs})
        try:
            p = subprocess.run(
                [PY, str(VERIF / "vp" / "implrun.py"), prop_mod, stream.name],
                input=payload, env=env, text=True, timeout=stream.impl_timeout,
                stdout=subprocess.PIPE, stderr=subprocess.PIPE,
                cwd=str(scratch) if scratch else str(VERIF))
            if p.returncode != 0:
                err = (p.stderr or "")[-3000:]
                out = [{"__harness_error__": f"impl subprocess rc={p.returncode}: {err}"}] * len(idxs)
            else:
                # results are on the last line
                out = json.loads(p.stdout.strip().splitlines()[-1])
        except subprocess.TimeoutExpired:
            out = [{"__harness_error__": "impl subprocess timeout"}] * len(idxs)
        finally:
            if scratch:
                shutil.rmtree(scratch, ignore_errors=True)
        for i, r in zip(idxs, out):
            if isinstance(r, dict):
                r.setdefault("__hashseed__", hs)
            results[i] = r

    with cf.ThreadPoolExecutor(max_workers=NPROC) as ex:
        list(ex.map(one, range(n)))
    if ckey is not None and not any(isinstance(r, dict) and "__harness_error__" in r for r in results):
        ckey.parent.mkdir(parents=True, exist_ok=True)
        tmp = ckey.with_suffix(f".tmp{os.getpid()}")
        tmp.write_text(json.dumps(results, default=str))
        os.replace(tmp, ckey)
    return results


_REPO_HASH = None


def repo_hash() -> str:
    """content hash of /repo's python sources (cache key: any edit invalidates)"""
    global _REPO_HASH
    if _REPO_HASH is None:
        h = hashlib.sha1()
        for f in sorted((REPO / "cylc").rglob("*")):
            if f.is_file() and f.suffix in (".py", ".cylc", ".json", ".jinja2", ".sh", ""):
                try:
                    h.update(str(f.relative_to(REPO)).encode())
                    h.update(f.read_bytes())
                except OSError:
                    pass
        _REPO_HASH = h.hexdigest()
    return _REPO_HASH


def model_hash(coq_import: str) -> str:
    h = hashlib.sha1()
    for m in re.findall(r"(?:Model|Base|Gen|Proofs)\.[A-Za-z0-9_]+", coq_import):
        for r in dep_closure(m.replace(".", "/") + ".v"):
            f = THEORIES / r
            if f.exists():
                h.update(f.read_bytes())
    return h.hexdigest()


# --------------------------------------------------------------------------
# running the model inside Coq
# --------------------------------------------------------------------------
def run_coq_cases(pid: str, stream: Stream, terms: list[str], scratch: Path):
    """Write cases_k.v files, evaluate bad_indices with vm_compute.
    Returns (list of bad global indices, error text or None)."""
    scratch.mkdir(parents=True, exist_ok=True)
    files = []
    for k in range(0, len(terms), stream.shard_size):
        chunk = terms[k:k + stream.shard_size]
        f = scratch / f"cases_{re.sub(r'[^A-Za-z0-9]', '_', stream.name)}_{k // stream.shard_size}.v"
        body = [
            "From Coq Require Import List ZArith String Bool.",
            "From Cylc Require Import Base.Util.",
            stream.coq_import,
            "Import ListNotations.",
            "Definition cases := [",
            ";\n".join(chunk),
            "].",
            f"Eval vm_compute in (bad_indices {stream.check_fn} cases).",
        ]
        f.write_text("\n".join(body) + "\n")
        files.append((k, f))

    mh = model_hash(stream.coq_import) if getattr(stream, "cache_key", None) else None

    def one(kf):
        k, f = kf
        cfile = None
        if mh is not None and os.environ.get("VERIF_NOCACHE") != "1":
            cfile = CACHE / "coq" / (hashlib.sha1((mh + f.read_text()).encode()).hexdigest() + ".json")
            if cfile.exists():
                try:
                    return k, json.loads(cfile.read_text()), None
                except Exception:
                    pass
        rc, out = sh(["coqc", "-Q", str(THEORIES), "Cylc", "-w", "-all", f.name],
                     cwd=scratch, timeout=900)
        if rc != 0:
            return k, None, out[-3000:]
        m = re.search(r"=\s*(\[.*?\])\s*:\s*list nat", out, flags=re.S)
        if not m:
            return k, None, "unparsable coqc output: " + out[-1000:]
        idx = [int(x) for x in re.findall(r"\d+", m.group(1))]
        if cfile is not None:
            cfile.parent.mkdir(parents=True, exist_ok=True)
            tmp = cfile.with_suffix(f".tmp{os.getpid()}")
            tmp.write_text(json.dumps(idx))
            os.replace(tmp, cfile)
        return k, idx, None

    bad, err = [], None
    with cf.ThreadPoolExecutor(max_workers=NPROC) as ex:
        for k, idx, e in ex.map(one, files):
            if e:
                err = (err or "") + f"\n[{stream.name} shard {k}] {e}"
            else:
                bad.extend(k + i for i in idx)
    return sorted(bad), err


def show_model(stream: Stream, term: str, scratch: Path) -> str:
    if not stream.show_fn:
        return ""
    f = scratch / f"show_{re.sub(r'[^A-Za-z0-9]', '_', stream.name)}.v"
    f.write_text("\n".join([
        "From Coq Require Import List ZArith String Bool.",
        "From Cylc Require Import Base.Util.",
        stream.coq_import, "Import ListNotations.",
        f"Eval vm_compute in ({stream.show_fn} {term}).", ""]))
    rc, out = sh(["coqc", "-Q", str(THEORIES), "Cylc", "-w", "-all", f.name],
                 cwd=scratch, timeout=300)
    return out[-4000:]


# --------------------------------------------------------------------------
# known findings
# --------------------------------------------------------------------------
def load_known(pid: str):
    out = []
    p = VERIF / "known_findings.json"
    if p.exists():
        out += json.loads(p.read_text()).get("findings", [])
    d = VERIF / "known_findings.d"
    if d.is_dir():
        for f in sorted(d.glob("*.json")):
            out += json.loads(f.read_text()).get("findings", [])
    # known_findings.d is worker scratch (not committed; vp/merge_findings.py folds it into the single file)
    uniq = {}
    for f in out:
        uniq[(f.get("property"), f.get("signature"))] = f
    return [f for f in uniq.values() if f.get("property") == pid]


# --------------------------------------------------------------------------
# the pipeline
# --------------------------------------------------------------------------
def load_prop(pid: str):
    sys.path.insert(0, str(VERIF))
    return importlib.import_module(f"vp.props.{pid.lower()}")


def run_check(pid: str, tier: str, seed: int, replay: str | None = None) -> int:
    t0 = time.time()
    mod = load_prop(pid)
    streams: list[Stream] = mod.STREAMS
    scratch = CACHE / f"run-{pid}-{os.getpid()}"
    shutil.rmtree(scratch, ignore_errors=True)
    scratch.mkdir(parents=True)
    replays = VERIF / "evidence" / "replays"
    replays.mkdir(parents=True, exist_ok=True)
    rng = random.Random(seed)
    broken: list[dict] = []      # obligations / correspondences that no longer check
    failures: list[dict] = []    # concrete failing inputs on the implementation
    cov = {"evaluations": 0, "distinct_nontrivial": 0, "samples": [],
           "traces_validated_against_impl": 0, "streams": {}}
    keys = set()

    if replay:
        return run_replay(pid, mod, replay)

    # 1. lint
    for b in lint():
        broken.append({"kind": "lint", "name": b})

    # 2. gen
    gens = getattr(mod, "GEN", [])
    if gens:
        from vp import gen as genpkg
        for g in gens:
            try:
                genpkg.run(g)
            except Exception as e:  # fail closed
                broken.append({"kind": "gen", "name": g, "detail": f"{type(e).__name__}: {e}"})

    # 3. prove
    prop_v = THEORIES / "Props" / f"{pid}.v"
    names = theorem_names(prop_v)
    ok, out = build_prop(pid)
    assum = {}
    discharged = 0
    if not ok:
        m = re.search(r'File "([^"]+)", line (\d+).*?\n(Error:.*?)(?:\n\n|\Z)', out, flags=re.S)
        detail = (m.group(0) if m else out[-1500:])[:2000]
        broken.append({"kind": "proof", "name": f"Props/{pid}.v", "detail": detail})
    else:
        assum = print_assumptions(pid, names, scratch)
        for n in names:
            a = assum[n]
            if a["ok"] and assumptions_ok(a["text"]):
                discharged += 1
            else:
                broken.append({"kind": "theorem", "name": n, "detail": a["text"][:1500]})
    if tier == "thorough" and ok and os.environ.get("VERIF_COQCHK", "1") == "1":
        rc, chk = sh(["timeout", "900", "coqchk", "-silent", "-o", "-Q", str(THEORIES), "Cylc",
                      f"Cylc.Props.{pid}"], cwd=COQ, timeout=930)
        cov["coqchk"] = "ok" if rc == 0 else f"rc={rc}"
        cov["coqchk_axioms"] = re.findall(r"^\s+(\S+)$", chk.split("Axioms:")[-1], flags=re.M)[:40] if "Axioms:" in chk else []
        if rc != 0:
            broken.append({"kind": "coqchk", "name": f"Props/{pid}.vo", "detail": chk[-1500:]})

    # 4/5. correspond + monitor, per stream
    for st in streams:
        info = {"cases": 0, "modelled": 0, "model_disagreements": 0, "oracle_failures": 0,
                "kinds": {}}
        cases = list(st.corpus()) + list(st.gen(rng, tier))
        results = run_impl(mod.__name__, st, cases, seed)
        terms, term_idx = [], []
        for i, (c, r) in enumerate(zip(cases, results)):
            if isinstance(r, dict) and "__harness_error__" in r:
                broken.append({"kind": "harness", "name": st.name, "detail": r["__harness_error__"]})
                break
            kind = c.get("kind", "valid") if isinstance(c, dict) else "valid"
            info["kinds"][kind] = info["kinds"].get(kind, 0) + 1
            f = st.oracle(c, r)
            if f:
                info["oracle_failures"] += 1
                failures.append({"stream": st, "case": c, "result": r, "failure": f})
            k = st.key(c, r)
            if k is not None and (st.name, k) not in keys:
                keys.add((st.name, k))
            t = st.coq_case(c, r)
            if t is not None:
                terms.append(t)
                term_idx.append(i)
        info["cases"] = len(cases)
        info["modelled"] = len(terms)
        bad, err = run_coq_cases(pid, st, terms, scratch) if terms else ([], None)
        if err:
            broken.append({"kind": "correspondence-run", "name": st.name, "detail": err[-2000:]})
        info["model_disagreements"] = len(bad)
        failing_idx = {id(f["case"]) for f in failures}
        # a disagreement on a case whose only oracle failure is an OPEN known finding is attributed to that
        # finding (once a defect has manifested the model no longer describes the run)
        open_known = {k["signature"] for k in load_known(pid) if k.get("status") == "open"}
        known_case = {id(f["case"]) for f in failures
                      if f["stream"] is st and st.classify(f["case"], f["result"], f["failure"]) in open_known}
        attributed = [b for b in bad if id(cases[term_idx[b]]) in known_case]
        bad = [b for b in bad if id(cases[term_idx[b]]) not in known_case]
        info["disagreements_attributed_to_known_findings"] = len(attributed)
        for b in bad[:5]:
            ci = term_idx[b]
            detail = {"case": cases[ci], "impl": results[ci],
                      "model": show_model(st, terms[b], scratch)}
            broken.append({"kind": "correspondence", "name": st.name, "detail": detail,
                           "has_oracle_failure": id(cases[ci]) in failing_idx})
        cov["evaluations"] += len(cases)
        cov["traces_validated_against_impl"] += len(terms) - len(bad)
        cov["streams"][st.name] = info
        for c, r in list(zip(cases, results))[:2]:
            cov["samples"].append({"stream": st.name, "case": c, "impl": r})
        if not st.rule:
            st.rule = "see stream"
    cov["distinct_nontrivial"] = len(keys)

    # 6. search: something broke but no concrete failing input yet
    if broken and not failures:
        srng = random.Random(seed + 1)
        for st in streams:
            try:
                cases = st.search(srng, tier)
            except Exception:
                cases = []
            if not cases:
                continue
            results = run_impl(mod.__name__, st, cases, seed + 1)
            for c, r in zip(cases, results):
                if isinstance(r, dict) and "__harness_error__" in r:
                    break
                f = st.oracle(c, r)
                if f:
                    failures.append({"stream": st, "case": c, "result": r, "failure": f})
            cov["search_evaluations"] = cov.get("search_evaluations", 0) + len(cases)
            if failures:
                break

    # 7. known findings, shrink, report
    known = load_known(pid)
    open_sigs = {k["signature"]: k for k in known if k.get("status") == "open"}
    seen_known, violations = {}, []
    by_sig = {}
    for f in failures:
        st = f["stream"]
        sig = st.classify(f["case"], f["result"], f["failure"])
        f["signature"] = sig
        by_sig.setdefault(sig, []).append(f)
    for sig, fs in by_sig.items():
        if sig in open_sigs:
            seen_known[sig] = fs[0]
            continue
        f = min(fs, key=lambda x: len(json.dumps(x["case"], default=str)))
        violations.append(f)
    violations.sort(key=lambda x: len(json.dumps(x["case"], default=str)))
    n_unlisted = len(violations)
    violations = [shrink_failure(mod, f, seed) for f in violations[:3]]
    for sig, k in open_sigs.items():
        if sig in seen_known:
            print(f"KNOWN-FINDING: property={pid} {k['what']}")
        else:
            print(f"KNOWN-FINDING: property={pid} {k['what']} (not reproduced by this run's cases)")
    lines = []
    for f in violations:
        path = write_replay(pid, replays, {
            "property": pid, "kind": "failing-input", "stream": f["stream"].name,
            "case": f["case"], "impl_result": f["result"], "failure": f["failure"],
            "signature": f["signature"], "unlisted_failure_signatures_in_this_run": n_unlisted,
            "replay_cmd": f"./vp/check.py {pid} --replay {{this file}}"})
        lines.append(f"VIOLATION property={pid} replay={path}")
    if broken and not violations:
        path = write_replay(pid, replays, {
            "property": pid, "kind": "no-failing-input-found",
            "broken": [{k: v for k, v in b.items()} for b in broken[:10]],
            "searched": cov.get("search_evaluations", 0),
            "note": "a proof obligation, generator or correspondence no longer checks; "
                    "no concrete failing input was found on the implementation"})
        lines.append(f"VIOLATION property={pid} replay={path} no-failing-input-found")
    for ln in lines:
        print(ln)

    # 8. evidence
    wall = time.time() - t0
    ev = {
        "property_id": pid, "tier": tier, "seed": seed, "level": "proof",
        "coverage": {
            "obligations": len(names) + len(gens),
            "discharged": discharged + len(gens) - sum(1 for b in broken if b["kind"] == "gen"),
            "checker_cmd": f"make -C coq theories/Props/{pid}.vo (coqc 8.16.1, full .vo) + Print Assumptions"
                           + ("; coqchk -o" if tier == "thorough" else ""),
            "trusted_base": list(getattr(mod, "TRUSTED", [])) + [
                "Coq 8.16.1 kernel and VM (vm_compute); no native_compute",
                "correspondence harness vp/core.py, vp/implrun.py and the stream's generator/printer",
            ],
            "theorems": names,
            "assumptions_printed": {n: a["text"][:400] for n, a in assum.items()},
            "rule": " | ".join(f"{st.name}: {st.rule}" for st in streams),
            **cov,
            "broken": [b["kind"] + ":" + str(b["name"]) for b in broken],
            "known_findings_reproduced": sorted(seen_known),
        },
        "assumptions": list(getattr(mod, "ASSUMES", [])),
        "wall_s": round(wall, 2),
        "violations": len(lines),
    }
    (VERIF / "evidence").mkdir(exist_ok=True)
    (VERIF / "evidence" / f"{pid}.json").write_text(json.dumps(ev, indent=1, default=str) + "\n")
    shutil.rmtree(scratch, ignore_errors=True)
    st_txt = "FAIL" if lines else "ok"
    print(f"[{pid}] {st_txt}: theorems {discharged}/{len(names)}, cases {cov['evaluations']}, "
          f"model-agree {cov['traces_validated_against_impl']}, distinct {cov['distinct_nontrivial']}, "
          f"known {len(seen_known)}, {wall:.1f}s")
    return 1 if lines else 0


def write_replay(pid, replays: Path, obj) -> str:
    txt = json.dumps(obj, indent=1, default=str, sort_keys=True)
    h = hashlib.sha1(txt.encode()).hexdigest()[:10]
    p = replays / f"{pid}-{h}.json"
    p.write_text(txt + "\n")
    return str(p)


def shrink_failure(mod, f, seed, budget=60):
    st = f["stream"]
    cur = f
    n = 0
    improved = True
    while improved and n < budget:
        improved = False
        for cand in st.shrink(cur["case"]):
            n += 1
            if n > budget:
                break
            r = run_impl(mod.__name__, st, [cand], seed)[0]
            if isinstance(r, dict) and "__harness_error__" in r:
                continue
            fl = st.oracle(cand, r)
            if fl and st.classify(cand, r, fl) == cur["signature"]:
                cur = {"stream": st, "case": cand, "result": r, "failure": fl,
                       "signature": cur["signature"]}
                improved = True
                break
    return cur


def run_replay(pid, mod, path) -> int:
    obj = json.loads(Path(path).read_text())
    if obj.get("kind") != "failing-input":
        print(f"replay {path}: no concrete input recorded ({obj.get('kind')}); broken items:")
        print(json.dumps(obj.get("broken"), indent=1)[:4000])
        return 1
    st = next(s for s in mod.STREAMS if s.name == obj["stream"])
    hs = (obj.get("impl_result") or {}).get("__hashseed__") if isinstance(obj.get("impl_result"), dict) else None
    r = run_impl(mod.__name__, st, [obj["case"]], 0, force_hs=hs)[0]
    f = st.oracle(obj["case"], r)
    print(json.dumps({"case": obj["case"], "impl": r, "oracle": f, "recorded_hashseed": hs}, indent=1, default=str))
    if f:
        print(f"VIOLATION property={pid} replay={path}")
        return 1
    print("replay: the implementation satisfies the oracle on this input now")
    return 0
