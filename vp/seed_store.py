#!/usr/bin/env python3
"""seed_store.py Cxx [k] -- keep a confirmed seeded change under /verif/seeded/Cxx/ (patch[k].diff, demo[k].py,
meta[k].json) with what the evaluation (vp/seed_eval.sh -> /var/tmp/seedeval/Cxx[-k].result) observed."""
import json, re, shutil, sys
from pathlib import Path
pid = sys.argv[1]
k = sys.argv[2] if len(sys.argv) > 2 and sys.argv[2] not in ("", "1", "-") else ""
src = Path(f"/tmp/seed/{pid}.out")
dst = Path(f"/verif/seeded/{pid}")
dst.mkdir(parents=True, exist_ok=True)
res = Path(f"/var/tmp/seedeval/{pid}{'-' + k if k else ''}.result").read_text()
meta = json.loads((src / f"meta{k}.json").read_text())
meta["property"] = pid
meta["patch"] = f"patch{k}.diff"
meta["demo"] = f"demo{k}.py"
m = re.search(r"DEMO-PATCHED exit=(\d+)", res); meta["demo_exit_with_patch"] = int(m.group(1)) if m else None
m = re.search(r"DEMO-CLEAN exit=(\d+)", res); meta["demo_exit_without_patch"] = int(m.group(1)) if m else None
m = re.search(r"CHECK exit=(\d+)", res); rc = int(m.group(1)) if m else None
line = re.findall(r"^\[C\d+\].*$", res, flags=re.M)
viol = re.findall(r"^VIOLATION property=.*$", res, flags=re.M)
meta["caught_by"] = (f"./vp/check.py {pid} (quick)" if rc == 1 else "MISSED by the quick check") if rc is not None else "not run"
meta["caught_how"] = (line[-1] if line else "") + (" | " + viol[0].split(" replay=")[0] + (" no-failing-input-found" if viol[0].endswith("no-failing-input-found") else " with a failing input (replay)") if viol else "")
t = re.findall(r"^(?:=+ )?(\d+ failed.*|\d+ passed.*)$", res, flags=re.M)
if t:
    meta["tests_confirmed"] = t[-1]
meta.setdefault("tests_confirmed", "full suite reported by the seeding agent (see tests_run); own confirmation pending")
for a, b in ((f"patch{k}.diff", f"patch{k}.diff"), (f"demo{k}.py", f"demo{k}.py")):
    shutil.copy(src / a, dst / b)
try:
    old = json.loads((dst / f"meta{k}.json").read_text())
    if old.get("strengthened") and not meta.get("strengthened"):
        meta["strengthened"] = old["strengthened"]
except Exception:
    pass
if len(sys.argv) > 3:
    meta["strengthened"] = sys.argv[3]
(dst / f"meta{k}.json").write_text(json.dumps(meta, indent=1) + "\n")
print(pid, k or "1", meta["caught_by"], "|", meta["caught_how"][:150])
