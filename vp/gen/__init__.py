"""Generators: /repo source -> coq/theories/Gen/*.v (fail closed)."""
import importlib


def run(name: str):
    mod = importlib.import_module(f"vp.gen.{name}")
    return mod.generate()


def write_if_changed(path, text):
    from pathlib import Path
    p = Path(path)
    if not p.exists() or p.read_text() != text:
        p.parent.mkdir(parents=True, exist_ok=True)
        p.write_text(text)
        return True
    return False
