"""Gen/TaskMsgTables.v — the tables that Model/TaskMsg.v (C09, C10, C02)
case-splits on, read from the *current* /repo source:

* `task_state.TASK_STATUSES_ORDERED`  -> `statuses_ordered`, `status_rank`
  (the order used by `TaskState.is_gt` / `is_gte`);
* `TaskOutputs.get_incomplete_implied` evaluated on a fresh outputs object for
  every standard output -> `implied_std`;
* the guards of `TaskEventsManager.process_message`, extracted from its AST:
  for each message branch (`message == self.EVENT_X` / `task_output ==
  self.EVENT_FAILED`) the leading
  `if flag == self.FLAG_RECEIVED and itask.state.is_gt|is_gte(TASK_STATUS_Y): return True`
  -> `guard_of`; and the set literal in
  `if task_output not in {...}: ... set_message_complete` -> `deferred_outputs`;
* the two retry timer keys tested in `_process_message_check`;
* the event-name constants the harness relies on (checked, not printed).

Fail closed: the set of statuses / outputs is fixed by the model's inductive
types; any other shape of the source raises Refuse and the check reports a
broken generator.
"""
import json
import os
import subprocess

from vp import gen
from vp.core import PY, REPO, THEORIES

_PROBE = r'''
import ast, inspect, json, textwrap
from cylc.flow import task_state as S, task_outputs as O
from cylc.flow.task_events_mgr import TaskEventsManager as M
from cylc.flow.task_action_timer import TimerFlags

std = ["expired", "submitted", "submit-failed", "started", "succeeded", "failed"]
implied = {}
for o in std:
    outs = O.TaskOutputs("succeeded")
    for x in std:
        outs.add(x, x)
    implied[o] = list(outs.get_incomplete_implied(o))
# once everything is complete nothing is implied
outs = O.TaskOutputs("succeeded")
for x in std:
    outs.add(x, x)
    outs.set_message_complete(x)
all_done = {o: list(outs.get_incomplete_implied(o)) for o in std}

src = textwrap.dedent(inspect.getsource(M.process_message))
fn = ast.parse(src).body[0]

def name_of(node):
    # self.EVENT_X / self.FLAG_X / TASK_STATUS_X / TASK_OUTPUT_X
    if isinstance(node, ast.Attribute) and isinstance(node.value, ast.Name) and node.value.id == "self":
        return "self." + node.attr
    if isinstance(node, ast.Name):
        return node.id
    return None

guards = {}
deferred = None
def branch_event(test):
    if (isinstance(test, ast.Compare) and len(test.ops) == 1 and isinstance(test.ops[0], ast.Eq)
            and isinstance(test.left, ast.Name) and test.left.id in ("message", "task_output")):
        n = name_of(test.comparators[0])
        if n and n.startswith("self.EVENT_"):
            return (test.left.id, n[len("self."):])
    return None

def leading_guard(body):
    st = body[0]
    if not isinstance(st, ast.If) or not isinstance(st.test, ast.BoolOp) or not isinstance(st.test.op, ast.And):
        return None
    vals = st.test.values
    if len(vals) != 2:
        return "BAD"
    a, b = vals
    ok_a = (isinstance(a, ast.Compare) and isinstance(a.left, ast.Name) and a.left.id == "flag"
            and len(a.ops) == 1 and isinstance(a.ops[0], ast.Eq) and name_of(a.comparators[0]) == "self.FLAG_RECEIVED")
    ok_b = (isinstance(b, ast.Call) and isinstance(b.func, ast.Attribute) and b.func.attr in ("is_gt", "is_gte")
            and ast.unparse(b.func.value) == "itask.state" and len(b.args) == 1 and isinstance(b.args[0], ast.Name))
    ok_body = (len(st.body) == 1 and isinstance(st.body[0], ast.Return)
               and isinstance(st.body[0].value, ast.Constant) and st.body[0].value.value is True and not st.orelse)
    if not (ok_a and ok_b and ok_body):
        return "BAD"
    return [b.func.attr, b.args[0].id]

chain = []
for node in fn.body:
    if isinstance(node, ast.If):
        ev = branch_event(node.test)
        if ev:
            cur = node
            while True:
                ev = branch_event(cur.test)
                chain.append([ev, leading_guard(cur.body) if ev else None])
                if len(cur.orelse) == 1 and isinstance(cur.orelse[0], ast.If):
                    cur = cur.orelse[0]
                else:
                    break
        t = node.test
        if (isinstance(t, ast.Compare) and len(t.ops) == 1 and isinstance(t.ops[0], ast.NotIn)
                and isinstance(t.left, ast.Name) and t.left.id == "task_output"
                and isinstance(t.comparators[0], ast.Set)):
            deferred = [name_of(e) for e in t.comparators[0].elts]

print(json.dumps({
    "ordered": S.TASK_STATUSES_ORDERED,
    "implied": implied, "all_done": all_done,
    "chain": chain, "deferred": deferred,
    "outconst": {k: getattr(O, k) for k in dir(O) if k.startswith("TASK_OUTPUT_")},
    "statconst": {k: getattr(S, k) for k in dir(S) if k.startswith("TASK_STATUS_") and isinstance(getattr(S, k), str)},
    "events": {k: getattr(M, k) for k in ("EVENT_FAILED", "EVENT_STARTED", "EVENT_SUBMITTED", "EVENT_EXPIRED",
                                          "EVENT_SUBMIT_FAILED", "EVENT_SUCCEEDED")},
    "flags": {k: getattr(M, k) for k in ("FLAG_INTERNAL", "FLAG_RECEIVED", "FLAG_POLLED")},
    "timerflags": [TimerFlags.EXECUTION_RETRY, TimerFlags.SUBMISSION_RETRY],
}))
'''


class Refuse(Exception):
    pass


STATUS = {"waiting": "Waiting", "expired": "Expired", "preparing": "Preparing",
          "submit-failed": "SubmitFailed", "submitted": "Submitted", "running": "Running",
          "failed": "Failed", "succeeded": "Succeeded"}
OUT = {"expired": "SoExpired", "submitted": "SoSubmitted", "submit-failed": "SoSubmitFailed",
       "started": "SoStarted", "succeeded": "SoSucceeded", "failed": "SoFailed"}
EVENT_MSG = {"EVENT_STARTED": "GStarted", "EVENT_SUCCEEDED": "GSucceeded", "EVENT_EXPIRED": "GExpired",
             "EVENT_FAILED": "GFailed", "EVENT_SUBMIT_FAILED": "GSubFail", "EVENT_SUBMITTED": "GSubmitted"}


def generate():
    env = dict(os.environ)
    env["PYTHONPATH"] = str(REPO)
    env["PYTHONDONTWRITEBYTECODE"] = "1"
    p = subprocess.run([PY, "-c", _PROBE], text=True, capture_output=True, timeout=120, env=env)
    if p.returncode != 0:
        raise Refuse("probe failed: " + p.stderr[-800:])
    d = json.loads(p.stdout.strip().splitlines()[-1])

    order = d["ordered"]
    if sorted(order) != sorted(STATUS) or len(order) != len(STATUS):
        raise Refuse(f"TASK_STATUSES_ORDERED is not a permutation of the 8 modelled statuses: {order!r}")
    for o, l in d["implied"].items():
        if o not in OUT or any(x not in OUT for x in l):
            raise Refuse(f"get_incomplete_implied({o!r}) = {l!r}: unexpected output")
    if any(d["all_done"].values()):
        raise Refuse(f"get_incomplete_implied returns completed outputs: {d['all_done']!r}")
    ev = d["events"]
    expect_ev = {"EVENT_FAILED": "failed", "EVENT_STARTED": "started", "EVENT_SUBMITTED": "submitted",
                 "EVENT_EXPIRED": "expired", "EVENT_SUBMIT_FAILED": "submission failed",
                 "EVENT_SUCCEEDED": "succeeded"}
    if ev != expect_ev:
        raise Refuse(f"event message texts changed: {ev!r}")
    if d["flags"] != {"FLAG_INTERNAL": "(internal)", "FLAG_RECEIVED": "(received)", "FLAG_POLLED": "(polled)"}:
        raise Refuse(f"flags changed: {d['flags']!r}")
    if d["timerflags"] != ["execution-retry", "submission-retry"]:
        raise Refuse(f"timer keys changed: {d['timerflags']!r}")
    # the branch chain of process_message: the modelled order and comparands
    chain = d["chain"]
    want = [("message", "EVENT_STARTED"), ("message", "EVENT_SUCCEEDED"), ("message", "EVENT_EXPIRED"),
            ("task_output", "EVENT_FAILED"), ("message", "EVENT_SUBMIT_FAILED"), ("message", "EVENT_SUBMITTED")]
    got = [tuple(c[0]) for c in chain if c[0]]
    if got != want:
        raise Refuse(f"process_message branch chain changed: {got!r}")
    if [c[0] for c in chain[:len(want)]] != [list(w) for w in want]:
        raise Refuse("process_message: event branches are not the leading branches of the chain")
    guards = {}
    for (kind, evname), g in [(tuple(c[0]), c[1]) for c in chain if c[0]]:
        if g == "BAD":
            raise Refuse(f"process_message: unrecognised guard in branch {evname}")
        if g is None:
            guards[evname] = "None"
        else:
            cmp_, const = g
            val = d["statconst"].get(const)
            if val not in STATUS:
                raise Refuse(f"guard of {evname}: unknown status constant {const}")
            guards[evname] = f"Some ({'CGt' if cmp_ == 'is_gt' else 'CGte'}, {STATUS[val]})"
    deferred = d["deferred"]
    if deferred is None:
        raise Refuse("process_message: `task_output not in {...}` test not found")
    dvals = []
    for n in deferred:
        v = d["outconst"].get(n)
        if v not in OUT:
            raise Refuse(f"deferred output set: unexpected element {n!r}")
        dvals.append(OUT[v])

    L = []
    L.append("(* GENERATED by vp/gen/taskmsg_tables.py from the /repo source - do not edit. *)")
    L.append("From Coq Require Import List.")
    L.append("Import ListNotations.")
    L.append("")
    L.append("Inductive status := Waiting | Expired | Preparing | SubmitFailed | Submitted | Running | Failed | Succeeded.")
    L.append("(* task_state.TASK_STATUSES_ORDERED *)")
    L.append("Definition statuses_ordered : list status := [" + "; ".join(STATUS[s] for s in order) + "].")
    L.append("Definition status_rank (s : status) : nat :=\n  match s with\n" +
             "\n".join(f"  | {STATUS[s]} => {i}" for i, s in enumerate(order)) + "\n  end.")
    L.append("")
    L.append("Inductive stdout := SoExpired | SoSubmitted | SoSubmitFailed | SoStarted | SoSucceeded | SoFailed.")
    L.append("(* TaskOutputs.get_incomplete_implied on an object with nothing complete *)")
    L.append("Definition implied_std (o : stdout) : list stdout :=\n  match o with\n" +
             "\n".join(f"  | {OUT[o]} => [" + "; ".join(OUT[x] for x in d["implied"][o]) + "]" for o in OUT) +
             "\n  end.")
    L.append("(* outputs that process_message does not complete up front (`task_output not in {...}`) *)")
    L.append("Definition deferred_outputs : list stdout := [" + "; ".join(sorted(dvals)) + "].")
    L.append("")
    L.append("(* the `flag == FLAG_RECEIVED and itask.state.is_gt/is_gte(STATUS)` -> `return True` guards *)")
    L.append("Inductive cmp := CGt | CGte.")
    L.append("Inductive gmsg := GSubmitted | GStarted | GSucceeded | GFailed | GSubFail | GExpired.")
    L.append("Definition guard_of (m : gmsg) : option (cmp * status) :=\n  match m with\n" +
             "\n".join(f"  | {EVENT_MSG[e]} => {guards[e]}" for e in EVENT_MSG) + "\n  end.")
    L.append("")
    gen.write_if_changed(THEORIES / "Gen" / "TaskMsgTables.v", "\n".join(L))
    return True
