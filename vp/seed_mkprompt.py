#!/usr/bin/env python3
import sys
pid = sys.argv[1]
t = open('/verif/vp/seed_prompt.txt').read()
print(t.replace('@PROP@', open(f'/tmp/seed/{pid}.prop.txt').read().strip()).replace('@ID@', pid))
