#!/bin/bash
# usage: seed_tests.sh  -- own confirmation that the existing test suite still passes with each kept seeded change
# (scratch worktrees under /var/tmp/seedtests; results into /verif/seeded/<id>/tests<k>.txt; baseline once)
mkdir -p /var/tmp/seedtests
run_suite() {  # dir outfile
  (cd "$1" && PATH=/venv/bin:$PATH timeout 3000 /venv/bin/python -m pytest -q -p no:cacheprovider --timeout=900 -n 4 \
      --deselect tests/integration/tui 2>&1 | grep -E "^(FAILED|ERROR) |passed|failed" | sed 's/ - .*//' > "$2")
}
base=/var/tmp/seedtests/baseline.txt
if [ ! -s "$base" ]; then
  git -C /repo worktree add --detach /var/tmp/seedtests/base HEAD >/dev/null 2>&1
  run_suite /var/tmp/seedtests/base "$base"
  git -C /repo worktree remove --force /var/tmp/seedtests/base
fi
for d in /verif/seeded/C*; do
  id=$(basename $d)
  for p in $d/patch*.diff; do
    k=$(basename $p .diff | sed 's/patch//')
    out=$d/tests$k.txt
    [ -s "$out" ] && continue
    wt=/var/tmp/seedtests/$id$k
    git -C /repo worktree add --detach $wt HEAD >/dev/null 2>&1
    if git -C $wt apply $p 2>/dev/null; then
      run_suite $wt /var/tmp/seedtests/$id$k.txt
      { echo "# pytest -n 4 --deselect tests/integration/tui, with $(basename $p) applied to $(git -C /repo rev-parse --short HEAD)";
        tail -1 /var/tmp/seedtests/$id$k.txt;
        echo "# failures not in the clean-tree baseline run (each to be judged flaky/environmental or real):";
        grep -E "^(FAILED|ERROR) " /var/tmp/seedtests/$id$k.txt | sort > /var/tmp/seedtests/a.txt;
        grep -E "^(FAILED|ERROR) " $base | sort > /var/tmp/seedtests/b.txt;
        comm -23 /var/tmp/seedtests/a.txt /var/tmp/seedtests/b.txt; } > $out
    else
      echo "patch does not apply to current HEAD" > $out
    fi
    git -C /repo worktree remove --force $wt
  done
done
echo ALLDONE
