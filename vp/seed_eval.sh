#!/bin/bash
# usage: seed_eval.sh Cxx [k]   -- confirm seeded change /tmp/seed/Cxx.out/patch[k].diff and run the check against it
# (scratch worktree under /var/tmp/seedeval, removed at the end; results in /var/tmp/seedeval/Cxx[-k].result)
id=$1; k=${2:-}
src=/tmp/seed/$id.out
patch=$src/patch$k.diff; demo=$src/demo$k.py
tag=$id${k:+-$k}
mkdir -p /var/tmp/seedeval
wt=/var/tmp/seedeval/$tag
res=/var/tmp/seedeval/$tag.result
exec > "$res" 2>&1
git -C /repo worktree remove --force "$wt" 2>/dev/null
git -C /repo worktree add --detach "$wt" HEAD >/dev/null 2>&1 || { echo "WORKTREE-FAIL"; exit 2; }
if git -C "$wt" apply "$patch"; then echo "APPLY ok"; else echo "APPLY FAIL"; git -C /repo worktree remove --force "$wt"; exit 2; fi
echo "== files: $(git -C "$wt" diff --stat | tail -1)"
mkdir -p $src/tmp
echo "== demo with patch"
(cd "$wt" && PYTHONPATH="$wt" timeout 600 /venv/bin/python "$demo" 2>&1 | tail -15; echo "DEMO-PATCHED exit=${PIPESTATUS[0]}")
echo "== demo without patch"
(cd /repo && PYTHONPATH=/repo timeout 600 /venv/bin/python "$demo" 2>&1 | tail -5; echo "DEMO-CLEAN exit=${PIPESTATUS[0]}")
echo "== check $id against the patched tree"
(cd /verif && VERIF_REPO="$wt" timeout 3000 ./vp/check.py $id 2>&1 | grep -v "^KNOWN-FINDING" | tail -8; echo "CHECK exit=${PIPESTATUS[0]}")
git -C /verif checkout -- evidence/$id.json 2>/dev/null
if [ -z "$SKIP_TESTS" ]; then
echo "== full test suite with patch"
(cd "$wt" && PATH=/venv/bin:$PATH timeout 3000 /venv/bin/python -m pytest -q -p no:cacheprovider --timeout=900 -n 4 2>&1 | grep -E "^(FAILED|ERROR)|passed|failed" | tail -40)
fi
git -C /repo worktree remove --force "$wt"
rm -rf "$wt"
echo "DONE"
