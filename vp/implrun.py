#!/venv/bin/python
"""Runs one stream's implementation driver inside a subprocess whose
PYTHONHASHSEED / HOME were set by the parent.  stdin: {"cases": [...]};
stdout (last line): JSON list of results."""
import importlib
import io
import json
import sys


def main():
    modname, sname = sys.argv[1], sys.argv[2]
    payload = json.loads(sys.stdin.read())
    mod = importlib.import_module(modname)
    st = next(s for s in mod.STREAMS if s.name == sname)
    real_stdout = sys.stdout
    sys.stdout = io.StringIO()          # keep cylc's chatter off the result channel
    try:
        res = st.impl(payload["cases"])
    finally:
        sys.stdout = real_stdout
    sys.stdout.write("\n" + json.dumps(res, default=str) + "\n")


if __name__ == "__main__":
    main()
