#!/bin/bash
# Build the whole Coq development offline (full .vo build).  cwd = /verif
set -e
cd "$(dirname "$0")/.."
export PATH=/venv/bin:$PATH
/venv/bin/python - <<'PY'
import sys
sys.path.insert(0, '.')
from vp import core, gen
import importlib, pkgutil
import vp.gen as g
for m in pkgutil.iter_modules(g.__path__):
    gen.run(m.name)
core.ensure_makefile()
PY
cd coq
timeout 3000 make -j16 2>&1 | tail -5
echo "setup done"
