(* Props/C36.v — C36 "Configuration processing is idempotent".
   Model: Model/Parsec.v (fileparse.read_and_proc = read lines, inline include
   files, Jinja2, _concatenate, rstrip; the processed dump written by parse();
   parse()'s line parser), tied to cylc/flow/parsec/fileparse.py and include.py
   by the correspondence stream of vp/props/c36.py.  Jinja2 is the arbitrary
   function J, include files the arbitrary table fs; fuel bounds include nesting
   (S f = at least the top-level file can be read).

   [read_and_proc fuel fs J text]   the processed lines of a source text
   [dump L]                         the processed file parse() writes for lines L
   [parse fuel fs J text]           the parsed configuration *)
From Coq Require Import List ZArith Bool Lia.
From Cylc Require Import Base.Util Model.Parsec Proofs.ParsecProofs.
Import ListNotations.
Open Scope Z_scope.

(* The property as stated: parsing the processed dump gives the same
   configuration as parsing the source.  FALSE of the code as it is (see
   c36_idempotent_refuted), hence only a Definition. *)
Definition c36_parse_idempotent_unrestricted : Prop :=
  forall f fs J text L,
    read_and_proc (S f) fs J text = Ok L ->
    parse (S f) fs J (dump L) = parse (S f) fs J text.

(* witness:   [a]
              # see C:\dir\<space>
              x = 1
              y = 2                                                         *)
Definition w_text : str :=
  [91;97;93;10; 35;32;115;101;101;32;67;58;92;100;105;114;92;32;10; 120;32;61;32;49;10; 121;32;61;32;50;10].
Definition w_lines : list str :=
  [[91;97;93]; [35;32;115;101;101;32;67;58;92;100;105;114;92]; [120;32;61;32;49]; [121;32;61;32;50]].
Definition noJ : list str -> option (list str) := fun _ => None.

(* Refutation (the finding): the comment line ends in backslash + space, so it
   is not a continuation in the source, but rstrip (applied after _concatenate)
   leaves it ending in a backslash in the processed dump; processing the dump
   joins it with "x = 1", and the item x disappears from the configuration. *)
Theorem c36_idempotent_refuted :
  read_and_proc 1 [] noJ w_text = Ok w_lines /\
  read_and_proc 1 [] noJ (dump w_lines) <> Ok w_lines /\
  parse 1 [] noJ w_text = Ok [([97], Sect [([120], Leaf [49]); ([121], Leaf [50])])] /\
  parse 1 [] noJ (dump w_lines) = Ok [([97], Sect [([121], Leaf [50])])] /\
  ~ c36_parse_idempotent_unrestricted.
Proof.
  split; [vm_compute; reflexivity|]. split; [vm_compute; discriminate|].
  split; [vm_compute; reflexivity|]. split; [vm_compute; reflexivity|].
  intros H. specialize (H O [] noJ w_text w_lines eq_refl). vm_compute in H. discriminate.
Qed.

(* The restricted statement that holds, for every source, include table and
   Jinja2 behaviour: if no processed line ends in a backslash — and (what the
   include and Jinja2 steps cannot re-trigger) no processed line is an %include
   directive or contains a newline, and the first one is not a Jinja2 shebang:
   hypothesis [good_lines] — then processing the dump reproduces the processed
   lines exactly ... *)
Theorem c36_idempotent : forall f fs J text L,
  read_and_proc (S f) fs J text = Ok L -> L <> [] -> good_lines L = true ->
  read_and_proc (S f) fs J (dump L) = Ok L.
Proof. exact idempotent. Qed.

(* ... and parsing the dump yields exactly the configuration (or the error) that
   parsing the source yields — also for the empty file, whose dump is one
   empty line. *)
Theorem c36_parse_idempotent : forall f fs J text L,
  read_and_proc (S f) fs J text = Ok L -> good_lines L = true ->
  parse (S f) fs J (dump L) = parse (S f) fs J text.
Proof. exact parse_idempotent. Qed.

(* The same holds for ANY function of the processed lines that treats "no lines"
   like "one empty line" — so the result does not rest on the details (or the
   modelled fragment) of the line parser. *)
Theorem c36_any_parser_idempotent : forall (C : Type) (P : list str -> C) f fs J text L,
  P [[]] = P [] ->
  read_and_proc (S f) fs J text = Ok L -> good_lines L = true ->
  rmap P (read_and_proc (S f) fs J (dump L)) = rmap P (read_and_proc (S f) fs J text).
Proof. intros C. exact (@any_parser_idempotent C). Qed.

(* Ingredients with their own meaning: processed lines never carry trailing
   whitespace, and a second rstrip changes nothing. *)
Theorem c36_output_rstripped : forall fuel fs J text L,
  read_and_proc fuel fs J text = Ok L -> forall x, In x L -> rstrip x = x.
Proof. intros fuel fs J text L. unfold read_and_proc. apply proc_lines_rstripped. Qed.

(* ---------- non-vacuity ---------- *)
(* a source with an include, Jinja2 (oracle), a continuation line and a
   multi-line string whose processed lines satisfy [good_lines]:
     #!jinja2 / [a] / %include i / k = 1, \ /   2 / m = '''x / y'''          *)
Definition e_text : str :=
  [35;33;106;105;110;106;97;50;10; 91;97;93;10; 37;105;110;99;108;117;100;101;32;105;10;
   107;32;61;32;49;44;32;92;10; 32;32;50;10; 109;32;61;32;39;39;39;120;10; 121;39;39;39;10].
Definition e_files : files := [([105], [122;32;61;32;51;32;32;10])].       (* i: "z = 3  " *)
(* the Jinja2 oracle drops the shebang line *)
Definition e_J : list str -> option (list str) := fun l => Some (tl l).

Example c36_example :
  exists L, read_and_proc 2 e_files e_J e_text = Ok L /\ good_lines L = true /\
            List.length L = 5%nat /\
            parse 2 e_files e_J e_text =
              Ok [([97], Sect [([122], Leaf [51]); ([107], Leaf [49;44;32;32;32;50]);
                               ([109], Leaf [39;39;39;120;10;121;39;39;39])])] /\
            parse 2 e_files e_J (dump L) = parse 2 e_files e_J e_text.
Proof.
  eexists. split; [vm_compute; reflexivity|]. split; [vm_compute; reflexivity|].
  split; [reflexivity|]. split; vm_compute; reflexivity.
Qed.

(* the witness is excluded by the hypothesis, and only by its backslash clause *)
Example c36_witness_excluded :
  good_lines w_lines = false /\ existsb ends_bs w_lines = true.
Proof. vm_compute. auto. Qed.
