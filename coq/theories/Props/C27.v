(* Props/C27.v — C27 "Reload preserves task state".

   Property text: reloading a workflow definition preserves every pooled task's status, flow numbers, submit
   number, held/queued/runahead flags and completed outputs, keeps the satisfaction of prerequisites that still
   exist in the new definition, and satisfies new prerequisites only from outputs already recorded.  Tasks whose
   definitions were removed are dropped only if they have not started.

   The model (Model/Reload.v: TaskPool._reload_taskdefs, TaskProxy.copy_to_reload_successor,
   TaskPool.check_task_output, queue_if_ready) is tied to /repo by the C27 correspondence streams: every real
   reload of the generated runs is recomputed by [reload_pool] and compared with the real pool inside Coq.
   All theorems quantify over ALL pools, definitions and database contents.

   "Dropped only if not started" is a theorem for all pools since /repo 9a9212a (before, a HELD orphan was
   dropped even when submitted/running: the removal test was `waiting or is_held or is_queued`; the old
   witness is kept as the regression Example [c27_ex_held_orphan_kept] and as a corpus case of the stream).

   One clause of the text is FALSE of the code (and of the faithful model); it is stated in full, refuted by
   a witness, and proved in the restricted form:
   - "queued flag preserved": the reload itself clears is_queued of every task ([c27_queued_refuted]); the main
     loop re-queues the ready ones later in the same iteration ([c27_requeue_restores]) but a task that was
     queued and held stays un-queued ([c27_held_queued_lost_refuted]). *)
From Coq Require Import List Bool NArith.
From Cylc Require Import Base.Util Model.Reload Proofs.ReloadProofs.
Import ListNotations.

(* ------------------------------------------------------------------ which tasks are in the pool afterwards *)

(* The pool after the reload consists, in the same order, of exactly the tasks that are not (orphaned and
   waiting); ids are unchanged and stay unique; nothing is added. *)
Theorem c27_pool_after : forall d db pool,
  map p_id (reload_pool d db pool)
  = map p_id (filter (fun p => negb (orphan d p && removable p)) pool).
Proof. exact reload_pool_ids. Qed.

Theorem c27_pool_no_duplicates : forall d db pool,
  NoDup (map p_id pool) -> NoDup (map p_id (reload_pool d db pool)).
Proof. exact reload_pool_NoDup. Qed.

(* a task is dropped iff its definition was removed and it is waiting *)
Theorem c27_dropped_iff : forall d db pool p,
  NoDup (map p_id pool) -> In p pool ->
  (~ In (p_id p) (map p_id (reload_pool d db pool)) <-> orphan d p = true /\ p_status p = st_waiting).
Proof.
  intros d db pool p ND H. rewrite (dropped_spec d db pool p ND H). unfold removable.
  rewrite N.eqb_eq. tauto.
Qed.

(* a task that is still defined is never dropped *)
Theorem c27_defined_never_dropped : forall d db pool p,
  In p pool -> mem N.eqb (p_name p) (d_new d) = true ->
  In (p_id p) (map p_id (reload_pool d db pool)).
Proof.
  intros d db pool p H D. apply reload_pool_id_In. exists p. split; [exact H|split; [|reflexivity]].
  apply defined_survives; exact D.
Qed.

(* ------------------------------------------------------------------ task state is preserved *)

(* Every task that stays in the pool keeps its id, status, flow numbers, submit number, held and runahead flags,
   manual-submit flag and completed outputs ... *)
Theorem c27_task_state_preserved : forall d db pool p,
  In p pool -> negb (orphan d p && removable p) = true ->
  exists q, In q (reload_pool d db pool) /\
    p_id q = p_id p /\ p_status q = p_status p /\ p_flows q = p_flows p /\ p_submit q = p_submit p /\
    p_held q = p_held p /\ p_runahead q = p_runahead p /\ p_manual q = p_manual p /\ p_outputs q = p_outputs p.
Proof. exact survivor_preserved. Qed.

(* ... and every task in the pool afterwards is such a task (nothing is invented). *)
Theorem c27_nothing_new : forall d db pool q,
  In q (reload_pool d db pool) ->
  exists p, In p pool /\ negb (orphan d p && removable p) = true /\
    p_id q = p_id p /\ p_status q = p_status p /\ p_flows q = p_flows p /\ p_submit q = p_submit p /\
    p_held q = p_held p /\ p_runahead q = p_runahead p /\ p_manual q = p_manual p /\ p_outputs q = p_outputs p.
Proof. exact after_has_origin. Qed.

(* ------------------------------------------------------------------ prerequisites *)

(* A reloaded task has exactly the prerequisite keys of the new definition (same grouping, same order):
   removed prerequisites disappear, added ones appear. *)
Theorem c27_prereq_keys_are_the_new_definition : forall d db p,
  orphan d p = false ->
  map (map fst) (p_prereqs (image d db p)) = newpre_of d p.
Proof. intros d db p O. rewrite (image_defined _ _ _ O). apply reload_proxy_keys. Qed.

(* A key that existed before the reload keeps its satisfaction (when the old prerequisites agree on it; in
   general it takes the value of its last old occurrence, [c27_prereq_existing_general]). *)
Theorem c27_prereq_existing_kept : forall d db p k v v',
  orphan d p = false -> functional (concat (p_prereqs p)) ->
  In (k, v) (concat (p_prereqs p)) -> In (k, v') (concat (p_prereqs (image d db p))) -> v' = v.
Proof.
  intros d db p k v v' O F H H'. rewrite (image_defined _ _ _ O) in H'.
  apply reload_proxy_values in H'. destruct H' as [_ ->]. apply new_value_kept; assumption.
Qed.

Theorem c27_prereq_existing_general : forall d db p k v v',
  orphan d p = false ->
  In (k, v) (concat (p_prereqs p)) -> In (k, v') (concat (p_prereqs (image d db p))) ->
  In (k, v') (concat (p_prereqs p)).
Proof.
  intros d db p k v v' O H H'. rewrite (image_defined _ _ _ O) in H'.
  apply reload_proxy_values in H'. destruct H' as [_ ->].
  destruct (new_value_old db p k v H) as [w [H1 ->]]. exact H1.
Qed.

(* and it is still there if the new definition has it *)
Theorem c27_prereq_existing_present : forall d db p k v,
  orphan d p = false -> functional (concat (p_prereqs p)) ->
  In (k, v) (concat (p_prereqs p)) -> In k (concat (newpre_of d p)) ->
  In (k, v) (concat (p_prereqs (image d db p))).
Proof.
  intros d db p k v O F H N. rewrite (image_defined _ _ _ O).
  rewrite <- (new_value_kept db p k v F H). apply reload_proxy_has; exact N.
Qed.

(* A NEW key is satisfied only if the output is recorded in task_outputs for flow numbers overlapping the task's. *)
Theorem c27_prereq_new_only_from_recorded : forall d db p k,
  orphan d p = false -> ~ In k (map fst (concat (p_prereqs p))) ->
  In (k, true) (concat (p_prereqs (image d db p))) -> recorded db k (p_flows p).
Proof.
  intros d db p k O N H. rewrite (image_defined _ _ _ O) in H. apply reload_proxy_values in H.
  destruct H as [_ H]. rewrite (new_value_new db p k N) in H. apply check_output_sound. symmetry; exact H.
Qed.

(* ... and, when at most one row per task instance overlaps the task's flows, exactly then. *)
Theorem c27_prereq_new_iff_recorded : forall d db p k v,
  orphan d p = false -> ~ In k (map fst (concat (p_prereqs p))) -> one_overlap db (p_flows p) ->
  In (k, v) (concat (p_prereqs (image d db p))) -> (v = true <-> recorded db k (p_flows p)).
Proof.
  intros d db p k v O N U H. rewrite (image_defined _ _ _ O) in H. apply reload_proxy_values in H.
  destruct H as [_ ->]. rewrite (new_value_new db p k N). split.
  - apply check_output_sound.
  - apply check_output_complete; exact U.
Qed.

(* a task in no flow never gets a new prerequisite satisfied *)
Theorem c27_prereq_new_no_flow : forall d db p k v,
  orphan d p = false -> ~ In k (map fst (concat (p_prereqs p))) -> p_flows p = [] ->
  In (k, v) (concat (p_prereqs (image d db p))) -> v = false.
Proof.
  intros d db p k v O N F H. rewrite (image_defined _ _ _ O) in H. apply reload_proxy_values in H.
  destruct H as [_ ->]. rewrite (new_value_new db p k N), F. reflexivity.
Qed.

(* ------------------------------------------------------------------ orphans *)

(* the clause of the property text: a task is dropped only if it has not started (for all pools) *)
Theorem c27_orphans_dropped_only_if_not_started : forall d db pool,
  NoDup (map p_id pool) ->
  forall p, In p pool -> ~ In (p_id p) (map p_id (reload_pool d db pool)) -> started p = false.
Proof.
  intros d db pool ND p H C. apply (dropped_spec d db pool p ND H) in C.
  apply (orphan_dropped_not_started d p). apply survives_spec; exact C.
Qed.

(* the witness that refuted this clause before 9a9212a: task 1/1 is submitted (status 4) and held, its
   definition is removed *)
Definition c27_held_orphan : proxy := mkProxy (1, 1)%N 4%N [1%N] 1%N true false false false [0%N] [] false.

(* a started orphan stays (held or not), unchanged except that it will not spawn children *)
Theorem c27_started_orphan_kept : forall d db pool p,
  In p pool -> orphan d p = true -> started p = true ->
  exists q, In q (reload_pool d db pool) /\ p_id q = p_id p /\ p_status q = p_status p /\
            p_flows q = p_flows p /\ p_submit q = p_submit p /\ p_held q = p_held p /\ p_queued q = p_queued p /\
            p_runahead q = p_runahead p /\ p_outputs q = p_outputs p /\ p_prereqs q = p_prereqs p /\
            p_cut q = true.
Proof.
  intros d db pool p H O S. exists (image d db p). split.
  - apply reload_pool_In. exists p. split; [exact H|split; [|reflexivity]].
    unfold survives, removable. unfold started in S. apply negb_true_iff in S. rewrite O, S. reflexivity.
  - unfold image. rewrite O. cbn. repeat split; reflexivity.
Qed.

(* ------------------------------------------------------------------ unchanged definition, reloading twice *)

(* Reloading an unchanged definition (every pooled task defined, same prerequisite keys) changes nothing but
   the queued flag, which is cleared. *)
Theorem c27_unchanged_definition : forall d db pool,
  (forall p, In p pool -> mem N.eqb (p_name p) (d_new d) = true /\
                          newpre_of d p = map (map fst) (p_prereqs p) /\
                          functional (concat (p_prereqs p)) /\ p_cut p = false) ->
  reload_pool d db pool = map (fun p => set_queued p false) pool.
Proof. exact reload_same. Qed.

(* Reloading the same definition again (whatever the database has become) changes nothing more, except that
   the orphans kept by the first reload lose their (irrelevant) prerequisites and queued flag: the second time
   they are no longer recognised as orphans and are rebuilt from an empty implicit definition. *)
Theorem c27_reload_twice : forall d db db' pool,
  wf_def d ->
  reload_pool (settled d) db' (reload_pool d db pool) = map (forget_undefined d) (reload_pool d db pool).
Proof. exact reload_twice. Qed.

(* idempotence proper, when the first reload kept no orphan *)
Theorem c27_reload_idempotent : forall d db db' pool,
  wf_def d -> (forall p, In p pool -> orphan d p = true -> removable p = true) ->
  reload_pool (settled d) db' (reload_pool d db pool) = reload_pool d db pool.
Proof. exact reload_idempotent. Qed.

(* ------------------------------------------------------------------ the queued flag *)

Definition c27_queued_flag_preserved (d : newdef) (db : dbrows) (pool : list proxy) : Prop :=
  forall p q, In p pool -> In q (reload_pool d db pool) -> p_id q = p_id p -> p_queued q = p_queued p.

(* FALSE of TaskPool.reload: a queued waiting task of an unchanged definition comes out un-queued *)
Definition c27_queued_task (held : bool) : proxy :=
  mkProxy (1, 0)%N 0%N [1%N] 0%N held true false false [] [] false.

Theorem c27_queued_refuted : exists d db pool,
  NoDup (map p_id pool) /\ ~ c27_queued_flag_preserved d db pool.
Proof.
  exists (mkDef [0%N] [0%N] []), [], [c27_queued_task false]. split.
  - repeat constructor; intros [].
  - intros H. specialize (H (c27_queued_task false) (set_queued (c27_queued_task false) false)
                            (or_introl eq_refl) (or_introl eq_refl) eq_refl).
    vm_compute in H. discriminate.
Qed.

(* Later in the same main-loop iteration the scheduler visits the task again: a still-defined task that is
   waiting, not held, not runahead-limited, not manually triggered and ready is queued again. *)
Theorem c27_requeue_restores : forall d db p,
  mem N.eqb (p_name p) (d_new d) = true -> p_status p = st_waiting -> p_held p = false ->
  p_runahead p = false -> p_manual p = false ->
  p_queued (mainloop_visit true (image d db p)) = true.
Proof. exact requeue_restores. Qed.

(* that visit changes nothing else *)
Theorem c27_iteration_end_state : forall r q,
  let q' := mainloop_visit r q in
  p_id q' = p_id q /\ p_status q' = p_status q /\ p_flows q' = p_flows q /\ p_submit q' = p_submit q /\
  p_held q' = p_held q /\ p_runahead q' = p_runahead q /\ p_manual q' = p_manual q /\
  p_outputs q' = p_outputs q /\ p_prereqs q' = p_prereqs q.
Proof.
  intros r q q'. destruct (mainloop_visit_core r q) as [[H1 [H2 [H3 [H4 [H5 [H6 [H7 H8]]]]]]] [H9 _]].
  repeat split; assumption.
Qed.

(* but a task that was queued AND held is not re-queued, whatever the rest of is_ready_to_run says:
   at the end of the iteration the queued flag is lost *)
Theorem c27_held_never_requeued : forall d db p r,
  mem N.eqb (p_name p) (d_new d) = true -> p_held p = true ->
  p_queued (mainloop_visit r (image d db p)) = false.
Proof. exact held_never_requeued. Qed.

Theorem c27_held_queued_lost_refuted : exists d db p,
  p_queued p = true /\ defined d p = true /\
  forall r, p_queued (mainloop_visit r (image d db p)) <> p_queued p.
Proof.
  exists (mkDef [0%N] [0%N] []), [], (c27_queued_task true). split; [reflexivity|split; [reflexivity|]].
  intros r. rewrite held_never_requeued; [discriminate|reflexivity|reflexivity].
Qed.

(* ------------------------------------------------------------------ non-vacuity *)
(* names: 0 = a, 1 = b (removed), 2 = c; messages: 0 = succeeded, 1 = started.
   Pool: 1/a waiting+queued with prerequisites (1/c:succeeded satisfied) and (0/b:succeeded unsatisfied);
         1/b running (orphan, kept); 2/b waiting (orphan, dropped); 1/c succeeded.
   New definition: b removed; 1/a now depends on 1/c:succeeded (kept) and 1/c:started (new, recorded in the DB)
   and no longer on 0/b. *)
Definition ex_pool : list proxy :=
  [ mkProxy (1, 0)%N 0%N [1%N] 0%N false true false false []
            [[((1, 2, 0)%N, true)]; [((0, 1, 0)%N, false)]] false;
    mkProxy (1, 1)%N 5%N [1%N] 1%N false false false false [1%N] [] false;
    mkProxy (2, 1)%N 0%N [1%N] 0%N false false true false [] [] false;
    mkProxy (1, 2)%N 7%N [1%N] 1%N false false false false [1; 0]%N [] false ].
Definition ex_def : newdef :=
  mkDef [0; 1; 2]%N [0; 2]%N [((1, 0)%N, [[(1, 2, 0)%N; (1, 2, 1)%N]]); ((1, 2)%N, [])].
Definition ex_db : dbrows := [((1, 2)%N, [([1%N], [1; 0]%N)])].

Example c27_ex_reload :
  reload_pool ex_def ex_db ex_pool =
  [ mkProxy (1, 0)%N 0%N [1%N] 0%N false false false false []
            [[((1, 2, 0)%N, true); ((1, 2, 1)%N, true)]] false;
    mkProxy (1, 1)%N 5%N [1%N] 1%N false false false false [1%N] [] true;
    mkProxy (1, 2)%N 7%N [1%N] 1%N false false false false [1; 0]%N [] false ].
Proof. vm_compute. reflexivity. Qed.

Example c27_ex_wf : wf_def ex_def.
Proof. intros i l [H|[H|[]]]; inversion H; reflexivity. Qed.

Example c27_ex_functional : forall p, In p ex_pool -> functional (concat (p_prereqs p)).
Proof.
  intros p [<-|[<-|[<-|[<-|[]]]]]; intros k v v' H1 H2; cbn in H1, H2;
    repeat match goal with H : _ \/ _ |- _ => destruct H | H : False |- _ => destruct H end; congruence.
Qed.

Example c27_ex_one_overlap : one_overlap ex_db [1%N].
Proof.
  intros i rows r1 r2 H. cbn in H. destruct (tid_eqb i (1, 2)%N); [|discriminate]. inversion H; subst.
  intros [<-|[]] [<-|[]] _ _. reflexivity.
Qed.

(* regression: the held, submitted orphan is kept (it was dropped before 9a9212a) *)
Example c27_ex_held_orphan_kept :
  reload_pool (mkDef [0; 1]%N [0%N] []) [] [c27_held_orphan]
  = [mkProxy (1, 1)%N 4%N [1%N] 1%N true false false false [0%N] [] true].
Proof. vm_compute. reflexivity. Qed.

(* an orphan is indeed dropped in the example, and it had not started *)
Example c27_ex_orphans : forall p, In p ex_pool ->
  ~ In (p_id p) (map p_id (reload_pool ex_def ex_db ex_pool)) -> started p = false.
Proof.
  apply c27_orphans_dropped_only_if_not_started.
  vm_compute. repeat constructor; cbn; intuition discriminate.
Qed.

Example c27_ex_dropped : ~ In (2, 1)%N (map p_id (reload_pool ex_def ex_db ex_pool)).
Proof. vm_compute. intuition discriminate. Qed.

(* the first task is re-queued later in the iteration *)
Example c27_ex_requeued :
  map p_queued (map (mainloop_visit true) (reload_pool ex_def ex_db ex_pool)) = [true; false; false].
Proof. vm_compute. reflexivity. Qed.

(* reloading twice: the kept orphan 1/b has no prerequisites here, so the pool is unchanged *)
Example c27_ex_twice :
  reload_pool (settled ex_def) [] (reload_pool ex_def ex_db ex_pool) = reload_pool ex_def ex_db ex_pool.
Proof. vm_compute. reflexivity. Qed.
