(* Props/C37.v — C37 "Template variables survive restart unchanged".
   Property theorems only; proofs are in Proofs/PyLitProofs.v.  The model
   (Model/PyLit.v: CPython repr of literal values, the canonical sub-language
   of ast.literal_eval, the restart loader) is tied to
   workflow_db_mgr.put_workflow_template_vars, templatevars.eval_var and
   Scheduler._load_template_vars by the C37 correspondence stream.

   External behaviour enters as Section variables, never as axioms:
     F, frepr, fparse   CPython floats, float.__repr__ and float(token)
     printable          str.isprintable
     ffinite            which floats are finite
   with the single hypothesis H_float: a finite float prints as a number token
   (digits . e + -, not an integer literal) which float() maps back to it. *)
From Coq Require Import List Bool Arith ZArith Lia.
From Cylc Require Import Base.Util Model.PyLit Proofs.PyLitProofs.
Import ListNotations.

(* Every value of the modelled literal types (None, bool, int of any size,
   finite float, str over all code points 0..0x10FFFF with any quotes,
   backslashes, control and non-printable characters, and list / tuple / set /
   dict nested to any depth) is read back from its repr as the identical
   value of the identical type.  [vwf] only asks for code points in range and
   finite floats. *)
Theorem c37_roundtrip :
  forall (F : Type) (frepr : F -> text) (fparse : text -> option F)
         (printable : Z -> bool) (ffinite : F -> bool),
    (forall f, ffinite f = true ->
       float_token (frepr f) = true /\ fparse (frepr f) = Some f) ->
    forall v, vwf F ffinite v = true ->
      parse F fparse (repr F frepr printable v) = Some v.
Proof. exact parse_repr. Qed.

(* Restart: with the variables [vs] stored at first start and [cli] given
   again on the command line, the loader succeeds and every name has the
   command-line value if there is one (precedence), else the original value. *)
Theorem c37_restart_restores_and_cli_wins :
  forall (F : Type) (frepr : F -> text) (fparse : text -> option F)
         (printable : Z -> bool) (ffinite : F -> bool),
    (forall f, ffinite f = true ->
       float_token (frepr f) = true /\ fparse (frepr f) = Some f) ->
    forall vs, vars_wf F ffinite vs = true -> forall cli,
      exists tv, restart F fparse cli (store F frepr printable vs) = Some tv /\
        forall k, assoc Nat.eqb k tv =
                  match assoc Nat.eqb k cli with Some v => Some v | None => assoc Nat.eqb k vs end.
Proof. exact restart_store. Qed.

(* a name given again on the command line is not even evaluated from the DB *)
Theorem c37_cli_precedence :
  forall (F : Type) (fparse : text -> option F) tv k v s rows,
    assoc Nat.eqb k tv = Some v ->
    restart F fparse tv ((k, s) :: rows) = restart F fparse tv rows.
Proof. exact restart_overridden. Qed.

(* The property as written, without the finiteness restriction: *)
Definition c37_roundtrip_all_floats : Prop :=
  forall (F : Type) (frepr : F -> text) (fparse : text -> option F) (printable : Z -> bool)
         (v : pyval F),
    vwf F (fun _ => true) v = true ->          (* code points in range; any float *)
    parse F fparse (repr F frepr printable v) = Some v.

(* It is FALSE of the faithful model and of the code (corpus "witness-inf":
   -s X=1e999 is accepted, float inf has repr "inf", which literal_eval
   rejects): floats = their repr text, value = the float whose repr is inf. *)
Definition c37_inf : text := [105; 110; 102]%Z.
Theorem c37_roundtrip_all_floats_refuted : ~ c37_roundtrip_all_floats.
Proof.
  intros H.
  specialize (H text (fun t => t) (fun t => Some t) (fun _ => true) (VFloat c37_inf) eq_refl).
  vm_compute in H. discriminate.
Qed.

(* ... and the restart then fails as a whole (InputError), whatever CPython's
   float() and isprintable are: *)
Theorem c37_inf_restart_fails :
  forall (fparse : text -> option text) (printable : Z -> bool) others,
    restart text fparse [] (store text (fun t => t) printable ((0, VFloat c37_inf) :: others)) = None.
Proof. intros. reflexivity. Qed.

(* ---- non-vacuity: H_float is satisfiable and the theorem applies to a
   nested value with every kind of string escape ---- *)
Definition c37_ex_frepr (t : text) : text := t.
Definition c37_ex_fparse (t : text) : option text := if float_token t then Some t else None.
Definition c37_ex_ffinite (t : text) : bool := float_token t.
Example c37_ex_H_float : forall f, c37_ex_ffinite f = true ->
  float_token (c37_ex_frepr f) = true /\ c37_ex_fparse (c37_ex_frepr f) = Some f.
Proof. unfold c37_ex_ffinite, c37_ex_frepr, c37_ex_fparse. intros f ->. auto. Qed.

Definition c37_ex_val : pyval text :=
  VDict [(VStr [97; 39; 34; 92; 10; 0; 127; 160; 233; 8232; 55296; 128512; 917505]%Z,
          VList [VInt (-12345678901234567890123456789012345678901234567890)%Z;
                 VFloat [49; 46; 53; 101; 45; 48; 55]%Z;      (* 1.5e-07 *)
                 VNone; VBool true; VTuple [VInt 1%Z]; VTuple []; VSet [];
                 VSet [VInt 1%Z; VStr []]; VDict []])].
Example c37_ex_wf : vwf text c37_ex_ffinite c37_ex_val = true.
Proof. vm_compute. reflexivity. Qed.
Example c37_ex_roundtrip :
  parse text c37_ex_fparse (repr text c37_ex_frepr (fun c => negb (mem Z.eqb c [160; 8232; 55296; 917505]%Z)) c37_ex_val)
  = Some c37_ex_val.
Proof. vm_compute. reflexivity. Qed.
