(* placeholder while the model is being validated *)
From Coq Require Import List Bool ZArith.
From Cylc Require Import Base.Util Model.PyLit.
Theorem c37_placeholder : True. Proof. exact I. Qed.
