(* Props/C37.v — C37 "Template variables survive restart unchanged".
   Property theorems only; proofs are in Proofs/PyLitProofs.v.  The model
   (Model/PyLit.v: CPython repr of literal values, the canonical sub-language
   of ast.literal_eval, eval_var with its acceptance check, the restart loader)
   is tied to workflow_db_mgr.put_workflow_template_vars, templatevars.eval_var
   and Scheduler._load_template_vars by the C37 correspondence stream.

   Since /repo 7f9125e eval_var refuses a value whose repr it cannot read back,
   so "accepted at first start" already excludes inf, -inf, nan and Ellipsis.

   External behaviour enters as Section variables, never as axioms:
     F, frepr, fparse   CPython floats, float.__repr__ and float(token)
     printable          str.isprintable
     ffinite            CPython's classification of floats
   with the single hypothesis H_float: a finite float prints as a number token
   (digits . e + -, not an integer literal) which float() maps back to it, and
   the other floats print as inf, -inf or nan. *)
From Coq Require Import List Bool Arith ZArith Lia.
From Cylc Require Import Base.Util Model.PyLit Proofs.PyLitProofs.
Import ListNotations.

(* Every value ACCEPTED by eval_var at first start - whatever text it was
   written as, and with no restriction on its floats - is read back from the
   text stored in the database (its repr) as the identical value of the
   identical type, and eval_var accepts that text again on restart.  Values:
   None, bool, int of any size, float, str over all code points with any
   quotes / backslashes / control / non-printable characters, list / tuple /
   set / dict nested to any depth.  [swf] only asks for code points in
   0..0x10FFFF. *)
Theorem c37_roundtrip :
  forall (F : Type) (frepr : F -> text) (fparse : text -> option F)
         (printable : Z -> bool) (ffinite : F -> bool),
    (forall f, if ffinite f
               then float_token (frepr f) = true /\ fparse (frepr f) = Some f
               else nonfinite_text (frepr f) = true) ->
    forall v, accepted F frepr fparse printable v -> swf F v = true ->
      parse F fparse (repr F frepr printable v) = Some v /\
      eval_var F frepr fparse printable (repr F frepr printable v) = Some v.
Proof. exact accepted_roundtrip. Qed.

(* The acceptance check refuses nothing it should keep: the canonical text of
   every value with finite floats is accepted (and read as that value). *)
Theorem c37_finite_values_accepted :
  forall (F : Type) (frepr : F -> text) (fparse : text -> option F)
         (printable : Z -> bool) (ffinite : F -> bool),
    (forall f, if ffinite f
               then float_token (frepr f) = true /\ fparse (frepr f) = Some f
               else nonfinite_text (frepr f) = true) ->
    forall v, vwf F ffinite v = true ->
      eval_var F frepr fparse printable (repr F frepr printable v) = Some v.
Proof. exact finite_accepted. Qed.

(* Restart: with the accepted variables [vs] stored at first start and [cli]
   given again on the command line, the loader succeeds and every name has the
   command-line value if there is one (precedence), else the original value. *)
Theorem c37_restart_restores_and_cli_wins :
  forall (F : Type) (frepr : F -> text) (fparse : text -> option F)
         (printable : Z -> bool) (ffinite : F -> bool),
    (forall f, if ffinite f
               then float_token (frepr f) = true /\ fparse (frepr f) = Some f
               else nonfinite_text (frepr f) = true) ->
    forall vs, vars_ok F frepr fparse printable vs -> forall cli,
      exists tv, restart F frepr fparse printable cli (store F frepr printable vs) = Some tv /\
        forall k, assoc Nat.eqb k tv =
                  match assoc Nat.eqb k cli with Some v => Some v | None => assoc Nat.eqb k vs end.
Proof. exact restart_store. Qed.

(* a name given again on the command line is not even evaluated from the DB *)
Theorem c37_cli_precedence :
  forall (F : Type) (frepr : F -> text) (fparse : text -> option F) (printable : Z -> bool)
         tv k v s rows,
    assoc Nat.eqb k tv = Some v ->
    restart F frepr fparse printable tv ((k, s) :: rows) = restart F frepr fparse printable tv rows.
Proof. exact restart_overridden. Qed.

(* Regression statement for the former findings (before 7f9125e these values
   were accepted and the restart then failed): a value containing the float
   whose repr is inf is refused at first start, whatever text it is written as
   and whatever float() and isprintable are (corpus "witness-inf"). *)
Theorem c37_nonfinite_rejected :
  forall (fparse : text -> option text) (printable : Z -> bool) s,
    eval_var text (fun t => t) fparse printable s <> Some (VFloat t_inf) /\
    eval_var text (fun t => t) fparse printable s <> Some (VList [VInt 1%Z; VFloat t_inf]).
Proof.
  intros fparse printable s. unfold eval_var. split;
    (destruct (parse text fparse s) as [v|]; [|discriminate];
     destruct (parse text fparse (repr text (fun t => t) printable v)) eqn:E; [|discriminate];
     intros [= ->]; vm_compute in E; discriminate).
Qed.

(* ---- non-vacuity: H_float is satisfiable, values are accepted, and the
   theorems apply to a nested value with every kind of string escape ---- *)
(* a two-float world: true is the float 1.5e-07, false is inf *)
Definition c37_ex_tok : text := [49; 46; 53; 101; 45; 48; 55]%Z.      (* 1.5e-07 *)
Definition c37_ex_frepr (b : bool) : text := if b then c37_ex_tok else t_inf.
Definition c37_ex_ffinite (b : bool) : bool := b.
Definition c37_ex_fparse (t : text) : option bool := if text_eqb t c37_ex_tok then Some true else None.
Example c37_ex_H_float : forall f,
  if c37_ex_ffinite f
  then float_token (c37_ex_frepr f) = true /\ c37_ex_fparse (c37_ex_frepr f) = Some f
  else nonfinite_text (c37_ex_frepr f) = true.
Proof. intros [|]; vm_compute; auto. Qed.

Definition c37_ex_val : pyval bool :=
  VDict [(VStr [97; 39; 34; 92; 10; 0; 127; 160; 233; 8232; 55296; 128512; 917505]%Z,
          VList [VInt (-12345678901234567890123456789012345678901234567890)%Z;
                 VFloat true; VNone; VBool true; VTuple [VInt 1%Z]; VTuple []; VSet [];
                 VSet [VInt 1%Z; VStr []]; VDict []])].
Definition c37_ex_printable (c : Z) : bool := negb (mem Z.eqb c [160; 8232; 55296; 917505]%Z).
Example c37_ex_wf : vwf bool c37_ex_ffinite c37_ex_val = true /\ swf bool c37_ex_val = true.
Proof. vm_compute. auto. Qed.
Example c37_ex_accepted :
  eval_var bool c37_ex_frepr c37_ex_fparse c37_ex_printable
           (repr bool c37_ex_frepr c37_ex_printable c37_ex_val) = Some c37_ex_val.
Proof. vm_compute. reflexivity. Qed.
(* the text 1e999 reads as the float inf (float() of it is inf), whose repr is
   not readable: refused at first start *)
Example c37_ex_inf_rejected :
  eval_var bool c37_ex_frepr (fun t => Some false) c37_ex_printable [49; 101; 57; 57; 57]%Z = None.
Proof. vm_compute. reflexivity. Qed.
