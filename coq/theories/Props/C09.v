(* Props/C09.v — C09 "Task status transitions follow the lifecycle; outputs are
   monotone" at the task level: one TaskProxy driven through
   TaskEventsManager.process_message, job preparation and the submit-command
   callback, for any unforced op sequence with any flags and submit numbers.
   Model: Model/TaskMsg.v (tied to the code by the "taskmsg" correspondence
   stream); tables: Gen/TaskMsgTables.v (regenerated from /repo).
   Scheduler-level scenario streams are separate. *)
From Coq Require Import List Bool Arith ZArith Lia.
From Cylc Require Import Base.Util Gen.TaskMsgTables Model.TaskMsg
  Proofs.TaskMsgProofs Proofs.TaskMsgInv Proofs.TaskMsgEdges.
Import ListNotations.

(* The model's recursion through the whole of process_message for implied
   outputs is equal to a closed form (status/timers: ctl_next, outputs: adds,
   effects: eff_next): the internal 'submitted'/'started' messages are never
   dropped by the ignore rules and never answered with a poll. *)
Theorem c09_process_message_closed_form : forall t m f n,
  process_message t m f n = pm_closed t m f n.
Proof. exact pm_closed_eq. Qed.

(* "Each status change lies in the allowed relation": for every op sequence from
   the fresh task, every step either keeps the status or takes an edge of the
   table op_edge / edge_ok (Proofs/TaskMsgEdges.v):
     job preparation        waiting -> preparing
     submitted (any flag)   preparing -> submitted
     started                any -> running      (received: only from <= running)
     succeeded              any -> succeeded
     failed                 any -> failed | waiting(retry)   (received: not from succeeded)
     submission failed      any -> submit-failed | waiting(retry)
                            (received: only from waiting/expired/preparing/submit-failed)
     expired                any -> expired
     custom / other text    no change
   (never failed -> waiting, never submit-failed -> waiting). *)
Theorem c09_transitions : forall n m k ops, trace_edges (fresh n m k) ops.
Proof. intros. apply trace_edges_wf. apply wf_fresh. Qed.

Theorem c09_step_edges : forall t o, wf t ->
  st (fst (step t o)) = st t \/ op_edge o (st t) (st (fst (step t o))) = true.
Proof. exact step_edges. Qed.

(* ... and the table is exact: each of its edges is taken in some run from the
   fresh task (so started-before-submitted preparing -> running, polled jumps
   submitted -> succeeded, and the backward edges of non-received messages are
   all real). *)
Theorem c09_transitions_exact : forall m r a b,
  edge_ok m r a b = true -> a <> b ->
  exists n mm pre f,
    flag_received f = r /\
    st (final (fresh n mm 1) pre) = a /\
    st (fst (step (final (fresh n mm 1) pre) (OpMsg m f 0%Z))) = b.
Proof. exact edges_reachable. Qed.

(* A received message (whatever its submit number) only moves the status
   forward in the lifecycle order, or back to waiting (which is a retry, next
   theorem).  'expired' is raised by the scheduler for waiting tasks. *)
Theorem c09_received_forward : forall n m k pre msg num,
  let t := final (fresh n m k) pre in
  (msg = MExpired -> st t = Waiting) ->
  let t' := fst (process_message t msg Received num) in
  st t' = st t \/ status_rank (st t) < status_rank (st t') \/ st t' = Waiting.
Proof. intros. apply pm_received_forward; [apply wf_run|assumption]. Qed.

(* "a return to waiting only for an automatic retry": whenever a step enters
   waiting, _retry_task ran and the corresponding timer's next() succeeded. *)
Theorem c09_waiting_only_by_retry : forall t o,
  st (fst (step t o)) = Waiting -> st t <> Waiting ->
  retried t (fst (step t o)) (snd (step t o)).
Proof. exact step_to_waiting. Qed.

(* The lifecycle of the property text: if the environment is consistent
   (env_ok: 'expired' only for waiting tasks; 'submission failed' comes from the
   submit command / a poll while the job has not started; a polled/internal
   'started' or 'failed' does not contradict a finished state) every status
   change is forward in the lifecycle order (or submitted -> submit-failed),
   with submit-failed only from preparing|submitted and expired only from
   waiting, or is a retry back to waiting. *)
Theorem c09_lifecycle : forall n m k pre o,
  let t := final (fresh n m k) pre in
  env_ok t o = true ->
  let t' := fst (step t o) in
  st t' = st t \/ lifecycle_edge (st t) (st t') = true \/ st t' = Waiting.
Proof. intros. apply step_lifecycle; [apply wf_run|assumption]. Qed.

(* The full statement (no environment hypothesis): *)
Definition c09_lifecycle_unrestricted : Prop :=
  forall n m k pre o,
    let t := final (fresh n m k) pre in
    let t' := fst (step t o) in
    st t' = st t \/ lifecycle_edge (st t) (st t') = true \/ st t' = Waiting.
(* is false of the code: a poll result 'started' that is processed after the
   received 'succeeded' moves succeeded -> running (finding "late-poll-regress"). *)
Theorem c09_lifecycle_unrestricted_refuted : ~ c09_lifecycle_unrestricted.
Proof.
  intros H. specialize (H 0 0 0 late_poll_pre late_poll_op).
  destruct late_poll_regresses as [A B]. cbn zeta in H. rewrite A, B in H.
  destruct H as [H|[H|H]]; discriminate H.
Qed.

(* "completed outputs are never un-completed" *)
Theorem c09_outputs_monotone : forall t ops x,
  In x (outs t) -> In x (outs (final t ops)).
Proof. exact run_outs_mono. Qed.

(* "whenever succeeded or failed is complete, submitted and started are complete
   too"; moreover from submitted on 'submitted' is complete and from running on
   'started' is complete. *)
Theorem c09_implied : forall n m k ops,
  let t := final (fresh n m k) ops in
  (In OSucceeded (outs t) \/ In OFailed (outs t) -> In OSubmitted (outs t) /\ In OStarted (outs t)) /\
  (status_rank Submitted <= status_rank (st t) -> In OSubmitted (outs t)) /\
  (status_rank Running <= status_rank (st t) -> In OStarted (outs t)).
Proof.
  intros. pose proof (wf_run n m k ops) as W. fold t in W.
  split; [apply (wf_closed t W)|]. split; [apply (wf_hs t W)|apply (wf_ht t W)].
Qed.

(* the invariant is inductive over every step (not only from the fresh task) *)
Theorem c09_wf_step : forall t o, wf t -> wf (fst (step t o)).
Proof. exact wf_step. Qed.

(* ---------- non-vacuity ---------- *)
(* started before submitted, then the submit result, a custom output, success *)
Example c09_ex_run :
  let t := final (fresh 1 1 1)
             [OpPrep; OpMsg MStarted Received 0%Z; OpSubRes true;
              OpMsg (MCustom 0) Received 0%Z; OpMsg MSucceeded Polled 0%Z] in
  st t = Succeeded /\ canon_outs t = [OSubmitted; OStarted; OSucceeded; OCustom 0].
Proof. vm_compute. auto. Qed.
(* a retry: failed with one execution retry delay goes back to waiting *)
Example c09_ex_retry :
  map (fun te => st (fst te))
      (snd (run (fresh 1 0 0) [OpPrep; OpMsg MFailed Polled 0%Z; OpPrep; OpMsg MFailed Received 0%Z]))
  = [Preparing; Waiting; Preparing; Failed].
Proof. vm_compute. reflexivity. Qed.
Example c09_ex_env : env_ok (final (fresh 0 0 0) [OpPrep]) (OpMsg MStarted Polled 0%Z) = true.
Proof. vm_compute. reflexivity. Qed.

(* ---------- scheduler level: the pool automaton (Model/Pool.v) ---------- *)
From Cylc Require Model.Pool Proofs.PoolProofs Proofs.PoolTheorems.

(* Every status change the pool automaton accepts is an edge of the lifecycle
   relation; waiting -> preparing needs a queue release or a manual trigger,
   and a held task is not prepared unless manually triggered. *)
Theorem c09_pool_status_change_follows_lifecycle : forall c s t st0 h q r s' p inp,
  Pool.step c s (Pool.EState t st0 h q r) = Pool.Ok s' -> Pool.lookup s t = Some (p, inp) ->
  st0 = Pool.p_status p \/ Pool.p_manual p = true \/
  (PoolTheorems.lifecycle (Pool.p_status p) st0 /\
   (Pool.p_status p = Pool.Waiting -> st0 = Pool.Preparing -> Pool.p_rel p = true \/ Pool.p_manual p = true) /\
   (st0 = Pool.Preparing -> Pool.p_held p = true -> Pool.p_manual p = true)).
Proof. exact PoolTheorems.status_change_follows_lifecycle. Qed.
