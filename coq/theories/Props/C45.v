(* Props/C45.v — C45 "Absolute-trigger outputs satisfy every dependent instance".
   Pool automaton: [abs_done] is the set of completed outputs referenced by
   absolute triggers (foo[^], foo[2], foo[^+P1]); EAbs records one. *)
From Coq Require Import List Bool ZArith.
From Cylc Require Import Base.Util Model.Pool Proofs.PoolProofs Proofs.PoolTheorems.
Import ListNotations.

(* An absolute output is recorded only once it has really been completed ... *)
Theorem c45_abs_output_really_done : forall c s k s',
  step c s (EAbs k) = Ok s' -> In k (done s).
Proof. exact abs_output_really_done. Qed.

(* ... in every reachable state each recorded absolute output has been completed
   (invariant over all accepted traces, restarts included) ... *)
Theorem c45_abs_done_sound : forall c tr s k,
  exec c (init_state c) tr = Some s -> In k (abs_done s) -> In k (done s).
Proof. intros c tr s k H. apply (inv_abs c s). eapply reachable_Inv; eauto. Qed.

(* ... a newly spawned instance starts with only such outputs (and pre-initial
   ones) satisfied ... *)
Theorem c45_spawn_satisfied_only_by_abs_done : forall c s t fl sat0 h s' i,
  step c s (ESpawn t fl sat0 h) = Ok s' -> find_inst (c_insts c) t = Some i ->
  forall k, In k sat0 -> In k (abs_done s).
Proof.
  intros c s t fl sat0 h s' i H Hi. cbn [step] in H. rewrite Hi in H.
  destruct (negb _) in H; [discriminate|]. destruct (existsb _ _) in H; [discriminate|].
  destruct (negb (subset_keys sat0 (expected_sat0 s i))) eqn:E; [discriminate|].
  apply negb_false_iff in E. intros k Hk. eapply expected_sat0_abs. eapply subset_keys_In; eauto.
Qed.

(* ... and at every accepted tick end every pooled dependent instance reflects
   every recorded absolute output: counting the recorded outputs as satisfied
   changes the truth of none of its prerequisite expressions (so an instance
   spawned later, or reloaded after a restart, is as satisfied as one that was
   in the pool when the output was completed). *)
Theorem c45_every_dependent_reflects_abs_outputs : forall c s snap hl hp s',
  step c s (ETickEnd snap hl hp) = Ok s' ->
  forall p i, In p (pool s) -> find_inst (c_insts c) (p_id p) = Some i -> abs_reflected s i p = true.
Proof. exact abs_outputs_reflected_at_tick_end. Qed.

(* The record survives a restart. *)
Theorem c45_abs_done_survives_restart : forall c s s',
  step c s ERestart = Ok s' -> abs_done s' = abs_done s.
Proof.
  intros c s s' H. destruct (restart_keeps_persistent_state c s s' H) as [_ [_ [_ [_ [_ [_ [_ [_ [A _]]]]]]]]]. exact A.
Qed.
