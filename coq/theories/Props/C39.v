(* Props/C39.v — C39 "Workflow names cannot escape the cylc-run directory".
   Property theorems only; proofs are in Proofs/WfNameProofs.v.
   The model (Model/WfName.v: validate_workflow_name, check_reserved_dir_names,
   the WorkflowNameValidator rules regenerated into Gen/WfNameRules.v, and
   posixpath isabs/join/normpath) is tied to the source by the C39
   correspondence stream.  Strings are lists of code points.

   The regex classes \w and \d are external behaviour of the regex engine: the
   theorems hold for *every* choice of them ([is_word], [is_digit] are
   universally quantified); the correspondence run instantiates them with the
   tables of the running CPython (Gen/UniClasses.v). *)
From Coq Require Import List ZArith Bool.
From Cylc Require Import Base.Util Gen.WfNameRules Gen.UniClasses Model.WfName Proofs.WfNameProofs.
Import ListNotations.
Open Scope Z_scope.

(* "Every workflow name that passes validation resolves to a path strictly
   inside the cylc-run directory and contains no reserved directory name when
   reserved names are checked."

   For every absolute cylc-run directory [run] (normalised or not) and every
   accepted [name]: the normalised path of run/name has the same leading
   slashes as that of [run], and its components are exactly the components
   of normpath(run) followed by a NON-EMPTY list [rest] of real directory
   names (not empty, not ".", not "..", without "/") — so it is a strict
   descendant of the cylc-run directory; [rest] is what the name itself
   normalises to; and when check_reserved_names is set no component of [rest]
   is in WorkflowFiles.RESERVED_NAMES (the regenerated table) or matches
   ^run\d+$. *)
Theorem c39_inside : forall (is_word is_digit : Z -> bool) chk name run,
  validate is_word is_digit chk name = Ok -> isabs run = true ->
  exists rest,
    rest <> [] /\ Forall real_comp rest /\
    normpath name = join_with 47 rest /\
    initial_slashes (pjoin run name) = initial_slashes run /\
    path_comps (pjoin run name) = path_comps run ++ rest /\
    (chk = true -> Forall (fun c => mem codes_eqb c reserved_names = false
                                    /\ is_run_number is_digit c = false) rest).
Proof. exact inside. Qed.

(* The same at the level of path strings:
   normpath(join(run, name)) = normpath(run) [+ "/"] + normpath(name)
   (the "/" is absent only when normpath(run) is "/" or "//"). *)
Theorem c39_inside_string : forall (is_word is_digit : Z -> bool) chk name run,
  validate is_word is_digit chk name = Ok -> isabs run = true ->
  normpath (pjoin run name) =
  normpath run ++ (match path_comps run with [] => [] | _ => [47] end) ++ normpath name.
Proof. exact inside_string. Qed.

(* The accepted alphabet (from the regenerated rule table): as long as the
   regex engine's \w and \d do not match NUL, TAB, LF, VT, FF, CR, space, "$",
   backslash or "~", an accepted name contains none of them — so no "~user"
   or "$VAR" expansion can move the path — except for ONE trailing newline,
   which Python's `$` lets through (observed on the implementation: 'foo\n'
   is a valid workflow name). *)
Definition specials : list Z := [0; 9; 10; 11; 12; 13; 32; 36; 92; 126].

Theorem c39_no_special_chars : forall (is_word is_digit : Z -> bool) chk name,
  (forall c, In c specials -> is_word c = false /\ is_digit c = false) ->
  validate is_word is_digit chk name = Ok ->
  exists body, (name = body \/ name = body ++ [10]) /\ body <> [] /\
               forall c, In c specials -> ~ In c body.
Proof.
  intros is_word is_digit chk name Hcls Hv.
  assert (Hr : exists cls, In (RAllowed cls) rules /\
               forallb (fun c => negb (in_cls (fun _ => false) (fun _ => false) cls c)) specials = true).
  { eexists. split; [unfold rules; cbn [In]; auto 10|]. vm_compute. reflexivity. }
  destruct Hr as (cls & Hin & Hex).
  destruct (accepted_chars is_word is_digit chk name cls Hv Hin) as (body & Hb & Hne & Hall).
  exists body. repeat split; auto. intros c Hc Hcb.
  destruct (Hcls c Hc) as [Hw Hd].
  destruct (in_cls_split is_word is_digit cls c (Hall c Hcb)) as [H|[H|H]]; try congruence.
  rewrite forallb_forall in Hex. specialize (Hex c Hc). rewrite H in Hex. discriminate.
Qed.

(* The hypothesis of [c39_no_special_chars] holds of the running CPython's
   \w and \d tables, so the conclusion holds of the model the correspondence
   run validates. *)
Theorem c39_no_special_chars_cpython : forall chk name,
  validate is_word_tbl is_digit_tbl chk name = Ok ->
  exists body, (name = body \/ name = body ++ [10]) /\ body <> [] /\
               forall c, In c specials -> ~ In c body.
Proof.
  intros chk name. apply c39_no_special_chars.
  intros c Hc. unfold specials in Hc. cbn [In] in Hc.
  repeat (destruct Hc as [<-|Hc]; [split; vm_compute; reflexivity|]). destruct Hc.
Qed.

(* ---------- non-vacuity ---------- *)
(* "a/../exp/./run/x1/" is accepted, with and without the reserved-name check,
   and under /home/u/cylc-run it resolves to /home/u/cylc-run/exp/run/x1 *)
Definition ex_name : codes := [97;47;46;46;47;101;120;112;47;46;47;114;117;110;47;120;49;47].
Definition ex_run : codes := [47;104;111;109;101;47;117;47;99;121;108;99;45;114;117;110].
Example c39_ex_accept : validate is_word_tbl is_digit_tbl true ex_name = Ok.
Proof. vm_compute. reflexivity. Qed.
Example c39_ex_resolve :
  normpath (pjoin ex_run ex_name) = ex_run ++ [47;101;120;112;47;114;117;110;47;120;49].
Proof. vm_compute. reflexivity. Qed.
(* the rejections the theorem relies on really happen: "a/../.." is Above,
   "a/share" and "a/run12" are refused when reserved names are checked,
   "/a" is absolute, "~u" has a character outside the allowed set *)
Example c39_ex_above : validate is_word_tbl is_digit_tbl false [97;47;46;46;47;46;46] = Above.
Proof. vm_compute. reflexivity. Qed.
Example c39_ex_reserved :
  validate is_word_tbl is_digit_tbl true [97;47;115;104;97;114;101] = Reserved [115;104;97;114;101].
Proof. vm_compute. reflexivity. Qed.
Example c39_ex_runN : validate is_word_tbl is_digit_tbl true [97;47;114;117;110;49;50] = RunNumber.
Proof. vm_compute. reflexivity. Qed.
Example c39_ex_abs : validate is_word_tbl is_digit_tbl false [47;97] = IsAbs.
Proof. vm_compute. reflexivity. Qed.
Example c39_ex_tilde : validate is_word_tbl is_digit_tbl false [126;117] = Invalid 2.
Proof. vm_compute. reflexivity. Qed.
(* observed quirks of the implementation, reproduced by the model (neither
   contradicts the property text): a trailing newline is accepted, and the
   reserved-name check looks at the normalised path only *)
Example c39_ex_trailing_newline : validate is_word_tbl is_digit_tbl true [102;111;111;10] = Ok.
Proof. vm_compute. reflexivity. Qed.
Example c39_ex_reserved_then_dotdot :   (* "a/share/../b" *)
  validate is_word_tbl is_digit_tbl true [97;47;115;104;97;114;101;47;46;46;47;98] = Ok.
Proof. vm_compute. reflexivity. Qed.
