(* Props/C07.v — C07 "Task instances stay within cycle bounds and on their sequences". *)
From Coq Require Import List Bool ZArith.
From Cylc Require Import Base.Util Model.Pool Proofs.PoolProofs Proofs.PoolTheorems Props.C01.
Import ListNotations.

(* In every state reachable through an accepted trace, every pooled task (and
   every just-spawned one) is an instance of the workflow's instance graph --
   i.e. its point is on one of the task's recurrences -- and lies between the
   initial and final cycle points. *)
Theorem c07_pool_in_bounds_on_sequence : forall c tr s p,
  exec c (init_state c) tr = Some s -> In p (pool s) ->
  (exists i, find_inst (c_insts c) (p_id p) = Some i) /\ (c_icp c <= fst (p_id p) <= c_fcp c)%Z.
Proof. exact pool_on_sequence_in_bounds. Qed.

(* A spawn outside the graph or the bounds is rejected outright. *)
Theorem c07_spawn_guard : forall c s t fl sat0 h s',
  step c s (ESpawn t fl sat0 h) = Ok s' ->
  (exists i, find_inst (c_insts c) t = Some i) /\ (c_icp c <= fst t <= c_fcp c)%Z.
Proof.
  intros c s t fl sat0 h s' H. cbn [step] in H.
  destruct (find_inst (c_insts c) t) as [i|]; [|discriminate].
  destruct (negb ((c_icp c <=? fst t)%Z && (fst t <=? c_fcp c)%Z)) eqn:E; [discriminate|].
  apply negb_false_iff, andb_true_iff in E. destruct E as [E1 E2].
  apply Z.leb_le in E1, E2. split; [eauto|split; assumption].
Qed.

(* Stop point: a submission is accepted only in the preparing state, which is
   reached only through a release (or manual trigger); releases from the
   runahead pool never go beyond the limit, which is capped at the stop point. *)
Theorem c07_release_never_beyond_stop_point : forall c s l s' b,
  step c s (ELimit (Some l)) = Ok s' -> min_point (pool s) = Some b -> (l <= stop_point s)%Z.
Proof.
  intros c s l s' b H Hb. cbn [step] in H. destruct (pool s) as [|p r] eqn:Ep; [discriminate Hb|].
  destruct (option_eqb Z.eqb (Some l) (spec_limit c s)) eqn:E.
  - unfold spec_limit in E. rewrite Ep in E. rewrite <- Ep in *. rewrite Hb in E. cbn in E.
    apply Z.eqb_eq in E. subst l. apply Z.le_min_r.
  - (* the limit already at the stop point is kept *)
    destruct (option_eqb Z.eqb (limit s) (Some (stop_point s)) && option_eqb Z.eqb (Some l) (limit s)) eqn:E2;
      [|discriminate].
    apply andb_true_iff in E2. destruct E2 as [A B].
    apply option_Z_eqb_eq in A, B. rewrite A in B. injection B as ->. apply Z.le_refl.
Qed.

Example c07_ex_off_graph_spawn_rejected :
  run C01.ex_cfg [ESpawn (2%Z, 0%nat) [1%nat] [] false] = Some (0%nat, 101%nat).
Proof. vm_compute. reflexivity. Qed.
