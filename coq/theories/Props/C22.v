(* Props/C22.v — C22 "Broadcasts override in precedence order and persist exactly".
   Property theorems only; proofs are in Proofs/BroadcastProofs.v.  The model
   (Model/Broadcast.v) is tied to cylc/flow/broadcast_mgr.py,
   broadcast_report.py and workflow_db_mgr.py by the C22 correspondence stream.

   Vocabulary.  The in-memory state [.broadcasts] is a dict point -> namespace
   -> nested settings; [get_leaf (pt :: ns :: path) (Node m)] is the value of
   the setting [path] broadcast to namespace [ns] at point [pt] (None if
   there is none).  [wf]: dict keys are unique.  [conf sect t]: the nested
   dict [t] follows a section/setting schema [sect] (the runtime spec that
   BroadcastConfigValidator enforces: a key path is either always a section
   or always a setting); [full sect] extends it with the point and namespace
   levels.  [inv (full sect) m] = wf + conf, an invariant of every reachable
   state (c22_reachable_inv). *)
From Coq Require Import List ZArith NArith Bool Arith.
From Cylc Require Import Base.Util Model.C3 Model.Broadcast Proofs.BroadcastProofs.
Import ListNotations.

(* ---- precedence ------------------------------------------------------- *)
(* The broadcast a task receives: for every setting path, the value is the
   LAST defined one in the order
     ('*', root) ... ('*', task), (cycle, root) ... (cycle, task)
   where root ... task is the reversed list of linearized ancestors:
   all-cycle broadcasts first, then the task's own cycle, each from root
   through the ancestors to the task itself. *)
Theorem c22_precedence : forall sect m anc cycle,
  inv (full sect) m -> sect [] = true -> forall p,
  get_leaf p (Node (get_broadcast m anc cycle)) =
  last_defined (map (fun cn => get_leaf (fst cn :: snd cn :: p) (Node m)) (prec_order anc cycle)) None.
Proof. exact get_broadcast_precedence. Qed.

(* ... and the runtime configuration is the static one overridden by it. *)
Theorem c22_rtconfig_overrides : forall sect static m anc cycle,
  inv (full sect) m -> sect [] = true -> wf (Node static) -> conf sect (Node static) -> forall p,
  get_leaf p (Node (updated_rtconfig static m anc cycle)) =
  orelse (get_leaf p (Node (get_broadcast m anc cycle))) (get_leaf p (Node static)).
Proof. exact rtconfig_overrides. Qed.

(* Highest precedence: a setting broadcast to the task itself at its own
   cycle always wins. *)
Theorem c22_own_cycle_task_wins : forall sect m task rest cycle p v,
  inv (full sect) m -> sect [] = true ->
  get_leaf (cycle :: task :: p) (Node m) = Some v ->
  get_leaf p (Node (get_broadcast m (task :: rest) cycle)) = Some v.
Proof. exact own_cycle_task_wins. Qed.

(* ---- clear ------------------------------------------------------------ *)
(* Clearing removes exactly the targeted settings: a leaf disappears iff its
   point is selected (or no points given), its namespace is selected (or
   none given) and its key path is one of the cancel settings' (or none
   given); every other leaf keeps its value.  Holds for either iterator. *)
Theorem c22_clear_exact : forall ci pts nss cancel st, wf (Node (s_mem st)) -> forall p,
  get_leaf p (Node (s_mem (fst (clear_with ci pts nss cancel st)))) =
  if targeted pts nss (cancel_keys cancel) p then None else get_leaf p (Node (s_mem st)).
Proof. exact clear_exact. Qed.

(* ---- expire ----------------------------------------------------------- *)
(* Expiry removes only the settings of cycle-specific points earlier than
   the cutoff ([expired (Some c) k] is true exactly for [k = KInt z], z < c;
   never for '*'); with no cutoff everything goes. *)
Theorem c22_expire_exact : forall ci cutoff st, wf (Node (s_mem st)) -> forall pt ns rest,
  get_leaf (pt :: ns :: rest) (Node (s_mem (fst (expire_with ci cutoff st)))) =
  if expired cutoff pt then None else get_leaf (pt :: ns :: rest) (Node (s_mem st)).
Proof. exact expire_exact. Qed.

Theorem c22_expired_only_earlier_points : forall c k,
  expired (Some c) k = true <-> exists z, k = KInt z /\ (z < c)%Z.
Proof.
  intros c k. destruct k as [|z|n]; cbn; split; try discriminate.
  - intros [z [E _]]. discriminate.
  - intros H. exists z. split; [reflexivity|now apply Z.ltb_lt].
  - intros [z' [E H]]. inversion E; subst. now apply Z.ltb_lt.
  - intros [z [E _]]. discriminate.
Qed.

(* ---- persistence ------------------------------------------------------ *)
(* A history is admissible for a schema when every setting that the
   validator accepted is a well-formed dict following the schema (and is
   [good]). *)
Definition c22_history_ok (sect : path -> bool) (good : tree -> Prop) (h : list op) : Prop :=
  sect [] = true /\ Forall (op_ok sect good) h.

(* The property as written: after ANY admissible history (multi-key setting
   dicts and empty dicts included) the state reloaded from the DB has
   exactly the leaves of the in-memory state. *)
Definition c22_db_roundtrip_statement : Prop :=
  forall sect tr h, c22_history_ok sect (fun _ => True) h ->
  forall p, get_leaf p (Node (load (s_db (run tr h)))) = get_leaf p (Node (s_mem (run tr h))).

(* It holds of the current code (get_broadcast_change_iter yields every leaf
   of each modified setting since repo commit bdf8ea5), for all histories of
   put/clear/expire/flush with any points, namespaces and nested settings. *)
Theorem c22_db_roundtrip : c22_db_roundtrip_statement.
Proof.
  intros sect tr h [Hs F]. apply (roundtrip_gen change_iter (fun _ => True) sect tr h); auto.
  exact ci_ok_current.
Qed.

(* Every reachable state satisfies the invariant the theorems above assume,
   and the DB holds exactly the in-memory leaves. *)
Theorem c22_reachable_inv : forall sect tr h, c22_history_ok sect (fun _ => True) h ->
  inv (full sect) (s_mem (run tr h)) /\
  forall p, db_get p (s_db (run tr h)) = get_leaf p (Node (s_mem (run tr h))).
Proof.
  intros sect tr h [Hs F].
  destruct (run_inv change_iter (fun _ => True) sect tr h ci_ok_current (fun _ _ _ => I) Hs F)
    as (I0 & _ & E).
  split; assumption.
Qed.

(* ---- HISTORICAL: the iterator before the fix ([change_iter_pre_fix]) ----
   These theorems are about the OLD get_broadcast_change_iter, which followed
   only the first key of each nested dict.  They document the defect that
   was found (known finding, now fixed) and say nothing about the current
   code.  Witness: one put of {100: {101: v0, 102: v1}}
   (e.g. {'environment': {'A': .., 'B': ..}}) to point 3, namespace 1; with
   the old iterator the leaf 102 is in memory but not in the DB.  The same
   witness is a regression case in corpus() of vp/props/c22.py. *)
Definition c22_witness_sect : path -> bool :=
  fun p => match p with [] => true | [KName 100%N] => true | _ => false end.
Definition c22_witness_tree : C3.tree := [(0, []); (1, [0])].
Definition c22_witness_setting : tree :=
  Node [(KName 100%N, Node [(KName 101%N, Leaf 0%N); (KName 102%N, Leaf 1%N)])].
Definition c22_witness_hist : list op :=
  [Put [Some (KInt 3)] [KName 1%N] [Some c22_witness_setting]].

Lemma c22_witness_ok : c22_history_ok c22_witness_sect (fun _ => True) c22_witness_hist.
Proof.
  split; [reflexivity|]. constructor; [|constructor]. cbn. constructor; [|constructor].
  cbn. split; [|split; [|exact I]].
  - constructor; [cbn; constructor; [intros []|constructor]|].
    constructor; [|constructor]. cbn. constructor.
    + cbn. constructor; [cbn; intros [E|[]]; discriminate|]. constructor; [intros []|constructor].
    + repeat constructor.
  - constructor; [reflexivity|]. constructor; [|constructor]. cbn.
    constructor; [reflexivity|]. constructor; [now constructor|]. constructor; [now constructor|constructor].
Qed.

Theorem c22_pre_fix_roundtrip_multikey_refuted :
  exists sect tr h, c22_history_ok sect (fun _ => True) h /\
  exists p, get_leaf p (Node (load (s_db (run_with change_iter_pre_fix tr h)))) <>
            get_leaf p (Node (s_mem (run_with change_iter_pre_fix tr h))).
Proof.
  exists c22_witness_sect, c22_witness_tree, c22_witness_hist. split; [exact c22_witness_ok|].
  exists [KInt 3; KName 1%N; KName 100%N; KName 102%N]. vm_compute. discriminate.
Qed.

(* the old iterator was right for histories whose accepted settings have
   exactly one leaf each ([single]: what `cylc broadcast -s` sends) *)
Theorem c22_pre_fix_roundtrip_single_leaf : forall sect tr h, c22_history_ok sect single h ->
  forall p, get_leaf p (Node (load (s_db (run_with change_iter_pre_fix tr h)))) =
            get_leaf p (Node (s_mem (run_with change_iter_pre_fix tr h))).
Proof.
  intros sect tr h [Hs F]. apply (roundtrip_gen change_iter_pre_fix single sect tr h); auto.
  - exact ci_ok_pre_fix.
  - exact single_chain.
Qed.

(* ---- non-vacuity ------------------------------------------------------ *)
(* hierarchy root(0) <- FAM(1) <- a(2); settings {100: {101: v}} ("[environment]A") *)
Definition ex_tree : C3.tree := [(0, []); (1, [0]); (2, [1])].
Definition ex_env (v : N) : tree := Node [(KName 100%N, Node [(KName 101%N, Leaf v)])].
Definition ex_hist : list op :=
  [Put [Some KStar] [KName 0%N] [Some (ex_env 7)];              (* '*'/root  A=7 *)
   Put [Some (KInt 3)] [KName 1%N] [Some (ex_env 8)];           (* 3/FAM     A=8 *)
   Put [Some KStar; Some (KInt 1)] [KName 2%N] [Some (ex_env 9)];(* '*'/a, 1/a A=9 *)
   Flush].

Lemma ex_env_ok v : put_setting_ok c22_witness_sect single (Some (ex_env v)).
Proof.
  split; [|split].
  - constructor; [cbn; constructor; [intros []|constructor]|]. constructor; [|constructor].
    cbn. constructor; [cbn; constructor; [intros []|constructor]|repeat constructor].
  - constructor; [reflexivity|]. constructor; [|constructor]. cbn.
    constructor; [reflexivity|]. constructor; [now constructor|constructor].
  - exists [(KName 100%N, Node [(KName 101%N, Leaf v)])], ([KName 100%N; KName 101%N], v).
    repeat split.
Qed.
Example c22_ex_hist_ok : c22_history_ok c22_witness_sect single ex_hist.
Proof.
  split; [reflexivity|]. unfold ex_hist.
  repeat (apply Forall_cons;
          [cbn; try exact I; repeat (apply Forall_cons; [apply ex_env_ok|]); apply Forall_nil|]).
  apply Forall_nil.
Qed.
(* task a at cycle 3 gets FAM's cycle-3 value (own cycle beats '*' at the task itself) *)
Example c22_ex_get :
  get_leaf [KName 100%N; KName 101%N]
    (Node (get_broadcast (s_mem (run ex_tree ex_hist)) (ancestors ex_tree 2) (KInt 3))) = Some 8%N
  /\ get_leaf [KName 100%N; KName 101%N]
    (Node (get_broadcast (s_mem (run ex_tree ex_hist)) (ancestors ex_tree 2) (KInt 1))) = Some 9%N
  /\ get_leaf [KName 100%N; KName 101%N]
    (Node (get_broadcast (s_mem (run ex_tree ex_hist)) (ancestors ex_tree 1) (KInt 5))) = Some 7%N.
Proof. vm_compute. repeat split. Qed.
(* expire 2 removes point 1 only; '*' and point 3 stay *)
Example c22_ex_expire :
  flatten (Node (s_mem (fst (expire (Some 2%Z) (run ex_tree ex_hist))))) =
  [([KStar; KName 0%N; KName 100%N; KName 101%N], 7%N);
   ([KStar; KName 2%N; KName 100%N; KName 101%N], 9%N);
   ([KInt 3; KName 1%N; KName 100%N; KName 101%N], 8%N)].
Proof. vm_compute. reflexivity. Qed.
(* the current iterator writes both leaves of the old witness *)
Example c22_ex_witness_now :
  s_db (run c22_witness_tree c22_witness_hist) =
  [([KInt 3; KName 1%N; KName 100%N; KName 101%N], 0%N);
   ([KInt 3; KName 1%N; KName 100%N; KName 102%N], 1%N)].
Proof. vm_compute. reflexivity. Qed.
