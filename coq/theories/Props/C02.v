(* Props/C02.v — C02 "No task instance runs twice in a flow without
   intervention": the task-level clauses (retry bound, failed/submit-failed
   output only when no retry remains, resubmission only through a retry) over
   Model/TaskMsg.v (see Props/C09.v).  The spawning / DB-history clauses
   (no respawn in a flow, no duplicate proxy) are scheduler level. *)
From Coq Require Import List Bool Arith ZArith Lia.
From Cylc Require Import Base.Util Gen.TaskMsgTables Model.TaskMsg
  Proofs.TaskMsgProofs Proofs.TaskMsgInv Proofs.TaskMsgEdges Proofs.TaskMsgBound.
Import ListNotations.

(* "A task with N execution retry delays and M submission retry delays is
   submitted at most (N+1)*(M+1) times": for every op sequence from the fresh
   task (any messages, flags, submit numbers, duplicates, submit results,
   preparations) in which 'expired' is only raised for a waiting task and a
   polled/internal 'submission failed' is not delivered once the job has
   started (env_run), the submit number never exceeds the bound.  Potential:
   sn + budget, budget counting the submissions the timers still allow. *)
Theorem c02_submit_bound : forall n m k ops,
  env_run (fresh n m k) ops = true ->
  sn (final (fresh n m k) ops) <= (n + 1) * (m + 1).
Proof. exact submit_bound. Qed.

(* the potential decreases along every such step, from any reachable state *)
Theorem c02_step_budget : forall t o, wf t -> env_c02 t o = true ->
  sn (fst (step t o)) + budget (fst (step t o)) <= sn t + budget t.
Proof. exact step_budget. Qed.

(* The statement without the environment hypothesis: *)
Definition c02_submit_bound_unrestricted : Prop :=
  forall n m k ops, sn (final (fresh n m k) ops) <= (n + 1) * (m + 1).
(* is false of the code: 'started' resets the submission try number; a failed
   submit-command result that is processed after the job's 'started' message
   then consumes a submission retry again and the running task is resubmitted
   (N=0, M=1: three submissions; finding "submit-fail-after-start"). *)
Theorem c02_submit_bound_unrestricted_refuted : ~ c02_submit_bound_unrestricted.
Proof.
  intros H. specialize (H 0 1 0 sfstart_ops).
  destruct submit_bound_needs_env as [A B]. rewrite A, B in H. lia.
Qed.

(* "its failed or submit-failed output is completed (and the corresponding
   children spawned) only when no retry remains": in any step in which the
   failed output becomes complete or its children are spawned, next() of the
   execution timer returned None (no timer, or num >= len(delays)). *)
Theorem c02_failed_only_when_exhausted : forall t m f n,
  let p := process_message t m f n in
  (In (ESpawn OFailed) (snd p) \/ (In OFailed (outs (fst p)) /\ ~ In OFailed (outs t))) ->
  no_next (texec t) = true.
Proof. exact pm_failed_only_exhausted. Qed.
Theorem c02_submit_failed_only_when_exhausted : forall t m f n,
  let p := process_message t m f n in
  (In (ESpawn OSubmitFailed) (snd p) \/
   (In OSubmitFailed (outs (fst p)) /\ ~ In OSubmitFailed (outs t))) ->
  no_next (tsub t) = true.
Proof. exact pm_subfailed_only_exhausted. Qed.

(* and in every reachable state the final failure statuses mean "exhausted" *)
Theorem c02_failure_status_exhausted : forall n m k ops,
  let t := final (fresh n m k) ops in
  (st t = Failed -> no_next (texec t) = true) /\
  (st t = SubmitFailed -> no_next (tsub t) = true).
Proof.
  intros. pose proof (wf_run n m k ops) as W. fold t in W.
  split; [apply (wf_failed t W)|apply (wf_subfailed t W)].
Qed.

(* a retry is scheduled exactly by one successful next() of its timer, and puts
   the task back to waiting *)
Theorem c02_retry_effect : forall t m f n b,
  In (ERetry b) (snd (process_message t m f n)) ->
  let t' := fst (process_message t m f n) in
  st t' = Waiting /\
  exists x', next_of (if b then tsub t else texec t) = Some x' /\
             (if b then tsub t' else texec t') = Some x'.
Proof. exact pm_retry_effect. Qed.

(* "no task instance is submitted more than once per flow, except for
   configured automatic retries" (task level): the submit number changes only
   by a job preparation of a waiting task, by one, and after the first
   submission only when a retry is lined up. *)
Theorem c02_resubmission_only_by_retry : forall n m k pre o,
  let t := final (fresh n m k) pre in
  sn (fst (step t o)) <> sn t ->
  o = OpPrep /\ st t = Waiting /\ sn (fst (step t o)) = S (sn t) /\
  (sn t = 0 \/ retry_lined_up t = true).
Proof. intros n m k pre o t. apply step_new_submission. apply wf_run. Qed.

(* ---------- non-vacuity ---------- *)
(* N=1, M=1: the bound 4 is attained by a consistent history *)
Example c02_ex_bound_attained :
  let ops := [OpPrep; OpSubRes false; OpPrep; OpSubRes true; OpMsg MStarted Received 0%Z;
              OpMsg MFailed Received 0%Z; OpPrep; OpSubRes false; OpPrep;
              OpMsg MFailed Polled 0%Z; OpPrep] in
  env_run (fresh 1 1 0) ops = true /\ sn (final (fresh 1 1 0) ops) = 4 /\
  st (final (fresh 1 1 0) ops) = Failed.
Proof. vm_compute. auto. Qed.
Example c02_ex_failed_children :
  snd (process_message (final (fresh 0 0 0) [OpPrep; OpMsg MStarted Received 0%Z]) MFailed Received 1%Z)
  = [ESpawn OFailed].
Proof. vm_compute. reflexivity. Qed.

(* ---------- scheduler level: the pool automaton (Model/Pool.v) ----------
   (qualified names: Pool.v and TaskMsg.v share some identifiers) *)
From Cylc Require Model.Pool Proofs.PoolProofs Proofs.PoolTheorems.

(* In every reachable state of the pool automaton the submission log has no
   repetition: no instance is ever submitted twice under one submit number. *)
Theorem c02_pool_submissions_distinct : forall c tr s,
  PoolProofs.exec c (Pool.init_state c) tr = Some s -> NoDup (Pool.subs s).
Proof. exact PoolTheorems.submissions_distinct. Qed.

(* A submission is accepted only while the instance has been submitted fewer
   than (N+1)(M+1) times, unless it was manually triggered. *)
Theorem c02_pool_submit_within_try_bound : forall c s t sn0 s',
  Pool.step c s (Pool.ESubmit t sn0) = Pool.Ok s' ->
  exists p i, Pool.find_task (Pool.pool s) t = Some p /\ Pool.find_inst (Pool.c_insts c) t = Some i /\
    (Pool.p_manual p = true \/
     (count_true (fun x => Pool.tid_eqb (fst x) t) (Pool.subs s) < Pool.i_tries i)%nat) /\
    ~ In (t, sn0) (Pool.subs s).
Proof. exact PoolTheorems.submit_within_try_bound. Qed.
