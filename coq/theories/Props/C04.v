(* Props/C04.v — C04 "Runahead limit is respected and never deadlocks a completable run". *)
From Coq Require Import List Bool ZArith.
From Cylc Require Import Base.Util Model.Pool Proofs.PoolProofs Proofs.PoolTheorems.
Import ListNotations.
Open Scope Z_scope.

(* [spec_limit] is the specification: with base = earliest pool point, the
   (n+1)-th smallest point of the workflow's recurrences at or after base (the
   last one if fewer, base itself if none), capped at the stop point. *)

(* The limit the scheduler computes is accepted only if it equals the
   specification for the current pool (with an empty pool any value is
   accepted: nothing can be released) -- or, faithfully to the code's early
   return (FINDING, see c04_limit_always_spec_refuted), if the previous limit
   already sits at the stop point and is simply kept. *)
Theorem c04_limit_is_spec : forall c s l s',
  step c s (ELimit l) = Ok s' -> pool s <> [] ->
  (l = spec_limit c s \/ (limit s = Some (stop_point s) /\ l = limit s)) /\ limit s' = l.
Proof. exact limit_is_spec. Qed.

(* A task leaves the runahead pool only if its point is within the limit last
   computed, unless it was manually triggered (or is an already finished task
   reloaded by a restart, which will not run). *)
Theorem c04_release_within_limit : forall c s t st h q s' p inp,
  step c s (EState t st h q false) = Ok s' ->
  lookup s t = Some (p, inp) -> p_runahead p = true -> p_manual p = false ->
  is_final (p_status p) = false ->
  exists l, limit s = Some l /\ fst (p_id p) <= l.
Proof. exact runahead_release_within_limit. Qed.

(* The limit is never below the earliest pool point: the earliest incomplete
   cycle is never blocked by the runahead limit ... *)
Theorem c04_limit_ge_base : forall c s b l,
  min_point (pool s) = Some b -> b <= stop_point s -> spec_limit c s = Some l -> b <= l.
Proof. exact spec_limit_ge_base. Qed.

(* ... it is a recurrence point at or after the base (or the base itself), pushed
   out by the largest future-trigger offset (a[+Pn] => t) among the pooled
   tasks -- which is what keeps a tight limit from deadlocking a task that waits
   for a future instance -- or the stop point ... *)
Theorem c04_limit_on_sequence : forall c s b l,
  min_point (pool s) = Some b -> spec_limit c s = Some l ->
  l = stop_point s \/ l = b + max_future c (pool s) \/
  (exists x, In x (c_points c) /\ b <= x /\ l = x + max_future c (pool s)).
Proof. exact spec_limit_on_sequence. Qed.

(* ... where the adjustment is never negative and vanishes when no pooled task
   has a future trigger ... *)
Theorem c04_future_adjust_nonneg : forall c pl, 0 <= max_future c pl.
Proof. exact max_future_nonneg. Qed.
Theorem c04_future_adjust_none : forall c pl,
  (forall p, In p pl -> fut_of c p = 0) -> max_future c pl = 0.
Proof. exact max_future_none. Qed.

(* ... and a task within the limit is not left unreleased: every accepted tick
   end bounds the number of consecutive iterations a task may sit in the
   runahead pool although its point is within the limit (and likewise a ready
   task unqueued). *)
Theorem c04_no_starvation : forall c s snap hl hp s',
  step c s (ETickEnd snap hl hp) = Ok s' ->
  forall p, In p (pool s') -> (p_idle p < max_idle)%nat /\ (p_lag p < max_idle)%nat.
Proof. exact tick_end_progress. Qed.

(* base 2, P0, task 0 has a future trigger [+P1]: the limit is 3, so that 3/... can run for 2/0 *)
Example c04_ex_future :
  spec_limit {| c_insts := []; c_points := [1;2;3;4]; c_runahead := 0%nat; c_qlimits := [];
                c_icp := 1; c_fcp := 4; c_start := 1; c_future := [1] |}
    {| pool := [new_task (2, 0%nat) [1%nat] [] false]; limbo := []; hist := [];
       subs := []; limit := None; relq := []; abs_done := []; stop_point := 4; done := []; to_hold := []; hold_pt := None; saved := []; stop_mode := None; stop_task := None; crash_mode := false; bcast := 0%nat |} = Some 3.
Proof. vm_compute. reflexivity. Qed.

Example c04_ex_spec : 
  spec_limit {| c_insts := []; c_points := [1;2;3;4;5;6]; c_runahead := 2%nat; c_qlimits := [];
                c_icp := 1; c_fcp := 6; c_start := 1; c_future := [] |}
    {| pool := [new_task (2, 0%nat) [1%nat] [] false; new_task (3, 0%nat) [1%nat] [] false]; limbo := []; hist := [];
       subs := []; limit := None; relq := []; abs_done := []; stop_point := 6; done := []; to_hold := []; hold_pt := None; saved := []; stop_mode := None; stop_task := None; crash_mode := false; bcast := 0%nat |} = Some 4.
Proof. vm_compute. reflexivity. Qed.

(* FINDING (known, open): the full statement "the limit always equals the
   specification for the current pool" is false of the code, hence of the
   faithful automaton: compute_runahead returns early when the limit already
   equals the stop point, even if the earliest pool point has moved back since
   (which needs a manual trigger / set of an instance in an earlier cycle). *)
Definition c04_limit_always_spec_statement : Prop :=
  forall c tr s l s', exec c (init_state c) tr = Some s ->
    step c s (ELimit l) = Ok s' -> pool s <> [] -> l = spec_limit c s.

Definition c04_cfg : cfg :=
  {| c_insts := [ {| i_id := (1, 0%nat); i_pre := []; i_comp := CAtom 4%nat; i_queue := 0%nat; i_tries := 1%nat |};
                  {| i_id := (3, 0%nat); i_pre := []; i_comp := CAtom 4%nat; i_queue := 0%nat; i_tries := 1%nat |} ];
     c_points := [1; 2; 3]; c_runahead := 0%nat; c_qlimits := [0%nat]; c_icp := 1; c_fcp := 3; c_start := 1; c_future := [] |}.
Definition c04_witness : list event :=
  [ ESpawn (3, 0%nat) [1%nat] [] false; EAdd (3, 0%nat); ELimit (Some 3);
    ESpawn (1, 0%nat) [1%nat] [] false; EAdd (1, 0%nat) ].

Theorem c04_limit_always_spec_refuted : ~ c04_limit_always_spec_statement.
Proof.
  intros H.
  assert (Hr : run c04_cfg c04_witness = None) by (vm_compute; reflexivity).
  apply run_accepts in Hr. destruct Hr as [s Hs].
  assert (Hstep : exists s', step c04_cfg s (ELimit (Some 3)) = Ok s' /\ pool s <> [] /\ spec_limit c04_cfg s = Some 1).
  { revert Hs. vm_compute. intros [= <-]. eexists. split; [reflexivity|]. split; [discriminate|reflexivity]. }
  destruct Hstep as [s' [H1 [H2 H3]]].
  specialize (H c04_cfg c04_witness s (Some 3) s' Hs H1 H2). rewrite H3 in H. discriminate.
Qed.
