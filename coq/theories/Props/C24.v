(* Props/C24.v — C24 "Restricted expression evaluation cannot run arbitrary code".
   Property theorems only; proofs in Proofs/RestrictedEvalProofs.v.
   Model/RestrictedEval.v is tied to cylc/flow/util.py (restricted_evaluator,
   RestrictedNodeVisitor) by the C24 correspondence stream; the whitelists in
   Gen/EvalWhitelist.v are regenerated from /repo on every check, so the
   theorems about CompletionEvaluator / RankingExpressionEvaluator are about
   the whitelists the code has now. *)
From Coq Require Import List Bool Arith String.
From Cylc Require Import Base.Util Gen.EvalWhitelist Model.RestrictedEval
  Proofs.RestrictedEvalProofs.
Import ListNotations.
Local Open Scope string_scope.
Local Open Scope list_scope.

(* "An expression that contains anything other than the whitelisted syntax is
   rejected": for every tree and every whitelist, the visitor rejects iff some
   node is bad — its class is not whitelisted, or it is one of the two names
   (`__debug__`, `__builtins__`) that CPython would resolve without their
   being supplied (fix 9296d0f) ... *)
Theorem c24_rejected_iff_non_whitelisted : forall wl t,
  (exists k, first_bad wl t = Some k) <->
  (exists p, In p (preorder_nodes t) /\ bad_node wl p = true).
Proof. exact rejected_iff. Qed.

(* in particular any node whose class is not whitelisted, anywhere in the tree *)
Theorem c24_non_whitelisted_kind_rejected : forall wl t k,
  In k (preorder t) -> whitelisted wl k = false -> exists k', first_bad wl t = Some k'.
Proof. exact contains_bad_rejected. Qed.

(* ... the node reported (error_node / error_type) is the FIRST such node in
   ast.NodeVisitor order ... *)
Theorem c24_first_in_visit_order : forall wl t k,
  first_bad wl t = Some k ->
  exists before n after,
    preorder_nodes t = before ++ (k, n) :: after /\
    bad_node wl (k, n) = true /\
    forallb (fun p => negb (bad_node wl p)) before = true.
Proof. exact rejected_first. Qed.

(* The visitor visits EVERY descendant, whatever lies in between: for any
   whitelist (in particular one that contains Attribute, Subscript or Call,
   like RankingExpressionEvaluator's), an accepted expression has only
   whitelisted node kinds at every depth — every sub-tree of an accepted tree
   is itself accepted — and a bad node beneath any chain of whitelisted
   parents (`f().real`, `(x := f()).real`, `[f() for _ in y].count`, ...)
   makes the whole expression rejected. *)
Theorem c24_every_descendant_visited : forall t s,
  descendant s t -> In (kind_of s, ident_of s) (preorder_nodes t).
Proof. exact descendant_in_preorder. Qed.

Theorem c24_accepted_at_every_depth : forall wl t s,
  descendant s t -> first_bad wl t = None ->
  first_bad wl s = None /\
  whitelisted wl (kind_of s) = true /\ reserved_name (kind_of s) (ident_of s) = false.
Proof.
  intros wl t s Hd H. split; [eapply accepted_descendant; eauto|].
  eapply accepted_descendant_whitelisted; eauto.
Qed.

Theorem c24_bad_descendant_rejected : forall wl t s,
  descendant s t -> bad_node wl (kind_of s, ident_of s) = true ->
  exists k, first_bad wl t = Some k.
Proof. exact bad_descendant_rejected. Qed.

(* the children of a node of ANY kind (Attribute included) are checked *)
Theorem c24_children_checked : forall wl k n cs c,
  first_bad wl (Node k n cs) = None -> In c cs -> first_bad wl c = None.
Proof. exact accepted_children. Qed.

(* ... "before any part of it is evaluated": the evaluator's outcome is
   `Rejected k` exactly when the visitor found k, and then nothing at all was
   evaluated — no supplied object was touched (empty trace) and the outcome does
   not depend on the variables. *)
Theorem c24_reject_before_eval : forall env truthy wl t tr k,
  restricted_eval env truthy wl (Some t) = (tr, Rejected k) <->
  first_bad wl t = Some k /\ tr = [].
Proof. exact restricted_eval_rejected. Qed.

Theorem c24_rejection_ignores_variables : forall wl t k,
  first_bad wl t = Some k ->
  forall env truthy, restricted_eval env truthy wl (Some t) = ([], Rejected k).
Proof. intros wl t k H env truthy. unfold restricted_eval. now rewrite H. Qed.

(* evaluation is reached only when every node of the tree is whitelisted *)
Theorem c24_eval_only_if_all_whitelisted : forall env truthy wl t tr o,
  restricted_eval env truthy wl (Some t) = (tr, o) ->
  (forall k, o <> Rejected k) ->
  forallb (whitelisted wl) (preorder t) = true /\
  (in_fragment t = true -> py_eval env truthy t = (tr, o)).
Proof.
  intros env truthy wl t tr o H Hn. unfold restricted_eval in H.
  destruct (first_bad wl t) as [k|] eqn:E.
  - injection H as <- <-. exfalso. now apply (Hn k).
  - split; [now apply accepted_all_whitelisted|]. intros F. now rewrite F in H.
Qed.

(* With CompletionEvaluator's whitelist (as it is in /repo now) every accepted
   tree consists of Expression / BoolOp / And / Or / Name / Load nodes only:
   although ast.BinOp is listed, a BinOp always has an operator child and no
   operator is listed, so arithmetic can never pass either. *)
Theorem c24_completion_accepts_only_boolop_names : forall t,
  binop_wf operator_kinds t = true ->
  first_bad completion_whitelist t = None ->
  Forall (fun k => In k ["Expression"; "Name"; "Load"; "BoolOp"; "And"; "Or"]) (preorder t).
Proof. exact completion_accepts_only_safe. Qed.

(* ... hence an accepted completion expression is always inside the fragment
   whose evaluation is modelled, and its outcome is [py_eval]'s *)
Theorem c24_completion_accepted_is_evaluated : forall env truthy t,
  binop_wf operator_kinds t = true ->
  first_bad completion_whitelist t = None ->
  restricted_eval env truthy completion_whitelist (Some t) = py_eval env truthy t.
Proof.
  intros env truthy t Hwf Hacc. apply restricted_eval_accepted; [exact Hacc|].
  pose proof (completion_accepts_only_safe t Hwf Hacc) as F.
  unfold in_fragment. apply forallb_forall. intros k Hk.
  rewrite Forall_forall in F. apply mem_str_In. exact (F k Hk).
Qed.

(* calls, lambdas, comprehensions, walrus, f-strings, await/yield, starred and
   conditional expressions are rejected by BOTH of cylc's evaluators, and
   CompletionEvaluator also rejects attribute access, subscripts, constants,
   unary operators and comparisons, wherever they occur in the tree *)
Theorem c24_dangerous_syntax_rejected : forall t k,
  In k dangerous -> In k (preorder t) ->
  (exists k', first_bad completion_whitelist t = Some k') /\
  (exists k', first_bad ranking_whitelist t = Some k').
Proof.
  intros t k Hd Hin. pose proof dangerous_not_whitelisted as H.
  rewrite forallb_forall in H. specialize (H k Hd).
  apply andb_true_iff in H. destruct H as [H1 H2]. apply negb_true_iff in H1, H2.
  split; eapply contains_bad_rejected; eauto.
Qed.

Theorem c24_completion_rejects_attribute_subscript_constant : forall t k,
  In k completion_extra -> In k (preorder t) ->
  exists k', first_bad completion_whitelist t = Some k'.
Proof.
  intros t k Hd Hin. pose proof completion_extra_not_whitelisted as H.
  rewrite forallb_forall in H. specialize (H k Hd). apply negb_true_iff in H.
  eapply contains_bad_rejected; eauto.
Qed.

(* "evaluation has no access to builtins or to names other than the supplied
   variables".  The value of an accepted completion expression depends only on
   the variables it names ... *)
Theorem c24_value_depends_only_on_named_variables : forall e1 e2 truthy wl t,
  (forall n, In n (names t) -> e1 n = e2 n) ->
  restricted_eval e1 truthy wl (Some t) = restricted_eval e2 truthy wl (Some t).
Proof.
  intros e1 e2 truthy wl t H. unfold restricted_eval.
  destruct (first_bad wl t); [reflexivity|].
  destruct (in_fragment t); [|reflexivity]. now apply py_eval_ext.
Qed.

(* ... and only the supplied variables are visible: every value is one of the
   supplied objects named in the expression, a NameError names a variable that
   was not supplied, and the only objects ever touched (truth-tested) are
   supplied ones named in the expression.  Full statement since fix 9296d0f
   (formerly refuted by `__debug__` -> True and `__builtins__` -> {}). *)
Theorem c24_only_supplied_variables : forall env truthy t tr o,
  py_eval env truthy t = (tr, o) ->
  (forall i, In i tr -> exists n, In n (names t) /\ env n = Some i) /\
  (forall v, o = Val v -> exists n i, In n (names t) /\ env n = Some i /\ v = VObj i) /\
  (forall n, o = NameErr n -> In n (names t) /\ env n = None).
Proof.
  intros env truthy t tr o E.
  pose proof (py_eval_good env truthy t) as [Ht Ho]. rewrite E in Ht, Ho. cbn in Ht, Ho.
  split; [exact Ht|]. split.
  - intros v ->. destruct v as [i]. destruct Ho as [n [Hn He]]. exists n, i. auto.
  - intros n ->. exact Ho.
Qed.

(* the two interpreter-provided names never reach evaluation, whatever the
   whitelist: a tree naming one of them is rejected, an accepted tree names
   neither *)
Theorem c24_reserved_names_rejected : forall wl t n,
  n = DEBUG \/ n = BUILTINS -> In n (names t) -> exists k, first_bad wl t = Some k.
Proof. exact reserved_rejected. Qed.

Theorem c24_accepted_names_no_reserved : forall wl t,
  first_bad wl t = None -> ~ In DEBUG (names t) /\ ~ In BUILTINS (names t).
Proof. exact accepted_no_reserved. Qed.

(* ---- non-vacuity ---- *)
Definition name (n : nat) : pyast := Node "Name" n [Node "Load" 0 []].
(* a and b *)
Definition ex_and : pyast :=
  Node "Expression" 0 [Node "BoolOp" 0 [Node "And" 0 []; name 2; name 3]].
(* a and __import__('os') *)
Definition ex_import : pyast :=
  Node "Expression" 0 [Node "BoolOp" 0 [Node "And" 0 []; name 2;
    Node "Call" 0 [name 9; Node "Constant" 0 []]]].
(* a + b *)
Definition ex_add : pyast :=
  Node "Expression" 0 [Node "BinOp" 0 [name 2; Node "Add" 0 []; name 3]].
Definition ex_env (n : nat) : option nat := if Nat.eqb n 2 || Nat.eqb n 3 then Some n else None.
Definition ex_truthy (i : nat) : bool := Nat.eqb i 2.

Example c24_ex_accept :
  restricted_eval ex_env ex_truthy completion_whitelist (Some ex_and) = ([2], Val (VObj 3)).
Proof. vm_compute. reflexivity. Qed.
Example c24_ex_reject_call :
  restricted_eval ex_env ex_truthy completion_whitelist (Some ex_import) = ([], Rejected "Call").
Proof. vm_compute. reflexivity. Qed.
Example c24_ex_reject_add :
  restricted_eval ex_env ex_truthy completion_whitelist (Some ex_add) = ([], Rejected "Add").
Proof. vm_compute. reflexivity. Qed.
(* regression witnesses of the fixed findings *)
Example c24_ex_debug_rejected :
  restricted_eval ex_env ex_truthy completion_whitelist
    (Some (Node "Expression" 0 [name DEBUG])) = ([], Rejected "Name").
Proof. vm_compute. reflexivity. Qed.
Example c24_ex_builtins_rejected :
  restricted_eval ex_env ex_truthy completion_whitelist
    (Some (Node "Expression" 0 [Node "BoolOp" 0 [Node "Or" 0 []; name 3; name BUILTINS]]))
  = ([], Rejected "Name").
Proof. vm_compute. reflexivity. Qed.
(* canary().real under the production ranking whitelist: Attribute is
   whitelisted, the Call beneath it is still found *)
Definition ex_call_under_attr : pyast :=
  Node "Expression" 0 [Node "Attribute" 0 [Node "Call" 0 [name 2]; Node "Load" 0 []]].
Example c24_ex_call_under_attribute_rejected :
  restricted_eval ex_env ex_truthy ranking_whitelist (Some ex_call_under_attr) = ([], Rejected "Call").
Proof. vm_compute. reflexivity. Qed.
Example c24_ex_attribute_alone_accepted :
  first_bad ranking_whitelist
    (Node "Expression" 0 [Node "Attribute" 0 [name 2; Node "Load" 0 []]]) = None.
Proof. vm_compute. reflexivity. Qed.
Example c24_ex_wf : binop_wf operator_kinds ex_add = true.
Proof. vm_compute. reflexivity. Qed.
Example c24_ex_ranking_accepts_add : first_bad ranking_whitelist ex_add = None.
Proof. vm_compute. reflexivity. Qed.
