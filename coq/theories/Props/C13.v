(* Props/C13.v — C13 "Prerequisite satisfaction equals the trigger expression's truth".

   Model: Model/Prereq.v (string-level model of Prerequisite.set_conditional_expr /
   is_satisfied / satisfy_me / set_satisfied / unset_naturally_satisfied and of
   Dependency.get_prerequisite), tied to /repo by the C13 correspondence streams.
   Vocabulary (Proofs/PrereqSubst.v, Proofs/PrereqProofs.v):
     oexp / sem_o      parse tree of a trigger expression (| over & over atoms and
                       parentheses) and its truth over a satisfaction map;
     expr_text o       the text Dependency.get_expression produces for it;
     wf k              the key (point, task, output) is over the legal alphabets:
                       no | & ( ) / double quote, backslash or line break; no space in point
                       and task; the point starts with a word character or with "-"
                       followed by one; the output is non-empty and ends with a word
                       character;
     collides k k'     the regex pattern of k also matches inside the message of k'
                       (same task, k's point is a \b-suffix of k' 's point not preceded by a
                       minus sign, k's output a \b-prefix of k' 's output);
     order_ok ks       no key collides into a key inserted after it;
     good ks o         ks = the prerequisite's keys in insertion order: pairwise distinct,
                       wf, order_ok, and exactly the atoms of o;
     sigma l           the satisfaction map of the _satisfied dictionary l. *)
From Coq Require Import List ZArith Bool String.
From Cylc Require Import Base.Util Model.Prereq Proofs.PrereqSubst Proofs.PrereqProofs.
Import ListNotations.
Local Open Scope Z_scope.

(* ------------------------------------------------------------------------- *)
(* 1. String level: over ANY token sequence in which atoms are separated by
   operators (not only well-formed expressions), the loop of regex substitutions
   replaces exactly every message "<point>/<task> <output>" by its Python
   template and touches nothing else — whatever the task names are (prefixes,
   suffixes, substrings of one another), for negative integer points and
   time-zoned datetime points, provided no earlier key collides into a later one. *)
Theorem c13_substitution_exact : forall ts ks,
  forallb tok_ok ts = true -> sep_ok ts = true ->
  Forall wf ks -> order_ok ks ->
  (forall k, In k (atoms ts) -> In k ks) ->
  subst_all ks (render_src ts) = render_py ts.
Proof. exact subst_all_exact. Qed.

(* 2. The property: for every trigger expression o and every _satisfied
   dictionary l whose keys (in insertion order) are good for o, the freshly
   built prerequisite answers exactly the truth of o over the satisfied outputs.
   Covers both code paths ('|' present: regex + eval; absent: all(values)). *)
Theorem c13_eval_equals_expr : forall o l,
  good (map fst l) o ->
  fst (is_satisfied (set_conditional_expr {| sat := l; cexpr := None; cached := None |} (expr_text o)))
  = RVal (VBool (sem_o (sigma l) o)).
Proof.
  intros o l G.
  pose proof (inv_initial (map fst l) o l eq_refl) as Hi.
  rewrite (inv_answer (map fst l) o G _ Hi). reflexivity.
Qed.

(* 2'. The same through Dependency.get_prerequisite (keys inserted in the order of
   task_triggers, initial states from the offsets). *)
Theorem c13_get_prerequisite : forall o point icp start trs,
  good (map t_key trs) o ->
  fst (is_satisfied (get_prerequisite point icp start trs (flat_o o)))
  = RVal (VBool (sem_o (sigma (init_sat point icp start trs)) o)).
Proof.
  intros o point icp start trs G.
  rewrite get_prerequisite_eq by exact (g_nodup _ _ G).
  apply c13_eval_equals_expr. rewrite init_sat_keys. exact G.
Qed.

(* 3. Dependencies on instances before the initial cycle point count as
   satisfied: in the constructed prerequisite such a key is true in the map over
   which the expression is evaluated (theorem 2'). *)
Theorem c13_pre_initial : forall point icp start trs t z,
  NoDup (map t_key trs) -> In t trs -> t_off t = Some z -> z < icp ->
  sigma (init_sat point icp start trs) (t_key t) = true.
Proof.
  intros point icp start trs t z Hnd Hin Hoff Hz.
  rewrite sigma_init_sat by assumption.
  unfold init_value. rewrite Hoff. rewrite (proj2 (Z.ltb_lt z icp) Hz). reflexivity.
Qed.

(* 4. Cache transparency: from the constructed prerequisite, after ANY sequence of
   is_satisfied / __setitem__ (on existing keys) / satisfy_me / set_satisfied /
   unset_naturally_satisfied, the (possibly cached) answer of is_satisfied equals a
   cache-free re-evaluation, and both equal the truth of o over the current map. *)
Theorem c13_cache_transparent : forall o l ops,
  good (map fst l) o -> Forall (mop_ok (map fst l)) ops ->
  let st := fold_left step ops
              (set_conditional_expr {| sat := l; cexpr := None; cached := None |} (expr_text o)) in
  fst (is_satisfied st) = RVal (VBool (sem_o (sigma (sat st)) o))
  /\ eval_satisfied st = RVal (VBool (sem_o (sigma (sat st)) o)).
Proof.
  intros o l ops G Hops st.
  assert (Hi : inv (map fst l) o st).
  { apply steps_inv; [exact G|apply inv_initial; reflexivity|exact Hops]. }
  split; [apply (inv_answer _ _ G), Hi|apply (inv_eval _ _ G), Hi].
Qed.

(* 5. When do the hypotheses hold?  (a) keys over the legal alphabets are wf;
   (b) keys of different tasks never collide — whatever the names; (c) between
   integer points a collision needs equal points (since fix 0083ac1; before it the
   negated point was a second case, finding c13:neg-point-collision), so with
   integer points only outputs that are \b-prefixes of one another can collide;
   (d) if no two keys collide at all, every insertion order is fine. *)
Theorem c13_legal_alphabets_wf : forall k,
  forallb point_char (kP k) = true -> point_start_ok (kP k) = true ->
  forallb name_char (kN k) = true ->
  comp_ok (kO k) = true -> out_end_ok (kO k) = true -> wf k.
Proof. exact legal_key_wf. Qed.

Theorem c13_distinct_tasks_never_collide : forall k k',
  kN k <> kN k' -> collides k k' = false.
Proof.
  intros k k' H. destruct (collides k k') eqn:E; [|reflexivity].
  exfalso. apply H. apply collides_same_name. exact E.
Qed.

Theorem c13_integer_points_collide_only_if_equal : forall k k',
  int_point (kP k) = true -> int_point (kP k') = true -> collides k k' = true ->
  kN k = kN k' /\ kP k' = kP k.
Proof.
  intros k k' Hp Hp' Hc. split; [apply collides_same_name; exact Hc|].
  unfold collides in Hc. rewrite !andb_true_iff in Hc. destruct Hc as [[_ Hs] _].
  apply int_point_bsuffix; assumption.
Qed.

Theorem c13_any_order_if_collision_free : forall ks,
  NoDup ks ->
  (forall k k', In k ks -> In k' ks -> k <> k' -> collides k k' = false) -> order_ok ks.
Proof. exact order_ok_pairwise. Qed.

(* ------------------------------------------------------------------------- *)
(* 6. The unrestricted statement (distinct legal keys, no hypothesis on the
   insertion order) is still FALSE of the code: finding c13:output-prefix-collision. *)
Definition c13_eval_equals_expr_unrestricted : Prop :=
  forall o l,
    Forall wf (map fst l) -> NoDup (map fst l) ->
    (forall k, In k (atoms_o o) <-> In k (map fst l)) ->
    fst (is_satisfied (set_conditional_expr {| sat := l; cexpr := None; cached := None |} (expr_text o)))
    = RVal (VBool (sem_o (sigma l) o)).

Local Open Scope string_scope.
(* graph  P1 = "a:x | a:y => c"  with outputs  x = "data", y = "data ready"  of task a *)
Definition k_short : key := (codes "1", codes "a", codes "data").
Definition k_long : key := (codes "1", codes "a", codes "data ready").
Definition w_expr : oexp := OOr (AP (PAtm k_short)) (OA (AP (PAtm k_long))).
(* the shorter message inserted first; the longer output has been received *)
Definition w_sat : list (key * sstate) := [(k_short, Unsat); (k_long, SNat)].

Lemma w_wf : Forall wf (map fst w_sat).
Proof. repeat constructor; apply wf_key_wf; vm_compute; reflexivity. Qed.

Lemma w_nodup : NoDup (map fst w_sat).
Proof.
  repeat constructor; cbn; [|tauto]. intros [H|[]].
  assert (E : key_eqb k_long k_short = true) by (apply key_eqb_eq; exact H). vm_compute in E. discriminate.
Qed.

Lemma w_atoms : forall k, In k (atoms_o w_expr) <-> In k (map fst w_sat).
Proof. intros k. cbn. tauto. Qed.

Theorem c13_eval_equals_expr_unrestricted_refuted : ~ c13_eval_equals_expr_unrestricted.
Proof.
  intros H. specialize (H w_expr w_sat w_wf w_nodup w_atoms).
  vm_compute in H. discriminate.
Qed.

(* what the code does on the witness: the pattern of "1/a data" also matches inside
   "1/a data ready"; the text becomes  bool(S[..."data"])|bool(S[..."data"]) ready,
   which is not an expression (TriggerExpressionError in Python, RUnm in the model),
   although the expression is true *)
Example c13_witness_value :
  fst (is_satisfied (set_conditional_expr {| sat := w_sat; cexpr := None; cached := None |} (expr_text w_expr)))
  = RUnm /\ sem_o (sigma w_sat) w_expr = true.
Proof. split; vm_compute; reflexivity. Qed.

(* the witness violates exactly the order hypothesis; in the other insertion
   order the hypotheses hold (so theorem 2 applies and the answer is right) *)
Example c13_witness_collides : collides k_short k_long = true /\ collides k_long k_short = false.
Proof. split; vm_compute; reflexivity. Qed.

Example c13_witness_other_order_good : good [k_long; k_short] w_expr.
Proof.
  constructor.
  - repeat constructor; apply wf_key_wf; vm_compute; reflexivity.
  - repeat constructor.
  - repeat constructor; cbn; [|tauto]. intros [H|[]].
    assert (E : key_eqb k_short k_long = true) by (apply key_eqb_eq; exact H). vm_compute in E. discriminate.
  - intros k. cbn. tauto.
Qed.

(* Regression of the fixed finding c13:neg-point-collision (fix 0083ac1, look-behind):
   graph  P1 = "b[-P2] | b => c", initial cycle point 1, task 1/c, with 1/b inserted
   first.  The keys no longer collide, both insertion orders are good, and the
   pre-initial dependency makes 1/c satisfied. *)
Definition k_pos : key := (codes "1", codes "b", codes "succeeded").
Definition k_neg : key := (codes "-1", codes "b", codes "succeeded").
Definition n_expr : oexp := OOr (AP (PAtm k_neg)) (OA (AP (PAtm k_pos))).

Example c13_negpoint_no_collision : collides k_pos k_neg = false /\ collides k_neg k_pos = false.
Proof. split; vm_compute; reflexivity. Qed.

Example c13_negpoint_good : good [k_pos; k_neg] n_expr.
Proof.
  constructor.
  - repeat constructor; apply wf_key_wf; vm_compute; reflexivity.
  - unfold order_ok. repeat constructor; vm_compute; reflexivity.
  - repeat constructor; cbn; [|tauto]. intros [H|[]].
    assert (E : key_eqb k_neg k_pos = true) by (apply key_eqb_eq; exact H). vm_compute in E. discriminate.
  - intros k. cbn. tauto.
Qed.

Example c13_negpoint_value :
  fst (is_satisfied (set_conditional_expr {| sat := [(k_pos, Unsat); (k_neg, SNat)]; cexpr := None; cached := None |}
                                          (expr_text n_expr)))
  = RVal (VBool true).
Proof. vm_compute. reflexivity. Qed.

(* ------------------------------------------------------------------------- *)
(* non-vacuity: a five-atom expression over names that are prefixes, suffixes
   and substrings of one another, a negative integer point and two-digit points:
   11/foo | 1/foo & (-1/x:started | 1/foo-bar:failed) | 1/a-foo        *)
Definition e1 : key := (codes "11", codes "foo", codes "succeeded").
Definition e2 : key := (codes "1", codes "foo", codes "succeeded").
Definition e3 : key := (codes "-1", codes "x", codes "started").
Definition e4 : key := (codes "1", codes "foo-bar", codes "failed").
Definition e5 : key := (codes "1", codes "a-foo", codes "succeeded").
Definition ex_expr : oexp :=
  OOr (AP (PAtm e1))
      (OOr (AAnd (PAtm e2) (AP (PPar (OOr (AP (PAtm e3)) (OA (AP (PAtm e4)))))))
           (OA (AP (PAtm e5)))).
Definition ex_keys : list key := [e2; e5; e1; e4; e3].

Example c13_example_good : good ex_keys ex_expr.
Proof.
  constructor.
  - repeat constructor; apply wf_key_wf; vm_compute; reflexivity.
  - unfold order_ok, ex_keys. repeat constructor; vm_compute; reflexivity.
  - unfold ex_keys. repeat constructor; cbn; intros H;
      repeat (destruct H as [H|H];
              [assert (E : key_eqb _ _ = true) by (apply key_eqb_eq; exact H); vm_compute in E; discriminate|]);
      exact H.
  - intros k. cbn. tauto.
Qed.

Example c13_example_text :
  expr_text ex_expr
  = codes "11/foo succeeded|1/foo succeeded&(-1/x started|1/foo-bar failed)|1/a-foo succeeded".
Proof. vm_compute. reflexivity. Qed.

Example c13_example_run :
  let l := [(e2, SNat); (e5, Unsat); (e1, Unsat); (e4, SDb); (e3, Unsat)] in
  fst (is_satisfied (set_conditional_expr {| sat := l; cexpr := None; cached := None |} (expr_text ex_expr)))
  = RVal (VBool true).
Proof. vm_compute. reflexivity. Qed.

(* a time-zoned datetime key is well formed *)
Example c13_example_datetime_wf :
  wf (codes "20200101T0000+0530", codes "a-a", codes "file_1 done")
  /\ wf (codes "2020-01-01T00:00-08:00", codes "1a", codes "submit-failed").
Proof. split; apply wf_key_wf; vm_compute; reflexivity. Qed.
