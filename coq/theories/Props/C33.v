From Coq Require Import List Bool ZArith.
From Cylc Require Import Base.Util Model.Xtrig.
Import ListNotations.
Theorem c33_placeholder : True. Proof. exact I. Qed.
