(* Props/C33.v — C33 "Xtriggers are called with the documented discipline".
   Model: Model/Xtrig.v (hand model of XtriggerManager), tied to the real class by
   the "xtrig" correspondence stream (stub pool, virtual clock).
   Property text: for each xtrigger function signature, at most one call is in
   progress at a time, consecutive calls are at least the configured interval
   apart, and once a call succeeds the function is not called again for that
   signature while any task still needs it.  Every task depending on a succeeded
   signature becomes satisfied.
   Histories: any list of call_xtriggers_async(task, now) / callback(sig, ok) /
   housekeep(tasks), from the empty manager, with ARBITRARY clock readings.
   The event trace of a history lists submissions to the process pool
   (EvSubmit sig now interval), successes (EvSucceed) and housekeeping-forgets
   (EvForget). *)
From Coq Require Import List Bool ZArith Lia.
From Cylc Require Import Base.Util Model.Xtrig Model.XtrigLoop Proofs.XtrigProofs Proofs.XtrigLoopProofs.
Import ListNotations.
Open Scope Z_scope.

(* ---- 1. at most one call in progress per signature ---- *)
(* `active` (signatures waiting for their callback) never holds a signature twice ... *)
Theorem c33_one_active : forall ts ops st evs,
  xrun (xinit ts) ops = (st, evs) -> NoDup (s_active st).
Proof.
  intros ts ops st evs E. eapply xrun_active_NoDup; [exact E|]. cbn. constructor.
Qed.

(* ... and a signature is handed to the process pool only when it is not active
   (and has not succeeded) at that moment *)
Theorem c33_submit_only_when_idle : forall st o st' evs s now iv,
  xstep st o = (st', evs) -> In (EvSubmit s now iv) evs ->
  ~ In s (s_active st) /\ ~ In s (s_sat st).
Proof. intros st o st' evs s now iv E H. exact (xstep_submit_guard _ _ _ _ E s now iv H). Qed.

(* ---- 2. the interval ---- *)
(* [expect s None pre] = Some (t + interval) when the last event about s in [pre]
   is a submission at time t, None when it is a housekeeping-forget (or nothing).
   Any later submission of s happens at a clock reading >= that value. *)
Theorem c33_interval : forall ts ops st evs s pre now iv post,
  xrun (xinit ts) ops = (st, evs) ->
  evs = pre ++ EvSubmit s now iv :: post ->
  forall t, expect s None pre = Some t -> t <= now.
Proof.
  intros ts ops st evs s pre now iv post E -> t Ht.
  destruct (xrun_interval s ops None _ _ _ E) as [H _]; [intros ? [=]|].
  apply intervals_ok_app in H. destruct H as [_ H]. cbn in H. destruct H as [H _]. now apply H.
Qed.

(* The full statement of the property text ("consecutive calls are at least the
   configured interval apart") is the unconditional one below.  It is FALSE of the
   code: after a signature has succeeded and no task needs it any more, housekeep
   forgets it together with its t_next_call entry, and a task that needs it later
   re-submits it at once.  Witness: interval 10; submitted at 0, succeeded,
   forgotten by housekeep([task 0]), needed by task 1, submitted again at 2.
   FINDING (open, known_findings.d/C33.json; the witness is in the stream's corpus);
   [c33_interval] above is the restricted statement that does hold. *)
Definition c33_interval_unconditional : Prop :=
  forall ts ops st evs s t1 iv1 t2 iv2 pre mid post,
    xrun (xinit ts) ops = (st, evs) ->
    evs = pre ++ EvSubmit s t1 iv1 :: mid ++ EvSubmit s t2 iv2 :: post ->
    (forall n i, ~ In (EvSubmit s n i) mid) -> t1 + iv1 <= t2.

Theorem c33_interval_unconditional_refuted : ~ c33_interval_unconditional.
Proof.
  intros H.
  pose (e := {| e_label := 0%nat; e_sig := 0%nat; e_clock := None; e_intvl := 10; e_sat := false |}).
  specialize (H [ {| x_id := 0%nat; x_entries := [e] |}; {| x_id := 1%nat; x_entries := [e] |} ]
                [XCall 0%nat 0; XCallback 0%nat true; XCall 0%nat 1; XHousekeep [0%nat]; XCall 1%nat 2]
                _ _ 0%nat 0 10 2 10 [] [EvSucceed 0%nat; EvForget 0%nat] [] eq_refl eq_refl).
  assert (Hm : forall n i, ~ In (EvSubmit 0%nat n i) [EvSucceed 0%nat; EvForget 0%nat])
    by (intros n i [X|[X|[]]]; discriminate).
  specialize (H Hm). lia.
Qed.

(* ---- 3. no call after success while a task still needs it ---- *)
(* [succ_state s false pre] = true when the last success of s in [pre] has not
   been followed by a housekeeping-forget of s.  No submission of s then. *)
Theorem c33_no_call_after_success : forall ts ops st evs s pre now iv post,
  xrun (xinit ts) ops = (st, evs) ->
  evs = pre ++ EvSubmit s now iv :: post ->
  succ_state s false pre = false.
Proof.
  intros ts ops st evs s pre now iv post E ->.
  destruct (xrun_no_resubmit s ops false _ _ _ E) as [H _]; [intros [=]|].
  apply no_resubmit_ok_app in H. destruct H as [_ H]. cbn in H. destruct H as [H _]. now apply H.
Qed.

(* and housekeeping forgets a succeeded signature only when none of the tasks it
   was given has an unsatisfied xtrigger with that signature *)
Theorem c33_forget_only_when_unneeded : forall st o st' evs s,
  xstep st o = (st', evs) -> In (EvForget s) evs ->
  exists tids, o = XHousekeep tids /\ In s (s_sat st) /\ ~ In s (needed_sigs tids (s_tasks st)).
Proof. exact forget_only_unneeded. Qed.

(* ---- 4. dependents of a succeeded signature become satisfied ---- *)
(* call_xtriggers_async(task): every unsatisfied label of that task whose
   signature has succeeded is satisfied afterwards ... *)
Theorem c33_dependents_satisfied : forall st tid now st' evs t e,
  xstep st (XCall tid now) = (st', evs) ->
  find_task tid (s_tasks st) = Some t -> In e (x_entries t) -> e_sat e = false ->
  In (e_sig e) (s_sat st) ->
  forall t', In t' (s_tasks st') -> x_id t' = tid -> label_done (e_label e) (x_entries t').
Proof. exact xstep_call_dependents. Qed.

(* ... and until then the success cannot be forgotten: a signature that a task
   given to housekeep still needs survives housekeeping *)
Theorem c33_needed_survives_housekeeping : forall st tids st' evs s,
  xstep st (XHousekeep tids) = (st', evs) ->
  In s (s_sat st) -> In s (needed_sigs tids (s_tasks st)) -> In s (s_sat st').
Proof. exact xstep_housekeep_keeps. Qed.

(* ---- 5. the caller: the xtrigger section of Scheduler._main_loop (Model/XtrigLoop.v) ---- *)
(* The theorems above take the task list given to housekeep as it comes; what
   keeps a success alive for the POOL is the main loop's choice of that list.
   [LPass now pool pool_hk]: one pass; [pool] = pooled ids with "waiting, not
   queued, not runahead-limited"; [pool_hk] = ALL pooled ids at housekeeping.
   [lstep true] = the code as it is (housekeep gets every pooled task). *)

(* A succeeded signature that SOME pooled task — whatever its runahead / queued /
   held flags or status — still has unsatisfied in its own state survives the
   pass, and its function is not called during the pass. *)
Theorem c33_loop_kept_while_needed : forall st now pool pool_hk st' evs res s,
  lstep true st (LPass now pool pool_hk) = (st', evs, res) ->
  In s (s_sat (l_x st)) ->
  (exists t e, In t (s_tasks (l_x st')) /\ In (x_id t) pool_hk /\ In e (x_entries t)
               /\ e_sat e = false /\ e_sig e = s) ->
  In s (s_sat (l_x st')) /\ (forall n iv, ~ In (EvSubmit s n iv) evs).
Proof.
  intros st now pool pool_hk st' evs res s E Hs Hn.
  eapply pass_keeps_needed; eauto. now apply needed_sigs_spec.
Qed.

(* For every step of the loop (task added, callback delivered, pass): a succeeded
   signature disappears only in a pass in which no pooled task needs it. *)
Theorem c33_loop_forgets_only_unneeded : forall st o st' evs res s,
  lstep true st o = (st', evs, res) ->
  In s (s_sat (l_x st)) -> ~ In s (s_sat (l_x st')) ->
  exists now pool pool_hk, o = LPass now pool pool_hk /\
    ~ (exists t e, In t (s_tasks (l_x st')) /\ In (x_id t) pool_hk /\ In e (x_entries t)
                   /\ e_sat e = false /\ e_sig e = s).
Proof.
  intros st o st' evs res s E Hs Hn.
  destruct (loop_forgets_only_unneeded _ _ _ _ _ s E Hs Hn) as (now & pool & pool_hk & -> & H).
  exists now, pool, pool_hk. split; [reflexivity|]. intros Hex. apply H. now apply needed_sigs_spec.
Qed.

(* Why EVERY pooled task must be passed: with only the tasks whose xtriggers were
   checked in the pass ([lstep false]) the statement is false.  Tasks 1, 2 are
   checked, task 3 is runahead-limited; all need signature 0, which has succeeded:
   the pass satisfies 1 and 2, housekeeping forgets 0 although 3 needs it, and when
   3 is released the function is called again. *)
Theorem c33_loop_variant_only_checked_tasks_refuted :
  exists st now pool pool_hk st' evs res s,
    lstep false st (LPass now pool pool_hk) = (st', evs, res) /\
    In s (s_sat (l_x st)) /\
    (exists t e, In t (s_tasks (l_x st')) /\ In (x_id t) pool_hk /\ In e (x_entries t)
                 /\ e_sat e = false /\ e_sig e = s) /\
    ~ In s (s_sat (l_x st')) /\
    In (EvSubmit s 6 10) (snd (lrun false st' [LPass 6 [(3%nat, true)] [3%nat]])).
Proof.
  pose (e := {| e_label := 0%nat; e_sig := 0%nat; e_clock := None; e_intvl := 10; e_sat := false |}).
  pose (ts := [ {| x_id := 1%nat; x_entries := [e] |}; {| x_id := 2%nat; x_entries := [e] |};
                {| x_id := 3%nat; x_entries := [e] |} ]).
  exists {| l_x := {| s_tnext := [(0%nat, 10)]; s_sat := [0%nat]; s_active := []; s_tasks := ts |}; l_due := true |},
         1, [(1%nat, true); (2%nat, true); (3%nat, false)], [1%nat; 2%nat; 3%nat].
  eexists. eexists. eexists. exists 0%nat.
  split; [vm_compute; reflexivity|]. split; [now left|]. split.
  - exists {| x_id := 3%nat; x_entries := [e] |}, e. vm_compute. tauto.
  - split; [vm_compute; tauto|]. vm_compute. tauto.
Qed.

(* The trace-level discipline of sections 1-3 also holds for every history of the
   loop (tasks entering the pool, callbacks, passes with any pool contents). *)
Theorem c33_loop_discipline : forall ops st evs s,
  lrun true linit ops = (st, evs) ->
  NoDup (s_active (l_x st)) /\ intervals_ok s None evs /\ no_resubmit_ok s false evs.
Proof.
  intros ops st evs s E. split; [|split].
  - eapply lrun_active_NoDup; [exact E|]. cbn. constructor.
  - destruct (lrun_interval s true ops None _ _ _ E) as [H _]; [intros ? [=]|exact H].
  - destruct (lrun_no_resubmit s true ops false _ _ _ E) as [H _]; [intros [=]|exact H].
Qed.

(* ---- non-vacuity: two tasks sharing a signature (interval 5) ---- *)
Example c33_ex_history :
  let e := {| e_label := 0%nat; e_sig := 0%nat; e_clock := None; e_intvl := 5; e_sat := false |} in
  let ts := [ {| x_id := 0%nat; x_entries := [e] |}; {| x_id := 1%nat; x_entries := [e] |} ] in
  let '(st, evs) := xrun (xinit ts)
     [XCall 0%nat 0; XCall 1%nat 1; XCallback 0%nat false; XCall 1%nat 3; XCall 0%nat 5; XCallback 0%nat true;
      XCall 0%nat 6; XHousekeep [0%nat; 1%nat]; XCall 1%nat 7; XHousekeep [0%nat; 1%nat]; XCall 1%nat 8] in
  (evs, s_active st, s_sat st, flags (s_tasks st))
  = ([EvSubmit 0%nat 0 5; EvSubmit 0%nat 5 5; EvSucceed 0%nat; EvForget 0%nat], [], [],
     [(0%nat, [(0%nat, true)]); (1%nat, [(0%nat, true)])]).
Proof. vm_compute. reflexivity. Qed.

(* the seeded scenario (P1 = @poll => foo, runahead P1): 1/foo 2/foo checked, 3/foo runahead-limited;
   the function succeeds at its first call; 3/foo is satisfied WITHOUT another call *)
Example c33_ex_loop :
  let e := {| e_label := 0%nat; e_sig := 0%nat; e_clock := None; e_intvl := 10; e_sat := false |} in
  let t i := {| x_id := i; x_entries := [e] |} in
  snd (lrun true linit
     [LAdd (t 1%nat); LAdd (t 2%nat); LAdd (t 3%nat);
      LPass 0 [(1%nat, true); (2%nat, true); (3%nat, false)] [1%nat; 2%nat; 3%nat];
      LCallback 0%nat true;
      LPass 1 [(1%nat, true); (2%nat, true); (3%nat, false)] [1%nat; 2%nat; 3%nat];
      LPass 6 [(3%nat, true)] [3%nat]])
  = [EvSubmit 0%nat 0 10; EvSucceed 0%nat].
Proof. vm_compute. reflexivity. Qed.
