(* Props/C15.v — C15 "Family triggers expand to all/any of the members' outputs".

   Model: Model/GraphBase.v (token-level model of GraphParser._proc_dep_pair,
   _families_all_to_all, _compute_triggers, _set_triggers, _set_output_opt) with
   the tables of Gen/FamTables.v, which vp/gen/famtables.py prints from the
   current source on every run.  The model is tied to graph_parser.py by the
   C15 correspondence stream (real parse_graph, compared inside Coq).

   "Documented" meaning of the qualifiers (Model/GraphExpr.v): for every entry
   q -> o of task_qualifiers.ALT_QUALIFIERS (succeed, fail, finish, start,
   submit, submit-fail, expire), FAM:q-all is the AND and FAM:q-any the OR, over
   the members m of FAM, of "m has output o" (finished = succeeded or failed).

   All theorems are statements about the *generated* tables: they are re-proved
   against whatever the source contains. *)
From Coq Require Import List Bool Arith String.
From Cylc Require Import Base.Util Gen.FamTables Model.GraphBase Model.GraphExpr Model.FamTrig
  Proofs.GraphExprProofs Proofs.FamTrigProofs.
Import ListNotations.

(* The two family tables define exactly the 14 documented qualifiers. *)
Theorem c15_tables_cover_documented_qualifiers :
  let keys := map fst doc_fam_table in
  forallb (fun k => mem String.eqb k keys) (map fst fam_to_mem_trigger_map) = true
  /\ forallb (fun k => mem String.eqb k (map fst fam_to_mem_trigger_map)) keys = true
  /\ forallb (fun k => mem String.eqb k keys) (map fst fam_to_mem_output_map) = true
  /\ forallb (fun k => mem String.eqb k (map fst fam_to_mem_output_map)) keys = true.
Proof. exact table_domains. Qed.

(* LEFT SIDE, one family node.  For every qualifier q (with documented member
   output o), every family (any size >= 1: the proof is an induction on the
   member list), every offset and with or without "?": the text that replaces
   FAM[off]:q-all / FAM[off]:q-any in the trigger expression evaluates, under
   every assignment v of truth values to member outputs, to the AND / OR over
   the members of "member has o".
   This holds for all 14 qualifiers.  (Until /repo commit 399a6c1 the entry
   submit-fail-any mapped to member:submitted; the theorem then carried the
   exclusion `(q, all) <> ("submit-fail", false)` and a refutation theorem for
   that entry - finding c15:lhs-submit-fail-any-expands-to-submitted, fixed.) *)
Theorem c15_family_lhs : forall fm F ms off q o all opt v,
  In (q, o) alt_qualifiers ->
  fam_members fm F = Some ms -> ms <> [] ->
  exists toks atoms,
    expand_left fm [TN (mkNode F off (Some (fam_qual q all)) opt)] = Ok (toks, atoms)
    /\ eval_toks v toks
       = Some (if all then forallb (member_holds v off o) ms
               else existsb (member_holds v off o) ms).
Proof.
  intros fm F ms off q o all opt v Hq. apply family_lhs; [exact Hq|].
  exact (lhs_entries_ok q o all Hq).
Qed.

(* LEFT SIDE, any expression: family nodes (nested/overlapping families are just
   other entries of the family map), offsets, plain task triggers with alias /
   standard / custom qualifiers, combined with & | ( ).  If every node is
   accepted by the parser and every family node's table entry is the documented
   one ([left_node_ok]), the stored expression denotes the written expression
   with every node read by its documented meaning ([doc_node]). *)
Theorem c15_left_expression : forall fm e v,
  wf_lvl 0 e = true ->
  forallb (left_node_ok fm) (nodes_e e) = true ->
  exists toks atoms,
    expand_left fm (print_e e) = Ok (toks, atoms)
    /\ eval_toks v toks = Some (eval_e (doc_node fm v) e).
Proof. exact left_expression_meaning. Qed.

(* every documented entry satisfies [fam_entry_ok] (hence [left_node_ok]) *)
Theorem c15_lhs_entries_ok : forall q o all,
  In (q, o) alt_qualifiers ->
  fam_entry_ok (fam_qual q all) = true.
Proof. exact lhs_entries_ok. Qed.

(* RIGHT SIDE.  A family node FAM:q-all / FAM:q-any (optionally "!FAM...",
   optionally "?") on the right of a trigger [expr]: whenever the parser accepts
   it, every member (families of every size; members not mentioned before in
   the graph) has received exactly that trigger with that suicide flag, and -
   unless it is a suicide trigger - every documented member output
   (finish: succeeded and failed, made optional) carries the declared
   optionality as its family default (optional, default, not fixed).
   This holds for all 14 qualifiers with today's fam_to_mem_output_map. *)
Theorem c15_family_rhs : forall fm eoc expr atoms st F ms q o all opt (suicide : bool) st',
  In (q, o) alt_qualifiers ->
  fam_members fm F = Some ms -> NoDup ms -> (forall m, In m ms -> fresh_member st m) ->
  proc_right fm eoc expr atoms st
    ((if suicide then [TBang] else []) ++ [TN (mkNode F 0 (Some (fam_qual q all)) opt)]) = Ok st' ->
  forall m, In m ms ->
    assoc Nat.eqb m (ps_trig st') = Some [mkTrig expr atoms suicide]
    /\ (suicide = false ->
        forall o', In o' (doc_outputs o) ->
          assoc optkey_eqb (m, o') (ps_opt st')
          = Some (let d := if String.eqb o TASK_OUTPUT_FINISHED then true else opt in (d, d, false))).
Proof.
  intros fm eoc expr atoms st F ms q o all opt suicide st' Hq Hf Hnd Hfr H m Hm.
  exact (family_rhs fm eoc expr atoms st F ms q o all opt suicide st' Hq
           (rhs_entries_ok q o all Hq) Hf Hnd Hfr H m Hm).
Qed.

(* A bare family name on the right ("a => FAM"): every member gets the trigger,
   optionality is untouched. *)
Theorem c15_family_rhs_plain : forall fm eoc expr atoms st F ms opt (suicide : bool) st',
  expr <> [] ->
  fam_members fm F = Some ms -> NoDup ms -> (forall m, In m ms -> fresh_member st m) ->
  proc_right fm eoc expr atoms st
    ((if suicide then [TBang] else []) ++ [TN (mkNode F 0 None opt)]) = Ok st' ->
  (forall m, In m ms -> assoc Nat.eqb m (ps_trig st') = Some [mkTrig expr atoms suicide])
  /\ ps_opt st' = ps_opt st.
Proof. exact family_rhs_plain. Qed.

(* ---- non-vacuity: whole lines through the model of parse_graph ---- *)
Local Open Scope string_scope.
Definition ex_fm : family_map := [(20, [1; 2; 3]); (21, [2; 3]); (22, [7; 8])].
(* F20[-P1]:fail-any? & t5 | (F21:finish-all | t6:x) => F22:succeed-all? & !t9 *)
Definition ex_left : lexpr :=
  LOr (LAnd (LN (mkNode 20 1 (Some "fail-any") true)) (LN (mkNode 5 0 None false)))
      (LPar (LOr (LN (mkNode 21 0 (Some "finish-all") false)) (LN (mkNode 6 0 (Some "x") false)))).
Definition ex_right : list tok :=
  [TN (mkNode 22 0 (Some "succeed-all") true); TAnd; TBang; TN (mkNode 9 0 None false)].

Example c15_ex_wf : wf_lvl 0 ex_left = true /\ forallb (left_node_ok ex_fm) (nodes_e ex_left) = true.
Proof. vm_compute. auto. Qed.

(* the line is accepted; members t7, t8 of F22 and the suicide target t9 get
   one trigger each; t7/t8:succeeded are optional family defaults *)
Example c15_ex_line :
  match run_line ex_fm (print_e ex_left) ex_right [] with
  | Ok st =>
      map (fun n => option_map (@List.length trig) (assoc Nat.eqb n (ps_trig st))) [7; 8; 9]
        = [Some 1; Some 1; Some 1]
      /\ assoc optkey_eqb (7, "succeeded") (ps_opt st) = Some (true, true, false)
      /\ assoc optkey_eqb (8, "succeeded") (ps_opt st) = Some (true, true, false)
      /\ assoc optkey_eqb (2, "failed") (ps_opt st) = Some (true, true, false)
  | _ => False
  end.
Proof. vm_compute. auto. Qed.

(* the right-hand theorem's hypotheses are satisfiable for every qualifier *)
Example c15_ex_rhs_all_qualifiers :
  forallb (fun qo =>
    forallb (fun all =>
      match proc_right ex_fm [] [TN (mkNode 5 0 (Some "succeeded") false)] [(5, 0, "succeeded")] empty_state
              [TN (mkNode 20 0 (Some (fam_qual (fst qo) all))
                     (String.eqb (snd qo) "expired" || String.eqb (snd qo) "submit-failed"))] with
      | Ok _ => true | _ => false end) [true; false]) alt_qualifiers = true.
Proof. vm_compute. reflexivity. Qed.
