(* Props/C30.v — C30 "Removing a task undoes exactly its effects".
   Pool automaton: ECmdRemove t erases the history of instance t. *)
From Coq Require Import List Bool ZArith.
From Cylc Require Import Base.Util Model.Pool Proofs.PoolProofs Proofs.PoolTheorems Props.C01.
Import ListNotations.

(* The removed instance's completed outputs (except the record of absolute
   outputs, which the code keeps), its submissions and its history entries are
   erased and nothing else is; hold set, hold point and the ids of the pooled
   tasks are unchanged (the pool removal itself is a separate ERemove). *)
Theorem c30_erases_exactly_its_history : forall c s t s',
  step c s (ECmdRemove t) = Ok s' ->
  (forall k, In k (done s') <-> In k (done s) /\ (fst k <> t \/ In k (abs_done s))) /\
  (forall x, In x (subs s') <-> In x (subs s) /\ fst x <> t) /\
  (forall h, In h (hist s') <-> In h (hist s) /\ h_id h <> t) /\
  to_hold s' = to_hold s /\ hold_pt s' = hold_pt s /\ abs_done s' = abs_done s /\
  map p_id (pool s') = map p_id (pool s).
Proof. exact remove_erases_history. Qed.

(* Frame: every pooled task keeps its status, outputs, flows, force-satisfied
   prerequisites, held flag and submit number; of its naturally satisfied
   prerequisites exactly those that came from the removed instance are unset. *)
Theorem c30_other_tasks_unchanged : forall c s t s' p,
  step c s (ECmdRemove t) = Ok s' -> In p (pool s) ->
  exists p', In p' (pool s') /\ p_id p' = p_id p /\ p_status p' = p_status p /\ p_outs p' = p_outs p /\
    p_flows p' = p_flows p /\ p_forced p' = p_forced p /\ p_held p' = p_held p /\ p_sn p' = p_sn p /\
    (forall k, In k (p_sat p') <-> In k (p_sat p) /\ fst k <> t).
Proof. exact remove_frame. Qed.

(* Because the submissions are erased the instance can run again later: after
   the removal no submission of t is on record. *)
Theorem c30_can_run_again : forall c s t s',
  step c s (ECmdRemove t) = Ok s' -> forall sn, ~ In (t, sn) (subs s').
Proof.
  intros c s t s' H sn Hin. destruct (remove_erases_history c s t s' H) as [_ [Hs _]].
  apply Hs in Hin. destruct Hin as [_ Hne]. now apply Hne.
Qed.

(* "removes children left with no satisfied prerequisites" and removal from a
   subset of flows are checked by the oracle / not modelled (flow-specific
   removal is not generated): partial. *)
