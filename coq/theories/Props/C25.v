(* Props/C25.v — placeholder while the pipeline is brought up. *)
From Coq Require Import List Bool NArith.
From Cylc Require Import Base.Util Model.Store Proofs.StoreProofs.
Import ListNotations.

Theorem c25_replica_snoc : forall q d, replica (q ++ [d]) = client_apply (replica q) d.
Proof. exact replica_snoc. Qed.
