(* Props/C25.v — C25 "The published data store reflects the task pool".

   Model/Store.v models the task-proxy part of cylc/flow/data_store_mgr.py
   (DataStoreMgr, module-level apply_delta) and the way scheduler.py /
   commands.py drive it; it is tied to /repo by the C25 streams: the delta_*
   calls, every article put on the publish queue and the real client replica of
   each generated scheduler run are replayed / compared inside Coq
   (vp/props/c25.py).  Every proof below is `exact <lemma>` from
   Proofs/StoreProofs.v. *)
From Coq Require Import List Bool NArith.
From Cylc Require Import Base.Util Gen.StoreTables Model.Store Proofs.StoreProofs.
Import ListNotations.
Local Open Scope N_scope.

(* ---------------------------------------------------------------------- *)
(* 1. "A client that starts from the initial published snapshot and applies
      every published delta in order holds the same data as the scheduler."

   [sched_run p]: the manager after any sequence p of delta_* calls (SDelta),
   Scheduler.update_data_structure (SUpdate), Scheduler._update_workflow_state
   (SWfState), the reload command (SReload) and run_scheduler's unconditional
   put (SStartPut).  [replica q] folds the client's apply_delta (clear on
   `reloaded`) over the queue q starting from the empty store.  [seq] is
   equality of the two stores, id by id, on every modelled field except the
   repeated field that apply_delta does not clear (`edges`; `strip`). *)

(* delta algebra, for all sequences: queue plus what is handed over but not yet
   put (publish_pending) always reproduces the scheduler's store *)
Theorem c25_replica_equals_store_partial : forall p,
  let s := sched_run p in seq (replica (s_queue s ++ outstanding s)) (s_data s).
Proof. exact replica_equals_store. Qed.

(* ... and after every data-store update of the main loop nothing is outstanding:
   the client holds the scheduler's store *)
Theorem c25_replica_after_update_partial : forall p o,
  (exists b, o = SUpdate b) \/ o = SWfState ->
  let s := sched_run (p ++ [o]) in seq (replica (s_queue s)) (s_data s).
Proof. exact replica_equals_store_after_update. Qed.

(* The full statement (plain equality, every field) ... *)
Definition c25_replica_strict : Prop := forall p o,
  (exists b, o = SUpdate b) \/ o = SWfState ->
  let s := sched_run (p ++ [o]) in seq_strict (replica (s_queue s)) (s_data s).

(* ... is false of the faithful model, because it is false of the code (finding
   "replica-repeated-field-multiplicity"): a task enters the pool (ghost node
   `added`), generate_edge appends an edge id to its pending `updated` element,
   one update_data_structure.  apply_delta merges `updated` into the very object
   that is published as `added`, so the client merges the edge id twice. *)
Definition c25_witness_pv : pv := mkPv 0 false false true [1%N] [(0%N, false)] [].
Definition c25_witness : list sop :=
  [SDelta (OpGhost 0 false (Some c25_witness_pv)); SDelta (OpGhost 1 false None);
   SDelta (OpEdge 1 0 7); SDelta (OpState 0 c25_witness_pv)].
Theorem c25_replica_strict_refuted : ~ c25_replica_strict.
Proof.
  intros H. specialize (H c25_witness (SUpdate true) (or_introl (ex_intro _ true eq_refl)) 0%N).
  vm_compute in H. discriminate H.
Qed.
(* what the two sides hold for task 0: edges [7] in the store, [7; 7] in the replica *)
Example c25_witness_edges :
  let s := sched_run (c25_witness ++ [SUpdate true]) in
  option_map n_edges (sget 0%N (s_data s)) = Some [7%N]
  /\ option_map n_edges (sget 0%N (replica (s_queue s))) = Some [7%N; 7%N].
Proof. vm_compute. split; reflexivity. Qed.

(* the ingredients, each for all inputs: the published batch (with the aliased
   `added` elements) has the effect of the applied batch; apply_delta respects
   store equality; publishing the same batch twice is harmless on these fields *)
Theorem c25_published_batch_equiv : forall d s, seq (apply_delta (alias_delta d) s) (apply_delta d s).
Proof. exact apply_alias. Qed.
Theorem c25_apply_delta_congruent : forall d a b, seq a b -> seq (apply_delta d a) (apply_delta d b).
Proof. exact apply_congr. Qed.
Theorem c25_duplicate_publish_harmless : forall d r, seq (client_apply (client_apply r d) d) (client_apply r d).
Proof. exact client_twice. Qed.
(* MergeFrom of task-proxy elements is a monoid action (associative, the empty element is neutral) *)
Theorem c25_merge_assoc : forall n u v, upd_node (upd_node n u) v = upd_node n (upd_node u v).
Proof. exact upd_assoc. Qed.

(* ---------------------------------------------------------------------- *)
(* 2. "After every data-store update in the main loop, every task in the pool
      appears in the published data store with the same status, held, queued
      and runahead flags, flow numbers, completed outputs and prerequisite
      satisfaction."

   [prun] runs a program of pool mutations, each with the data-store calls
   the scheduler makes for it (PAdd: generate_ghost_task / delta_from_task_proxy
   + delta_task_state; PState: delta_task_state, whose "set the field only if it
   differs from the store or from the pending delta" rule is modelled literally;
   POutputs, PPrereqs, PFlows; PRemove; POther: any delta_* call about ids that
   are not in the pool, and edges; PUpdate: update_data_structure pruning ids
   outside the pool).  [reflects n p]: node n shows pool values p. *)

Theorem c25_pool_reflected_partial : forall prog ids dd pl s,
  prun ([], init_mgr []) (prog ++ [PUpdate ids dd]) = Some (pl, s) ->
  forall i p, sget i pl = Some p -> exists n, sget i (s_data s) = Some n /\ reflects n p.
Proof. exact pool_reflected. Qed.

(* between updates: what the next batch will store for a pooled task is the pool's view *)
Theorem c25_pool_reflected_pending : forall prog pl s,
  prun ([], init_mgr []) prog = Some (pl, s) ->
  forall i p, sget i pl = Some p -> exists n, eff s i = Some n /\ reflects n p.
Proof. exact pool_reflected_pending. Qed.

(* the rule of delta_task_state never loses an update: whatever the store node t and the
   pending delta d hold, after the rule the merged value is the pool's value *)
Theorem c25_state_rule_lossless : forall t d v, getb (oor (rule_flag true t d v) t) = v.
Proof. exact rule_flag_ok. Qed.
Theorem c25_status_rule_lossless : forall t d v, oor (rule_state t d v) t = Some v.
Proof. exact rule_state_ok. Qed.

(* non-vacuity: a program that adds two tasks, changes state / outputs / prerequisites /
   flows, holds a future task, draws an edge, removes a task and updates twice is accepted,
   and the final store shows the surviving pool task *)
Definition c25_p0 : pv := mkPv 0 false false true [1%N] [(0%N, false); (1%N, false)] [(false, [false])].
Definition c25_prog : list pop :=
  [PAdd 0 c25_p0 false; PAdd 1 c25_p0 true; POther (OpGhost 2 false None); POther (OpEdge 2 0 5);
   PState 0 0 false true false; PUpdate [] [];
   PPrereqs 0 [(true, [true])]; PState 0 2 false false false; POther (OpHeld 2 true);
   POutputs 0 [(0%N, true); (1%N, false)]; PFlows 0 [1%N; 2%N]; PRemove 1;
   PState 0 4 false false false; PUpdate [1%N] [1%N]].
Example c25_prog_accepted :
  match prun ([], init_mgr []) c25_prog with
  | Some (pl, s) =>
      sget 0%N pl = Some (mkPv 4 false false false [1%N; 2%N] [(0%N, true); (1%N, false)] [(true, [true])])
      /\ option_map n_state (sget 0%N (s_data s)) = Some (Some 4%N)
      /\ option_map n_flows (sget 0%N (s_data s)) = Some (Some [1%N; 2%N])
      /\ sget 1%N (s_data s) = None
      /\ option_map n_held (sget 2%N (s_data s)) = Some (Some true)
  | None => False
  end.
Proof. vm_compute. repeat split; reflexivity. Qed.

(* Partial: not covered by theorem 2 is update_workflow_states() running while task-proxy
   deltas are pending (it applies and publishes them without clearing, so they are applied
   again by the next update_data_structure); theorem 1, the replay of real runs and the
   oracle cover it.  The n-window walk (which ghost nodes exist, which are pruned), jobs,
   families and the workflow element are not modelled; the oracle compares them at run time. *)
