(* Props/C31.v — C31 "Sequential tasks never overlap and run in cycle order".
   In the instance graph an instance (p, t) of a sequential task carries the
   extra prerequisite  (prev, t):succeeded  where prev is t's previous point on
   its sequences (pre-satisfied when prev is before the start point). *)
From Coq Require Import List Bool ZArith.
From Cylc Require Import Base.Util Model.Pool Proofs.PoolProofs Proofs.PoolTheorems.
Import ListNotations.

(* Whenever a submission of an instance whose prerequisites contain the atom
   (q, n):succeeded is accepted (and it was not manually triggered), the
   succeeded output of (q, n) was completed earlier in the run. *)
Theorem c31_submitted_only_after_previous_succeeded : forall c tr1 tr2 t sn sf i q,
  exec c (init_state c) (tr1 ++ ESubmit t sn :: tr2) = Some sf ->
  find_inst (c_insts c) t = Some i ->
  In (BAtom (q, o_succeeded) false) (i_pre i) ->
  (exists s1 p, exec c (init_state c) tr1 = Some s1 /\ find_task (pool s1) t = Some p /\ p_manual p = true)
  \/ emitted tr1 (q, o_succeeded)
  \/ (exists s1 p, exec c (init_state c) tr1 = Some s1 /\ find_task (pool s1) t = Some p /\
                   In (q, o_succeeded) (p_forced p)).
Proof.
  intros c tr1 tr2 t sn sf i q H Hi Hin.
  destruct (submit_only_when_satisfied c tr1 tr2 t sn sf H) as [s1 [p [i' [H1 [Hf [Hi' [_ [_ [Hm|Hall]]]]]]]]].
  - left. eauto.
  - rewrite Hi in Hi'. injection Hi' as <-. specialize (Hall _ Hin). cbn in Hall.
    destruct Hall as [Hd|[Hd|Hd]]; [discriminate|right; left; exact Hd|right; right; eauto].
Qed.

(* An instance whose succeeded output is complete has left the active states
   in the real scheduler (checked at every tick end by the snapshot equality
   and by the oracle: at most one active instance per sequential task); as a
   theorem about the automaton this needs the task-level model (C09): partial. *)
