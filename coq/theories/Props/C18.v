(* Props/C18.v — C18 "Cycle point and interval algebra is a consistent total
   order".  Property theorems only; the lemmas are in Proofs/PointAlgProofs.v.
   The model (Model/PointAlg.v) is tied to cylc/flow/cycling/__init__.py,
   integer.py and iso8601.py by the two C18 correspondence streams.

   A point is its string value; [parse_int] is Python's int(), [show_z] is
   str(int).  "x", "y" below are the integer values of the points. *)
From Coq Require Import List ZArith String Bool Permutation Sorted.
From Cylc Require Import Base.Util Model.PointAlg Proofs.PointAlgProofs.
Import ListNotations.
Local Open Scope Z_scope.

(* ---------------- integer cycling ---------------- *)

(* PointBase.__cmp__ and the six rich comparisons of two integer points are
   exactly the comparisons of their integer values, whatever the spelling
   ('007' vs '7', '+7', '-0'). *)
Theorem c18_int_cmp_is_value_order : forall a b x y,
  parse_int a = Some x -> parse_int b = Some y ->
  pcmp a b = Ok (x ?= y) /\
  p_eq a b = Ok (x =? y) /\ p_lt a b = Ok (x <? y) /\ p_le a b = Ok (x <=? y) /\
  p_gt a b = Ok (y <? x) /\ p_ge a b = Ok (y <=? x).
Proof.
  intros a b x y Ha Hb. split; [exact (pcmp_value a b x y Ha Hb)|exact (p_ops_value a b x y Ha Hb)].
Qed.

(* ... hence a total order: reflexive, equal exactly when the values are
   equal, antisymmetric, transitive, total. *)
Theorem c18_int_total_order : forall a b c x y z,
  parse_int a = Some x -> parse_int b = Some y -> parse_int c = Some z ->
  pcmp a a = Ok Eq /\
  (pcmp a b = Ok Eq <-> x = y) /\
  (pcmp a b = Ok Lt <-> pcmp b a = Ok Gt) /\
  (pcmp a b = Ok Lt -> pcmp b c = Ok Lt -> pcmp a c = Ok Lt) /\
  (pcmp a b = Ok Lt \/ pcmp a b = Ok Eq \/ pcmp a b = Ok Gt).
Proof. exact pcmp_order_laws. Qed.

(* sorted(points) succeeds on parseable points and returns a permutation of
   the input in non-decreasing value order. *)
Theorem c18_int_sorted : forall l,
  all_parse l -> exists l', psort l = Ok l' /\ Permutation l l' /\ Sorted le_val l'.
Proof. exact psort_spec. Qed.

(* The same for intervals; IntegerInterval.from_integer is a right inverse of
   the interval's integer value. *)
Theorem c18_interval_cmp_is_value_order : forall i j x y,
  iparse i = Some x -> iparse j = Some y -> icmp i j = Ok (x ?= y).
Proof. exact icmp_value. Qed.

Theorem c18_interval_from_integer : forall z, iparse (from_integer z) = Some z.
Proof. exact iparse_from_integer. Qed.

(* Equal points hash equal: two standardised points (in particular points
   built from integers, [of_int]) that compare equal have the same value
   string, so any hash computed from the string (PointBase.__hash__ =
   hash(self.value)) agrees. *)
Theorem c18_int_equal_points_hash_equal : forall (hash : string -> Z) a b,
  standardised a -> standardised b -> p_eq a b = Ok true ->
  a = b /\ p_hash_eq a b = true /\ hash a = hash b.
Proof.
  intros hash a b Ha Hb He. pose proof (std_eq_same_string a b Ha Hb He) as ->.
  unfold p_hash_eq. now rewrite String.eqb_refl.
Qed.

Theorem c18_int_from_integer_standardised : forall z,
  standardised (of_int z) /\ parse_int (of_int z) = Some z.
Proof. intros z. split; [apply standardised_show|apply parse_show]. Qed.

(* standardise is idempotent and preserves the value *)
Theorem c18_int_standardise_idempotent : forall s s',
  pstd s = Ok s' -> pstd s' = Ok s' /\ parse_int s' = parse_int s.
Proof. exact pstd_idem. Qed.

(* (p + i) - i = p and (p - i) + i = p: always as values, and as strings (so
   also as hashes) when p is standardised. *)
Theorem c18_int_add_sub : forall p x d,
  parse_int p = Some x ->
  bind (padd p d) (fun s => psub s d) = Ok (show_z x) /\
  bind (psub p d) (fun s => padd s d) = Ok (show_z x) /\
  (standardised p -> show_z x = p).
Proof.
  intros p x d Hp. split; [exact (add_sub_value p x d Hp)|].
  split; [exact (sub_add_value p x d Hp)|].
  intros Hs. destruct (standardised_value p Hs) as [x' [Hx' E]]. congruence.
Qed.

(* q + (p - q) = p *)
Theorem c18_int_diff_add : forall p q x y,
  parse_int p = Some x -> parse_int q = Some y ->
  bind (psubp p q) (fun i => bind (mk_interval i) (fun d => padd q d)) = Ok (show_z x).
Proof. exact diff_add_value. Qed.

(* ---------------- datetime cycling ---------------- *)
(* isodatetime enters as: [inst] (string -> instant, None = does not parse),
   [fmt] (instant -> dump in the workflow's cycle point format and time zone),
   [resol] (resolution of that format in seconds), [isecs] (length of a
   fixed-length interval string).  The only facts assumed are that the
   resolution is positive and that an instant on the format's grid survives
   dump-then-parse; the datetime stream validates both (and the definitions of
   dstd/dadd/dsub from them) against an independent calendar on every case. *)
Definition iso_calendar_ok (inst : string -> option Z) (fmt : Z -> string) (resol : Z) : Prop :=
  0 < resol /\ forall z, z mod resol = 0 -> inst (fmt z) = Some z.

Theorem c18_iso_cmp_is_instant_order : forall inst a b c x y z,
  inst a = Some x -> inst b = Some y -> inst c = Some z ->
  dcmp inst a b = Ok (x ?= y) /\
  dcmp inst a a = Ok Eq /\
  (dcmp inst a b = Ok Eq <-> x = y) /\
  (dcmp inst a b = Ok Lt <-> dcmp inst b a = Ok Gt) /\
  (dcmp inst a b = Ok Lt -> dcmp inst b c = Ok Lt -> dcmp inst a c = Ok Lt) /\
  (dcmp inst a b = Ok Lt \/ dcmp inst a b = Ok Eq \/ dcmp inst a b = Ok Gt).
Proof.
  intros inst a b c x y z Ha Hb Hc. split; [exact (dcmp_value inst a b x y Ha Hb)|].
  exact (dcmp_order_laws inst a b c x y z Ha Hb Hc).
Qed.

Theorem c18_iso_standardise_idempotent : forall inst fmt resol s s',
  iso_calendar_ok inst fmt resol ->
  dstd inst fmt resol s = Ok s' ->
  dstd inst fmt resol s' = Ok s' /\
  (forall z, inst s = Some z -> z mod resol = 0 -> inst s' = Some z).
Proof. intros inst fmt resol s s' [H1 H2]. exact (dstd_idem inst fmt resol H1 H2 s s'). Qed.

Theorem c18_iso_equal_points_hash_equal : forall (hash : string -> Z) inst fmt resol a0 b0 a b,
  iso_calendar_ok inst fmt resol ->
  dstd inst fmt resol a0 = Ok a -> dstd inst fmt resol b0 = Ok b ->
  dcmp inst a b = Ok Eq -> a = b /\ hash a = hash b.
Proof.
  intros hash inst fmt resol a0 b0 a b [H1 H2] Ha Hb He.
  pose proof (dstd_eq_same_string inst fmt resol H1 H2 a0 b0 a b Ha Hb He) as ->. auto.
Qed.

(* for a standardised point p and a fixed-length interval of d seconds on the
   format's grid: p + i denotes the instant of p plus d, and (p + i) - i is
   the string p again. *)
Theorem c18_iso_add_sub : forall inst fmt resol isecs p0 p i d,
  iso_calendar_ok inst fmt resol ->
  dstd inst fmt resol p0 = Ok p -> isecs i = Some d -> d mod resol = 0 ->
  exists q z, inst p = Some z /\
    dadd inst fmt resol isecs p i = Ok q /\ inst q = Some (z + d) /\
    dsub inst fmt resol isecs q i = Ok p.
Proof.
  intros inst fmt resol isecs p0 p i d [H1 H2]. exact (dadd_dsub inst fmt resol isecs H1 H2 p0 p i d).
Qed.

(* ---------------- several configurations in one process ---------------- *)
(* The datetime theorems above are per configuration (one iso8601.init: time
   zone, cycle point format, expanded year digits, calendar).  When init is
   called again in the same process the answers must be those of the
   configuration in force, i.e. a function of (configuration, operands) only:
   [pure_rop] is exactly dcmp / dstd / dadd / dsub of that configuration, to
   which c18_iso_* apply.  With the lru_caches of ISO8601Point modelled
   ([run_scenario]), this holds for every history of configurations and
   operations provided the cache key determines what the cached functions
   depend on ... *)
Theorem c18_reinit_consistent : forall isecs (keyf : config -> Z),
  (forall c1 c2 o, keyf c1 = keyf c2 -> pure_rop isecs c1 o = pure_rop isecs c2 o) ->
  forall steps,
  run_scenario isecs keyf [] steps = map (fun '(c, o) => pure_rop isecs c o) steps.
Proof.
  intros isecs keyf Hk steps. apply run_scenario_spec; [exact Hk|]. intros ? ? ? ? ? [].
Qed.

(* ... which is FALSE of the code as it stands (finding): the key of
   _iso_point_cmp / _iso_point_add / _iso_point_sub_interval contains the
   calendar mode only, not the time zone or the cycle point format. *)
Definition c18_reinit_consistent_as_keyed : Prop :=
  forall isecs steps,
  run_scenario isecs cf_cal [] steps = map (fun '(c, o) => pure_rop isecs c o) steps.

(* witness: format CCYYMMDDThhmm; "x" = 20000101T0000 is instant 0 under time
   zone +01 and instant 60 under Z, "y" = 20000101T0030Z is instant 30 *)
Definition cfg_plus01 : config :=
  {| cf_cal := 0; cf_inst := fun s => if String.eqb s "x" then Some 0 else if String.eqb s "y" then Some 30 else None;
     cf_fmt := show_z; cf_resol := 1 |}.
Definition cfg_utc : config :=
  {| cf_cal := 0; cf_inst := fun s => if String.eqb s "x" then Some 60 else if String.eqb s "y" then Some 30 else None;
     cf_fmt := show_z; cf_resol := 1 |}.

Theorem c18_reinit_consistent_as_keyed_refuted : ~ c18_reinit_consistent_as_keyed.
Proof.
  intros H. specialize (H (fun _ => None) [(cfg_plus01, RCmp "x" "y"); (cfg_utc, RCmp "x" "y")]).
  vm_compute in H. discriminate H.
Qed.

Example c18_ex_reinit_stale :
  run_scenario (fun _ => None) cf_cal [] [(cfg_plus01, RCmp "x" "y"); (cfg_utc, RCmp "x" "y")]
    = [ROCmp Lt; ROCmp Lt] /\
  map (fun '(c, o) => pure_rop (fun _ => None) c o) [(cfg_plus01, RCmp "x" "y"); (cfg_utc, RCmp "x" "y")]
    = [ROCmp Lt; ROCmp Gt].
Proof. split; reflexivity. Qed.

(* ---------------- non-vacuity and observations ---------------- *)
Example c18_ex_cmp : pcmp "007" "+7" = Ok Eq /\ pcmp "9" "10" = Ok Lt /\ pcmp "-9" "-10" = Ok Gt
  /\ pcmp "abc" "1" = Err ValueError /\ pcmp "abc" "abc" = Ok Eq.
Proof. vm_compute. repeat split. Qed.
Example c18_ex_std : pstd "+007" = Ok "7"%string /\ standardised "7" /\ standardised "-12".
Proof. vm_compute. repeat split. Qed.
Example c18_ex_arith :
  bind (padd "007" (-3)) (fun s => psub s (-3)) = Ok "7"%string /\ psubp "2" "10" = Ok "-P8"%string.
Proof. vm_compute. repeat split. Qed.
Example c18_ex_sort : psort ["10"; "9"; "09"; "-1"; "+9"; "1"]%string = Ok ["-1"; "1"; "9"; "09"; "+9"; "10"]%string.
Proof. vm_compute. reflexivity. Qed.
(* Observation (outside the property's domain, which is points built from
   integers or standardised): non-standardised spellings of one value are
   equal but are different strings, hence hash differently. *)
Example c18_obs_raw_points_hash : p_eq "01" "1" = Ok true /\ p_hash_eq "01" "1" = false.
Proof. vm_compute. split; reflexivity. Qed.
(* the calendar hypotheses are satisfiable: minutes-as-integers toy calendar *)
Example c18_ex_calendar : iso_calendar_ok parse_int show_z 60.
Proof. split; [reflexivity|]. intros z _. apply parse_show. Qed.
Example c18_ex_iso :
  dstd parse_int show_z 60 "+0125" = Ok "120"%string /\
  dadd parse_int show_z 60 iparse "120" "P60" = Ok "180"%string /\
  dsub parse_int show_z 60 iparse "180" "P60" = Ok "120"%string.
Proof. vm_compute. repeat split. Qed.
