(* Props/C19.v — C19 "Stop-and-restart preserves the workflow state".
   In the pool automaton a restart is the event sequence
     ERestart ; ERestore v1 ; ... ; ERestore vn ; ERestartDone
   where each [vi] is what the real scheduler reloaded from its database for
   one task.  ERestart computes, from the abstract pool, what must come back
   ([restored]); ERestore accepts a reloaded task only if it equals that;
   ERestartDone is accepted only if nothing is missing. *)
From Coq Require Import List Bool ZArith.
From Cylc Require Import Base.Util Model.Pool Proofs.PoolProofs Proofs.PoolTheorems Props.C01.
Import ListNotations.

(* What must come back for one task: the same id, held flag, flow numbers,
   satisfied prerequisites, completed outputs and manual flag; a preparing
   task comes back waiting under the previous submit number (so that it is
   prepared again under the same one); any other status and submit number
   unchanged. *)
Theorem c19_restored_spec : forall p,
  p_id (restored p) = p_id p /\ p_held (restored p) = p_held p /\ p_flows (restored p) = p_flows p /\
  p_sat (restored p) = p_sat p /\ p_outs (restored p) = p_outs p /\ p_manual (restored p) = p_manual p /\
  (p_status p = Preparing -> p_status (restored p) = Waiting /\ p_sn (restored p) = Nat.pred (p_sn p)) /\
  (p_status p <> Preparing -> p_status (restored p) = p_status p /\ p_sn (restored p) = p_sn p).
Proof. exact restored_spec. Qed.

(* Every task the restart gives back equals the expectation for a pooled task ... *)
Theorem c19_each_reloaded_task_is_expected : forall c s v s',
  crash_mode s = false ->
  step c s (ERestore v) = Ok s' ->
  exists p, find_task (saved s) (v_id v) = Some p /\ view_matches p v = true /\
            pool s' = pool s ++ [p] /\ saved s' = remove_task (saved s) (v_id v) /\ crash_mode s' = false.
Proof. exact restore_matches_expected. Qed.

(* ... and, end to end, an accepted restart leaves exactly the old pool, task
   by task as [restored] says: nothing lost, nothing added, nothing altered. *)
Theorem c19_restart_roundtrip : forall c s vs s',
  exec c s (ERestart :: map ERestore vs ++ [ERestartDone]) = Some s' ->
  forall q, In q (pool s') <-> In q (map restored (pool s)).
Proof. exact restart_roundtrip. Qed.

(* The hold set, hold point, stop point, stop task, the record of completed
   outputs, absolute outputs, submissions and task history are carried over. *)
Theorem c19_persistent_state_kept : forall c s s',
  step c s ERestart = Ok s' ->
  saved s' = map restored (pool s) /\ pool s' = [] /\
  to_hold s' = to_hold s /\ hold_pt s' = hold_pt s /\ stop_point s' = stop_point s /\
  stop_task s' = stop_task s /\ subs s' = subs s /\ done s' = done s /\ abs_done s' = abs_done s /\
  hist s' = hist s.
Proof. exact restart_keeps_persistent_state. Qed.

(* The invariants behind C01/C02/C07/C26 hold across any number of restarts:
   the reachable-state invariant is preserved by the restart events too. *)
Theorem c19_invariant_across_restarts : forall c tr s,
  exec c (init_state c) tr = Some s -> Inv c s.
Proof. exact reachable_Inv. Qed.

(* "The continued run runs the same instances to the same outputs as an
   uninterrupted run" is checked per scenario by the oracle (both runs are
   executed); as a theorem it would need a deterministic scheduler model:
   partial. *)

Example c19_ex_lost_output_rejected :
  run C01.ex_cfg
    [ ESpawn C01.a [1%nat] [] false; EAdd C01.a; ELimit (Some 1%Z);
      EState C01.a Waiting false false false; EState C01.a Waiting false true false;
      EReleaseBegin; EState C01.a Waiting false false false; ERelease [C01.a];
      EState C01.a Preparing false false false; ESubmit C01.a 1%nat;
      EOutput C01.a 1%nat; EState C01.a Submitted false false false;
      ERestart;
      ERestore {| v_id := C01.a; v_status := Submitted; v_held := false; v_queued := false; v_runahead := true;
                  v_flows := [1%nat]; v_sat := []; v_outs := []; v_sn := 1%nat; v_fsat := [] |} ] = Some (13%nat, 222%nat).
Proof. vm_compute. reflexivity. Qed.

(* Broadcasts.  The broadcast settings in force are an opaque identifier in the
   automaton (the harness interns the canonical table).  At the end of every
   accepted iteration the database holds exactly the settings in force ... *)
Theorem c19_database_holds_broadcasts : forall c s n s',
  step c s (EBcastDb n) = Ok s' -> n = bcast s /\ s' = s.
Proof. exact bcast_db_agrees. Qed.

(* ... nothing but a broadcast event changes them ... *)
Theorem c19_broadcasts_frame : forall c tr s s',
  exec c s tr = Some s' ->
  (forall n, ~ In (EBcast n) tr) -> (forall n, ~ In (EBcastLoaded n) tr) -> bcast s' = bcast s.
Proof. exact bcast_frame. Qed.

(* ... so what an accepted (clean) restart loads is what was in force before
   the stop, however long the stop/restart stretch of events is. *)
Theorem c19_restart_gives_broadcasts_back : forall c tr s0 s1 n s2,
  exec c s0 tr = Some s1 -> step c s1 (EBcastLoaded n) = Ok s2 -> crash_mode s1 = false ->
  (forall m, ~ In (EBcast m) tr) -> (forall m, ~ In (EBcastLoaded m) tr) ->
  n = bcast s0 /\ bcast s2 = bcast s0.
Proof. exact restart_gives_broadcasts_back. Qed.
