(* Props/C42.v — C42 "The subprocess pool runs every command once, within its bounds".
   Model: Model/SubProc.v (hand model of SubProcPool), tied to the real class by
   the "subproc" correspondence stream (real processes).
   Property text: every command put into the pool gets exactly one callback
   (including when it times out or the pool is stopping), no more than the
   configured pool size run concurrently, and job-submission commands are not
   started once the pool is stopping.
   Histories: any list of events put / process(done) / set_stopping / close /
   terminate(done), where [done] is ANY set of command ids (what the OS reports
   as exited or past the timeout) — the theorems quantify over it. *)
From Coq Require Import List Bool Arith Lia.
From Cylc Require Import Base.Util Model.SubProc Proofs.SubProcProofs.
Import ListNotations.

(* ---- within bounds ---- *)
(* after every history, no more than [size] commands are in the running list *)
Theorem c42_bound : forall fx size es p os,
  run fx (new_pool size) es = (p, os) -> length (p_running p) <= size.
Proof.
  intros fx size es p os E.
  destruct (run_bound fx es _ _ _ E) as [H1 H2]; [cbn; lia|]. cbn in H2. lia.
Qed.

(* (the invariant, for an arbitrary step) *)
Theorem c42_bound_step : forall fx p e p' o,
  step fx p e = (p', o) -> length (p_running p) <= p_size p ->
  length (p_running p') <= p_size p' /\ p_size p' = p_size p.
Proof. exact step_bound. Qed.

(* ---- no job submission once stopping ---- *)
(* a command enters the running list only out of the queue and only in process();
   if the pool was stopping it is not a jobs-submit command; terminate() and the
   other events start nothing *)
Theorem c42_no_submit_when_stopping : forall fx p e p' o,
  step fx p e = (p', o) ->
  forall c, In c (p_running p') -> In c (p_running p) \/
    (In c (p_queue p) /\ (exists done, e = EProcess done) /\ c_bad c = false
     /\ (p_stopping p = true -> c_submit c = false)).
Proof. exact step_launched. Qed.

(* stopping and closed are never reset *)
Theorem c42_stopping_is_final : forall fx p e p' o,
  step fx p e = (p', o) ->
  (p_stopping p = true -> p_stopping p' = true) /\ (p_closed p = true -> p_closed p' = true).
Proof. exact step_stopping_mono. Qed.

(* ---- callbacks ---- *)
(* The full statement of the property: whenever the pool is done (nothing queued,
   nothing running) every command that was put got exactly one callback. *)
Definition c42_one_callback_stmt (fx : bool) : Prop :=
  forall size es p os,
    run fx (new_pool size) es = (p, os) -> NoDup (puts_of es) ->
    p_queue p = [] -> p_running p = [] ->
    forall i, In i (puts_of es) -> occ i (callbacks_of os) = 1.

(* It holds for the code as it is now (fix 2237225: process() and terminate()
   pass the callbacks to _run_command_exit when they take a command off the queue
   while stopping; the model's [drops_call_back] = true is what the correspondence
   stream validates).  Commands still RUNNING at terminate() are outside it
   (p_running p = [] is a hypothesis): see the open finding in
   known_findings.d/C42.json. *)
Theorem c42_one_callback : c42_one_callback_stmt drops_call_back.
Proof.
  intros size es p os E Hnd Hq Hr i Hi. change drops_call_back with true in E.
  destruct (run_exactly_once_or_dropped _ _ _ _ _ E Hnd Hq Hr i Hi) as [[H _]|[_ H]]; [exact H|].
  rewrite (run_fixed_no_drop _ _ _ _ E) in H. destruct H.
Qed.

(* nothing is ever dropped by the code as it is now *)
Theorem c42_nothing_dropped : forall size es p os,
  run drops_call_back (new_pool size) es = (p, os) -> dropped_of os = [].
Proof. intros size es p os E. exact (run_fixed_no_drop _ _ _ _ E). Qed.

(* For both variants: *)
(* (a) conservation: commands put = queued + running + called back + dropped *)
Theorem c42_conservation : forall fx size es p os i,
  run fx (new_pool size) es = (p, os) ->
  occ i (puts_of es)
  = occ i (ids (p_queue p)) + occ i (ids (p_running p)) + occ i (callbacks_of os) + occ i (dropped_of os).
Proof.
  intros fx size es p os i E. pose proof (run_count fx i _ _ _ _ E) as H.
  cbn [new_pool p_queue p_running map] in H. rewrite !occ_nil in H. lia.
Qed.

(* (b) at most one callback, ever; nobody is called back while still
   queued/running (or, pre-fix, both called back and dropped) *)
Theorem c42_at_most_one_callback : forall fx size es p os,
  run fx (new_pool size) es = (p, os) -> NoDup (puts_of es) ->
  NoDup (ids (p_queue p) ++ ids (p_running p) ++ callbacks_of os ++ dropped_of os).
Proof. exact run_at_most_once. Qed.

(* (c) exactly one callback when the pool is done — unless the command was dropped *)
Theorem c42_one_callback_unless_dropped_while_stopping : forall fx size es p os,
  run fx (new_pool size) es = (p, os) -> NoDup (puts_of es) ->
  p_queue p = [] -> p_running p = [] ->
  forall i, In i (puts_of es) ->
    (occ i (callbacks_of os) = 1 /\ ~ In i (dropped_of os))
    \/ (occ i (callbacks_of os) = 0 /\ In i (dropped_of os)).
Proof. exact run_exactly_once_or_dropped. Qed.

(* PRE-FIX CODE ONLY (parameter value false = `self._run_command_exit(ctx)`
   without the callbacks, before 2237225).  The full statement was false.
   Witness 1: pool size 1, jobs-submit commands 0 (running) and 1 (queued),
   set_stopping, 0 exits: process() dropped 1 with ret_code 999 and no callback.
   Witness 2: any queued command at terminate().  Kept as the record of the fixed
   finding; both witnesses stay in the stream's corpus as regression cases. *)
Theorem c42_one_callback_refuted_for_prefix_code : ~ c42_one_callback_stmt false.
Proof.
  intros H.
  pose (c0 := {| c_id := 0; c_submit := true; c_bad := false |}).
  pose (c1 := {| c_id := 1; c_submit := true; c_bad := false |}).
  specialize (H 1 [EPut c0; EPut c1; EProcess []; ESetStopping; EProcess [0]] _ _ eq_refl).
  vm_compute in H.
  assert (Hn : NoDup [0; 1]) by (repeat constructor; cbn; intuition discriminate).
  specialize (H Hn eq_refl eq_refl 1 (or_intror (or_introl eq_refl))). discriminate H.
Qed.

Theorem c42_one_callback_refuted_terminate_for_prefix_code :
  exists es p os, run false (new_pool 1) es = (p, os) /\ NoDup (puts_of es) /\
    p_queue p = [] /\ p_running p = [] /\ In 1 (puts_of es) /\
    occ 1 (callbacks_of os) = 0 /\ In 1 (dropped_of os).
Proof.
  exists [EPut {| c_id := 0; c_submit := false; c_bad := false |};
          EPut {| c_id := 1; c_submit := false; c_bad := false |};
          EProcess []; ETerminate [0]].
  eexists. eexists. split; [vm_compute; reflexivity|].
  repeat split; try (vm_compute; tauto).
  repeat constructor; cbn; intuition discriminate.
Qed.

(* pre-fix code: drops happened in exactly two places: terminate() (any queued
   command) and process() while stopping (queued jobs-submit commands) *)
Theorem c42_dropped_only_in_two_places_for_prefix_code : forall p e p' o,
  step false p e = (p', o) ->
  forall i, In i (o_dropped o) ->
    (exists done, e = ETerminate done /\ In i (ids (p_queue p)))
    \/ (exists done, e = EProcess done /\ p_stopping p = true /\
        exists c, In c (p_queue p) /\ c_id c = i /\ c_submit c = true).
Proof. exact step_drop_reason. Qed.

(* ---- non-vacuity: a history with a full pool, an OSError, exits and a late put ---- *)
(* (pre-fix variant: command 1 is dropped) *)
Example c42_ex_history_prefix_code :
  let c i s b := {| c_id := i; c_submit := s; c_bad := b |} in
  let '(p, os) := run false (new_pool 1)
     [EPut (c 0 false false); EPut (c 1 true false); EPut (c 2 false true);
      EProcess []; EClose; EPut (c 3 false false); EProcess [0]] in
  (p_queue p, p_running p, callbacks_of os, dropped_of os) = ([], [], [3; 0; 2], [1]).
Proof. vm_compute. reflexivity. Qed.

(* the code as it is now *)
Example c42_ex_history :
  let c i s b := {| c_id := i; c_submit := s; c_bad := b |} in
  let '(p, os) := run drops_call_back (new_pool 2)
     [EPut (c 0 false false); EPut (c 1 true false); EPut (c 2 false true); EPut (c 3 true false);
      EProcess []; EProcess [0]; EClose; EPut (c 4 false false); EProcess [1; 3]] in
  (p_queue p, p_running p, callbacks_of os, dropped_of os) = ([], [], [0; 2; 4; 1; 3], []).
Proof. vm_compute. reflexivity. Qed.
