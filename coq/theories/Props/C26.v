(* Props/C26.v — C26 "Task pool bookkeeping is internally consistent". *)
From Coq Require Import List Bool ZArith.
From Cylc Require Import Base.Util Model.Pool Proofs.PoolProofs Proofs.PoolTheorems.
Import ListNotations.

(* No two proxies for the same (cycle point, task) in any reachable pool. *)
Theorem c26_no_duplicate_proxies : forall c tr s,
  exec c (init_state c) tr = Some s -> NoDup (map p_id (pool s)).
Proof. exact pool_no_duplicates. Qed.

(* An accepted tick end means the reported pool (the real dictionaries, also
   compared by the harness with the cached list and with the task_pool table)
   has exactly the abstract pool's tasks with the same status, flags, flows,
   satisfied prerequisites, outputs and submit number. *)
Theorem c26_tick_end_pool_agrees : forall c s snap hl hp s',
  step c s (ETickEnd snap hl hp) = Ok s' ->
  length snap = length (pool s) /\
  forall v, In v snap -> exists p, find_task (pool s) (v_id v) = Some p /\ view_matches p v = true.
Proof. exact tick_end_pool_agrees. Qed.

(* Adding a second proxy for a pooled id is rejected. *)
Theorem c26_duplicate_add_rejected : forall c s t,
  existsb (fun q => tid_eqb (p_id q) t) (pool s) = true -> forall s', step c s (EAdd t) <> Ok s'.
Proof.
  intros c s t H s'. cbn [step]. destruct (find_task (limbo s) t); [|discriminate].
  rewrite H. discriminate.
Qed.
