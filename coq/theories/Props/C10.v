(* Props/C10.v — C10 "Stale, duplicate and out-of-order job messages cannot
   corrupt state" at the task level (Model/TaskMsg.v, see Props/C09.v). *)
From Coq Require Import List Bool Arith ZArith Lia.
From Cylc Require Import Base.Util Gen.TaskMsgTables Model.TaskMsg
  Proofs.TaskMsgProofs Proofs.TaskMsgInv Proofs.TaskMsgEdges Proofs.TaskMsgFinal.
Import ListNotations.

(* "A message received from a job with an older [any other] submit number never
   changes the current task's status or outputs": the task is unchanged and
   there are no effects (no spawning, no poll). *)
Theorem c10_stale_ignored : forall t m n,
  n <> Z.of_nat (sn t) -> process_message t m Received n = (t, []).
Proof. exact pm_stale. Qed.

(* "a received message that would move a task's status backwards triggers a
   poll instead of a state change": for every reachable task and a current
   started/failed/submission-failed/submitted message with backward = true
   (started after failed|succeeded, failed after succeeded, submission failed
   after submitted.., submitted from submitted on) the result is exactly the
   unchanged task and the poll request. *)
Theorem c10_backwards_polls : forall n mm k pre m,
  let t := final (fresh n mm k) pre in
  backward m (st t) = true ->
  process_message t m Received (Z.of_nat (sn t)) = (t, [EPoll]).
Proof. intros. apply pm_backward_polls; [apply wf_run|assumption]. Qed.

(* conversely a poll is requested only in that situation *)
Theorem c10_poll_only_backward : forall n mm k pre m f num,
  let t := final (fresh n mm k) pre in
  In EPoll (snd (process_message t m f num)) ->
  flag_received f = true /\ num = Z.of_nat (sn t) /\ backward m (st t) = true.
Proof. intros n mm k pre m f num t. apply pm_poll_only_backward. apply wf_run. Qed.

(* a waiting task with a retry lined up ignores every non-expire message
   (late messages / poll results of the failed job) *)
Theorem c10_retry_window_ignored : forall t m f n,
  st t = Waiting -> retry_lined_up t = true -> m <> MExpired ->
  process_message t m f n = (t, []).
Proof. exact pm_retry_window. Qed.

(* "For any interleaving of job messages, duplicates and poll results, the
   task's final status and outputs match the latest job's actual outcome".
   t0: the task right after the preparation of the latest submission; oc: the
   job's actual outcome; C: the custom outputs it emits.  [story oc C false ops]:
   ops is any sequence of stale messages (any content), submit-command
   successes, and received/polled/internal messages the job can cause
   (submitted, started, its custom outputs, other text, its outcome), in any
   order with any duplication, except that no polled/internal 'started' comes
   after the first delivery of the outcome.  If the outcome is delivered at
   least once, the final status is the outcome - or waiting with the retry
   lined up exactly when an execution retry remained - submitted and started
   are complete, succeeded/failed are complete exactly as the outcome says,
   and no custom output is complete that the job did not emit. *)
Theorem c10_final_matches_outcome : forall t0 oc C ops,
  wf t0 -> st t0 = Preparing ->
  ~ In OSucceeded (outs t0) -> ~ In OFailed (outs t0) ->
  story oc C false ops = true -> delivered_in oc ops = true ->
  let t := final t0 ops in
  st t = expected_st t0 oc /\
  In OSubmitted (outs t) /\ In OStarted (outs t) /\
  (In OSucceeded (outs t) <-> oc = OutSucc) /\
  (In OFailed (outs t) <-> oc = OutFail /\ no_next (texec t0) = true) /\
  customs_ok t0 C t /\
  (expected_st t0 oc = Waiting -> retry_lined_up t = true).
Proof.
  intros t0 oc C ops W S N1 N2 St D t.
  destruct (final_matches_outcome t0 oc C ops W S N1 N2 St D) as [_ A B C' D' E F G].
  exact (conj A (conj B (conj C' (conj D' (conj E (conj F G)))))).
Qed.

(* The same statement without the late-poll restriction: *)
Definition story_unrestricted (oc : outcome) (C : list nat) (ops : list op) : bool :=
  forallb (fun o => match o with
                    | OpPrep => false
                    | OpSubRes ok => ok
                    | OpMsg m _ _ => op_stale o || emits oc C m
                    end) ops.
Definition c10_final_unrestricted : Prop :=
  forall t0 oc C ops,
    wf t0 -> st t0 = Preparing -> ~ In OSucceeded (outs t0) -> ~ In OFailed (outs t0) ->
    story_unrestricted oc C ops = true -> delivered_in oc ops = true ->
    st (final t0 ops) = expected_st t0 oc.
(* is false of the code: the job succeeded, its message was received, and a
   poll result 'started' taken earlier is processed afterwards: the task ends
   running (finding "late-poll-final"). *)
Theorem c10_final_unrestricted_refuted : ~ c10_final_unrestricted.
Proof.
  intros H.
  specialize (H (final (fresh 0 0 0) [OpPrep]) OutSucc []
                [OpMsg MStarted Received 0%Z; OpMsg MSucceeded Received 0%Z; OpMsg MStarted Polled 0%Z]
                (wf_run 0 0 0 [OpPrep])).
  vm_compute in H.
  assert (X : Running = Succeeded); [|discriminate X].
  apply H; auto; intros K; exact K.
Qed.

(* ---------- non-vacuity ---------- *)
(* duplicates, a stale message, started before the submit result, a poll *)
Example c10_ex_story :
  let ops := [OpMsg MStarted Received 0%Z; OpMsg MSucceeded Received (-1)%Z; OpSubRes true;
              OpMsg (MCustom 0) Received 0%Z; OpMsg MFailed Polled 0%Z;
              OpMsg MFailed Received 0%Z; OpMsg MStarted Received 0%Z] in
  story OutFail [0] false ops = true /\ delivered_in OutFail ops = true /\
  st (final (final (fresh 0 0 1) [OpPrep]) ops) = Failed /\
  st (final (final (fresh 1 0 1) [OpPrep]) ops) = Waiting.
Proof. vm_compute. auto. Qed.
Example c10_ex_backward :
  process_message (final (fresh 0 0 0) [OpPrep; OpMsg MSucceeded Polled 0%Z]) MStarted Received 1%Z
  = (final (fresh 0 0 0) [OpPrep; OpMsg MSucceeded Polled 0%Z], [EPoll]).
Proof. vm_compute. reflexivity. Qed.
