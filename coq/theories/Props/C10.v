(* Props/C10.v — C10 "Stale, duplicate and out-of-order job messages cannot
   corrupt state" at the task level (Model/TaskMsg.v, see Props/C09.v). *)
From Coq Require Import List Bool Arith ZArith Lia.
From Cylc Require Import Base.Util Gen.TaskMsgTables Model.TaskMsg
  Proofs.TaskMsgProofs Proofs.TaskMsgInv Proofs.TaskMsgEdges Proofs.TaskMsgFinal
  Model.TaskBatch Proofs.TaskBatchProofs.
From Coq Require Import Permutation.
Import ListNotations.

(* "A message received from a job with an older [any other] submit number never
   changes the current task's status or outputs": the task is unchanged and
   there are no effects (no spawning, no poll). *)
Theorem c10_stale_ignored : forall t m n,
  n <> Z.of_nat (sn t) -> process_message t m Received n = (t, []).
Proof. exact pm_stale. Qed.

(* "a received message that would move a task's status backwards triggers a
   poll instead of a state change": for every reachable task and a current
   started/failed/submission-failed/submitted message with backward = true
   (started after failed|succeeded, failed after succeeded, submission failed
   after submitted.., submitted from submitted on) the result is exactly the
   unchanged task and the poll request. *)
Theorem c10_backwards_polls : forall n mm k pre m,
  let t := final (fresh n mm k) pre in
  backward m (st t) = true ->
  process_message t m Received (Z.of_nat (sn t)) = (t, [EPoll]).
Proof. intros. apply pm_backward_polls; [apply wf_run|assumption]. Qed.

(* conversely a poll is requested only in that situation *)
Theorem c10_poll_only_backward : forall n mm k pre m f num,
  let t := final (fresh n mm k) pre in
  In EPoll (snd (process_message t m f num)) ->
  flag_received f = true /\ num = Z.of_nat (sn t) /\ backward m (st t) = true.
Proof. intros n mm k pre m f num t. apply pm_poll_only_backward. apply wf_run. Qed.

(* a waiting task with a retry lined up ignores every non-expire message
   (late messages / poll results of the failed job) *)
Theorem c10_retry_window_ignored : forall t m f n,
  st t = Waiting -> retry_lined_up t = true -> m <> MExpired ->
  process_message t m f n = (t, []).
Proof. exact pm_retry_window. Qed.

(* "For any interleaving of job messages, duplicates and poll results, the
   task's final status and outputs match the latest job's actual outcome".
   t0: the task right after the preparation of the latest submission; oc: the
   job's actual outcome; C: the custom outputs it emits.  [story oc C false ops]:
   ops is any sequence of stale messages (any content), submit-command
   successes, and received/polled/internal messages the job can cause
   (submitted, started, its custom outputs, other text, its outcome), in any
   order with any duplication, except that no polled/internal 'started' comes
   after the first delivery of the outcome.  If the outcome is delivered at
   least once, the final status is the outcome - or waiting with the retry
   lined up exactly when an execution retry remained - submitted and started
   are complete, succeeded/failed are complete exactly as the outcome says,
   and no custom output is complete that the job did not emit. *)
Theorem c10_final_matches_outcome : forall t0 oc C ops,
  wf t0 -> st t0 = Preparing ->
  ~ In OSucceeded (outs t0) -> ~ In OFailed (outs t0) ->
  story oc C false ops = true -> delivered_in oc ops = true ->
  let t := final t0 ops in
  st t = expected_st t0 oc /\
  In OSubmitted (outs t) /\ In OStarted (outs t) /\
  (In OSucceeded (outs t) <-> oc = OutSucc) /\
  (In OFailed (outs t) <-> oc = OutFail /\ no_next (texec t0) = true) /\
  customs_ok t0 C t /\
  (expected_st t0 oc = Waiting -> retry_lined_up t = true).
Proof.
  intros t0 oc C ops W S N1 N2 St D t.
  destruct (final_matches_outcome t0 oc C ops W S N1 N2 St D) as [_ A B C' D' E F G].
  exact (conj A (conj B (conj C' (conj D' (conj E (conj F G)))))).
Qed.

(* The same statement without the late-poll restriction: *)
Definition story_unrestricted (oc : outcome) (C : list nat) (ops : list op) : bool :=
  forallb (fun o => match o with
                    | OpPrep => false
                    | OpSubRes ok => ok
                    | OpMsg m _ _ => op_stale o || emits oc C m
                    end) ops.
Definition c10_final_unrestricted : Prop :=
  forall t0 oc C ops,
    wf t0 -> st t0 = Preparing -> ~ In OSucceeded (outs t0) -> ~ In OFailed (outs t0) ->
    story_unrestricted oc C ops = true -> delivered_in oc ops = true ->
    st (final t0 ops) = expected_st t0 oc.
(* is false of the code: the job succeeded, its message was received, and a
   poll result 'started' taken earlier is processed afterwards: the task ends
   running (finding "late-poll-final"). *)
Theorem c10_final_unrestricted_refuted : ~ c10_final_unrestricted.
Proof.
  intros H.
  specialize (H (final (fresh 0 0 0) [OpPrep]) OutSucc []
                [OpMsg MStarted Received 0%Z; OpMsg MSucceeded Received 0%Z; OpMsg MStarted Polled 0%Z]
                (wf_run 0 0 0 [OpPrep])).
  vm_compute in H.
  assert (X : Running = Succeeded); [|discriminate X].
  apply H; auto; intros K; exact K.
Qed.

(* ---------- batch level: Scheduler.process_queued_task_messages for one task
   (Model/TaskBatch.v; tied to the code by the "taskbatch" stream) ---------- *)

(* "triggers a poll": the task is handed to poll_task_jobs iff SOME message of
   its batch - not just the last one - made process_message return True at the
   point where it was processed ... *)
Theorem c10_batch_poll_iff_some_message : forall t l,
  b_poll (task_batch t l) = true <->
  exists l1 x l2, l = l1 ++ x :: l2 /\
    asked_poll (snd (deliver (final t (map to_op l1)) x)) = true.
Proof. exact batch_poll_iff. Qed.

(* ... i.e., for every reachable task, iff the batch contains a message for the
   current submit number that would move the status (as it is when the message
   is reached) backwards. *)
Theorem c10_batch_poll_iff_backward : forall n m k pre l,
  let t := final (fresh n m k) pre in
  b_poll (task_batch t l) = true <->
  exists l1 x l2, l = l1 ++ x :: l2 /\ asks (st (final t (map to_op l1))) x = true.
Proof. intros. apply batch_poll_backward. apply wf_run. Qed.

(* A batch is the sequence of its single-message batches: same final task, same
   spawn/retry effects, poll decisions OR-ed; and the final task is the one the
   messages produce when delivered one by one (so every single-message theorem
   above applies inside a batch). *)
Theorem c10_batch_is_sequence_of_singles : forall t l,
  task_batch t l = singles t l /\ b_state (task_batch t l) = final t (map to_op l).
Proof. intros. split; [apply batch_singles|apply batch_state]. Qed.

(* The order of the batch is irrelevant for the poll decision (and the status)
   when the batch consists of stale messages, custom/progress messages and
   messages that would move the status backwards - the situation of duplicated
   and late messages: any permutation polls iff the original does. *)
Theorem c10_batch_order_irrelevant : forall n m k pre l l',
  let t := final (fresh n m k) pre in
  Permutation l l' -> forallb (neutral (st t)) l = true ->
  b_poll (task_batch t l) = b_poll (task_batch t l') /\
  st (b_state (task_batch t l)) = st (b_state (task_batch t l')).
Proof. intros. apply batch_poll_order; [apply wf_run|assumption|assumption]. Qed.

(* a task that is not in the pool is neither changed nor polled *)
Theorem c10_batch_not_in_pool : forall t l, queued false t l = (t, [], false).
Proof. reflexivity. Qed.

(* "only the last message of the batch decides" is not the same function: a late
   'started' for a failed task followed by a progress message must still poll *)
Theorem c10_batch_last_only_refuted :
  ~ (forall t l, b_poll (task_batch t l) = last_only t l).
Proof.
  intros H. destruct last_only_differs as [A B]. cbn zeta in A, B.
  rewrite H in A. rewrite A in B. discriminate B.
Qed.

(* ---------- non-vacuity ---------- *)
(* duplicates, a stale message, started before the submit result, a poll *)
Example c10_ex_story :
  let ops := [OpMsg MStarted Received 0%Z; OpMsg MSucceeded Received (-1)%Z; OpSubRes true;
              OpMsg (MCustom 0) Received 0%Z; OpMsg MFailed Polled 0%Z;
              OpMsg MFailed Received 0%Z; OpMsg MStarted Received 0%Z] in
  story OutFail [0] false ops = true /\ delivered_in OutFail ops = true /\
  st (final (final (fresh 0 0 1) [OpPrep]) ops) = Failed /\
  st (final (final (fresh 1 0 1) [OpPrep]) ops) = Waiting.
Proof. vm_compute. auto. Qed.
Example c10_ex_backward :
  process_message (final (fresh 0 0 0) [OpPrep; OpMsg MSucceeded Polled 0%Z]) MStarted Received 1%Z
  = (final (fresh 0 0 0) [OpPrep; OpMsg MSucceeded Polled 0%Z], [EPoll]).
Proof. vm_compute. reflexivity. Qed.
Example c10_ex_batch :
  let t := final (fresh 0 0 1) [OpPrep; OpMsg MStarted Received 0%Z; OpMsg MSucceeded Received 0%Z] in
  let l := [(MCustom 0, 0%Z); (MStarted, 0%Z); (MFailed, (-1)%Z); (MOther, 0%Z)] in
  forallb (neutral (st t)) l = true /\ b_poll (task_batch t l) = true /\
  b_poll (task_batch t (rev l)) = true /\ st (b_state (task_batch t l)) = Succeeded.
Proof. vm_compute. auto. Qed.
