(* Props/C44.v — C44 "Private workflow files are created owner-only".
   Property theorems only; proofs are in Proofs/PermProofs.v.
   Model/Perm.v describes, as sequences of open/chmod/umask/rename operations,
   what scheduler start-up does to the private run database
   (WorkflowDatabaseManager.on_workflow_start + copy_pri_to_pub) and to the
   ZMQ keys (key_housekeeping = remove_keys_on_server + create_server_keys).
   PERM_PRIVATE and KEY_UMASK (the literal of os.umask(...) in
   create_server_keys) are regenerated from /repo into Gen/PermConsts.v on
   every run, so these theorems are about the literals that are in the source
   now.  The sequences themselves are tied to the code by the C44
   correspondence stream (real functions and real Scheduler start-ups under
   many umasks; stat modes compared with the model inside Coq). *)
From Coq Require Import List ZArith Bool.
From Cylc Require Import Base.Util Gen.PermConsts Model.Perm Proofs.PermProofs.
Import ListNotations.
Open Scope Z_scope.

(* The property, in full: for EVERY initial state — any umask at all (not only
   < 512), any of the files already present with any mode or absent, first
   start or restart — and whatever creation modes sqlite and Python's open()
   request, once the start-up sequence has run the private database, the
   server private key and the client private key all exist and have none of
   the group/other permission bits. *)
Theorem c44_private : forall s0 is_restart req_db req_py f,
  In f private_files ->
  exists m, modes (run (startup_seq is_restart req_db req_py) s0) f = Some m /\
            Z.land m go_bits = 0.
Proof. exact startup_private. Qed.

(* What `Z.land m 0o077 = 0` means: each of the group r/w/x and other r/w/x
   bits (bit positions 0..5) is clear — "not readable or writable by group or
   other". *)
Theorem c44_owner_only_meaning : forall m,
  Z.land m go_bits = 0 <-> (forall k, 0 <= k < 6 -> Z.testbit m k = false).
Proof. exact owner_only_bits. Qed.

(* The general bitwise fact behind the keys: a file created while the umask
   denies all group/other bits has none, whatever mode the creator asked for;
   and the literal in create_server_keys is such a umask; and PERM_PRIVATE has
   no group/other bit. *)
Theorem c44_open_under_covering_umask : forall u req,
  Z.land u go_bits = go_bits -> Z.land (mode_after_open u req) go_bits = 0.
Proof. exact open_masked. Qed.

Theorem c44_source_literals :
  Z.land KEY_UMASK go_bits = go_bits /\ Z.land PERM_PRIVATE go_bits = 0.
Proof. split; [exact key_umask_covers_go | exact perm_private_owner_only]. Qed.

(* create_server_keys changes the process umask temporarily; start-up leaves
   the umask as it found it (so later files get the user's default). *)
Theorem c44_umask_restored : forall s0 is_restart req_db req_py,
  umask (run (startup_seq is_restart req_db req_py) s0) = umask s0.
Proof. exact startup_umask_restored. Qed.

(* The finite formulation of DESIGN.md: for all 512 umasks, with the creation
   modes sqlite (0o644) and CPython (0o666) really use, from an empty directory
   and from one where every file pre-exists with mode 0o777, start and restart:
   checked by evaluation inside Coq, lifted to a universally quantified
   statement over the finite domain. *)
Theorem c44_private_all_umasks : forall u r f,
  0 <= u < 512 -> In f private_files ->
  file_private (run (startup_seq r sqlite_req python_req) (init_state u fresh)) f = true /\
  file_private (run (startup_seq r sqlite_req python_req) (init_state u loose)) f = true.
Proof. exact all_umasks_private. Qed.

(* ---- non-vacuity ---- *)
(* umask 0, empty directory, first start: everything is created; the private
   files come out 0o600 (384) while the public DB is 0o666 (438). *)
Example c44_ex_umask0 :
  map (modes (run (startup_seq false sqlite_req python_req) (init_state 0 fresh))) observed
  = [Some 384; Some 438; Some 384; Some 384; Some 384; Some 384].
Proof. vm_compute. reflexivity. Qed.

(* the chmod is what protects the DB: under umask 0o022 sqlite alone would
   leave it group/other-readable (0o644) *)
Example c44_ex_chmod_needed :
  Z.land (mode_after_open 18 sqlite_req) go_bits <> 0.
Proof. vm_compute. discriminate. Qed.

(* the umask is what protects the keys: with the user's umask 0o022 instead of
   KEY_UMASK they would be 0o644 *)
Example c44_ex_umask_needed :
  Z.land (mode_after_open 18 python_req) go_bits <> 0.
Proof. vm_compute. discriminate. Qed.

(* restart with a DB that was left world-readable: it is tightened *)
Example c44_ex_restart_tightens :
  modes (run (startup_seq true sqlite_req python_req)
             (init_state 18 [Some 420; Some 420])) DbPri = Some 384.
Proof. vm_compute. reflexivity. Qed.
