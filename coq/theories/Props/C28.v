(* Props/C28.v — C28 "Group trigger runs each member once, honouring in-group order" (partial).
   In the pool automaton a triggered group-start member is marked manual
   (EManual) and its off-group prerequisites are force-satisfied (EForceSat);
   members with in-group prerequisites are re-spawned with only their
   off-group prerequisites force-satisfied. *)
From Coq Require Import List Bool ZArith.
From Cylc Require Import Base.Util Model.Pool Proofs.PoolProofs Proofs.PoolTheorems.
Import ListNotations.

(* In-group order: a member that was not itself force-started is submitted only
   when every prerequisite atom is pre-initial, force-satisfied (the off-group
   ones) or -- for the in-group ones, which are not force-satisfied -- was
   really completed earlier in the run. *)
Theorem c28_members_wait_for_in_group_prerequisites : forall c tr1 tr2 t sn sf,
  exec c (init_state c) (tr1 ++ ESubmit t sn :: tr2) = Some sf ->
  exists s1 p i,
    exec c (init_state c) tr1 = Some s1 /\
    find_task (pool s1) t = Some p /\ find_inst (c_insts c) t = Some i /\
    valid_id c t /\ p_status p = Preparing /\
    (p_manual p = true \/
     forall e, In e (i_pre i) ->
       bx_holds (fun k => emitted tr1 k \/ In k (p_forced p)) e).
Proof. exact submit_only_when_satisfied. Qed.

(* Off-group prerequisites are satisfied "automatically" only for
   prerequisites the member actually has. *)
Theorem c28_force_satisfies_only_own_prerequisites : forall c s t keys s' p inp i,
  step c s (EForceSat t keys) = Ok s' -> lookup s t = Some (p, inp) -> find_inst (c_insts c) t = Some i ->
  forall k, In k keys -> exists pre, In (k, pre) (inst_keys i).
Proof. exact force_sat_only_own_prerequisites. Qed.

(* Only manually triggered tasks may be released while held or beyond a queue
   limit: every released task is either not held or manual, and the queue
   accounting counts every non-manual release. *)
Theorem c28_only_manual_overrides_hold_and_queue : forall c s l s',
  step c s (ERelease l) = Ok s' ->
  (forall t, In t l -> exists p, find_task (pool s) t = Some p /\ (p_held p = false \/ p_manual p = true)) /\
  forall q, (q < length (c_qlimits c))%nat -> qlimit c q <> 0%nat ->
    count_in_queue c q (newly_released s l) <> 0%nat ->
    (active_in c s q + count_in_queue c q (newly_released s l) <= qlimit c q)%nat.
Proof. exact release_respects_queue_limits. Qed.

(* A job is never launched twice under one submit number, trigger or not. *)
Theorem c28_no_duplicate_submission : forall c tr s,
  exec c (init_state c) tr = Some s -> NoDup (subs s).
Proof. exact submissions_distinct. Qed.

(* "Each member runs exactly once more per trigger" and "a live group-start
   member is left to finish" are trace properties decided by the C28 oracle on
   every scenario with a trigger command: not theorems (partial). *)
