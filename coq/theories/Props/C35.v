(* Props/C35.v — C35 "Runtime inheritance follows C3 linearization".
   Property theorems only; every proof is `exact <lemma>` from Proofs/C3Proofs.v.
   The model (Model/C3.v) is tied to cylc/flow/c3mro.py by the C35
   correspondence stream, which also compares with CPython's own MRO. *)
From Coq Require Import List Bool Arith.
From Cylc Require Import Base.Util Model.C3 Proofs.C3Proofs.
Import ListNotations.

(* The fuel that [mro] gives [merge] always suffices: merge never runs out. *)
Theorem c35_merge_terminates : forall fuel label seqs,
  total_len seqs < fuel -> merge fuel label seqs <> OutOfFuel.
Proof. exact merge_fuel. Qed.

(* A returned linearization keeps every input sequence in order (parents'
   linearizations: monotonicity; the parent list: local precedence order),
   has no duplicates, and contains nothing else. *)
Theorem c35_merge_is_linear_extension : forall fuel label seqs l,
  (forall s, In s seqs -> NoDup s) ->
  merge fuel label seqs = Ok l ->
  consistent seqs l /\ (forall x, In x l -> exists s, In s seqs /\ In x s).
Proof.
  intros fuel label seqs l Hnd H. split; [split|].
  - exact (merge_NoDup fuel label seqs l Hnd H).
  - exact (merge_sound fuel label seqs l H).
  - exact (merge_elems fuel label seqs l H).
Qed.

(* Rejection is justified: when merge reports an inconsistent hierarchy no
   duplicate-free order containing all the sequences exists at all ... *)
Theorem c35_reject_only_if_inconsistent : forall fuel label seqs lb,
  (forall s, In s seqs -> NoDup s) ->
  merge fuel label seqs = Inconsistent lb -> forall l, ~ consistent seqs l.
Proof. exact merge_reject_sound. Qed.

(* ... and conversely every hierarchy that has one is accepted. *)
Theorem c35_accept_if_consistent : forall fuel label seqs l,
  (forall s, In s seqs -> NoDup s) -> total_len seqs < fuel ->
  consistent seqs l -> exists l', merge fuel label seqs = Ok l'.
Proof. exact merge_complete. Qed.

(* At the level of a namespace: its linearization contains itself, its
   parents in declaration order, and each parent's own linearization in
   order; and it is duplicate-free. *)
Theorem c35_mro_sound : forall depth t c l,
  mro depth t c = Ok l ->
  exists ps ls,
    assoc Nat.eqb c t = Some ps /\
    all_ok (map (mro (pred depth) t) ps) = Ok ls /\
    subseq [c] l /\ subseq ps l /\ (forall lp, In lp ls -> subseq lp l).
Proof. exact mro_sound. Qed.

Theorem c35_mro_nodup : forall depth t c l,
  tree_NoDup t -> mro depth t c = Ok l -> NoDup l.
Proof. exact mro_NoDup. Qed.

(* non-vacuity: the classic example ex_9 from the module docstring
   (O=0 A=1 B=2 C=3 D=4 E=5 K1=6 K2=7 K3=8 Z=9) is accepted with the
   documented order, and Guido's "serious order disagreement" is rejected. *)
Definition ex9 : tree :=
  [(0,[]); (1,[0]); (2,[0]); (3,[0]); (4,[0]); (5,[0]);
   (6,[1;2;3]); (7,[4;2;5]); (8,[4;1]); (9,[6;7;8])].
Example c35_ex9 : mro 11 ex9 9 = Ok [9;6;7;8;4;1;2;3;5;0].
Proof. vm_compute. reflexivity. Qed.
Definition ex2 : tree := [(0,[]); (1,[0]); (2,[0]); (3,[1;2]); (4,[2;1]); (5,[3;4])].
Example c35_ex2 : mro 7 ex2 5 = Inconsistent 5.
Proof. vm_compute. reflexivity. Qed.
