(* C32 -- Clock expiry only expires eligible tasks.

   "Only tasks that are waiting and not manually triggered expire, and only once their expiry
    time has passed.  An expired task never submits a job, and completing its expired output
    spawns exactly its expire children."

   Model: Model/Expire.v ([clock_expire_tasks] = TaskPool.clock_expire_tasks with time() = now;
   [step] = the operations of the scheduler that decide who is queued / released / submitted).
   The theorems quantify over ALL pools, clock values, graphs ([env]) and operation sequences;
   their hypotheses [WF] (unique ids, nothing in the pool is recorded as finished) and
   [pool_ok] are checked on every checkpoint of every real scheduler run by [check_case]
   (c32_checked_hypotheses), which also checks that the real pass and the real release/submit
   step computed exactly what the model computes. *)
From Coq Require Import List ZArith NArith Bool.
From Cylc Require Import Base.Util Model.Expire Proofs.ExpireProofs.
Import ListNotations.
Local Open Scope Z_scope.

(* (a) A task expires in a pass IF AND ONLY IF it was in the pool, not manually triggered,
   waiting, has an expiry time, and that time is <= now (the code expires at now == expiry time:
   "time() < expire_time" is the not-yet test).  Held, queued and runahead-limited waiting tasks
   are not exempt. *)
Theorem c32_expires_iff_eligible :
  forall e now pool gone p' g' evs,
    WF pool gone -> clock_expire_tasks e now pool gone = (p', g', evs) ->
    forall i, In (EvExpired i) evs <->
              exists t, In t pool /\ t_id t = i /\ t_manual t = false /\ t_status t = Waiting /\
                        exists x, t_expire t = Some x /\ x <= now.
Proof. exact pass_expires_iff. Qed.

(* ... and they expire in pool order, each once per pass *)
Theorem c32_expiry_events_in_pool_order :
  forall e now pool gone p' g' evs,
    WF pool gone -> clock_expire_tasks e now pool gone = (p', g', evs) ->
    expired_ids evs = map t_id (filter (eligible now) pool).
Proof. exact pass_expired_list. Qed.

(* (e) the pass leaves every other task exactly as it was: in particular a task whose status is
   not waiting is never changed by the expiry pass *)
Theorem c32_ineligible_tasks_untouched :
  forall e now pool gone p' g' evs,
    WF pool gone -> clock_expire_tasks e now pool gone = (p', g', evs) ->
    forall t, In t pool -> eligible now t = false -> In t p'.
Proof. exact pass_ineligible_kept. Qed.

Theorem c32_non_waiting_untouched :
  forall e now pool gone p' g' evs,
    WF pool gone -> clock_expire_tasks e now pool gone = (p', g', evs) ->
    forall t, In t pool -> t_status t <> Waiting -> In t p'.
Proof.
  intros e now pool gone p' g' evs Hwf H t Ht Hs.
  exact (pass_ineligible_kept e now pool gone p' g' evs Hwf H t Ht (not_waiting_ineligible now t Hs)).
Qed.

(* the pool after the pass consists of untouched tasks, tasks that have just expired (status
   expired, output completed, neither queued nor runahead-limited, in no queue) and the spawned
   children of expired outputs -- nothing else *)
Theorem c32_pool_after_pass :
  forall e now pool gone p' g' evs,
    WF pool gone -> clock_expire_tasks e now pool gone = (p', g', evs) ->
    forall u, In u p' ->
      (In u pool /\ eligible now u = false) \/
      (exists t, In t pool /\ eligible now t = true /\ complete (mark_expired t) = false /\ u = mark_expired t) \/
      (exists p c, u = new_task e c /\ In (EvSpawn p c) evs).
Proof. exact pass_members. Qed.

(* an expiring task is removed (and recorded as finished) when its completion expression holds
   with the expired output, and is kept as an expired, incomplete task otherwise *)
Theorem c32_expired_task_fate :
  forall e now pool gone p' g' evs,
    WF pool gone -> clock_expire_tasks e now pool gone = (p', g', evs) ->
    forall t, In t pool -> eligible now t = true ->
      if complete (mark_expired t)
      then In (t_id t) g' /\ ~ In (t_id t) (ids p') /\ In (EvRemove (t_id t)) evs
      else In (mark_expired t) p'.
Proof. exact pass_expired_fate. Qed.

(* (d) the expired output of an expiring instance (that belongs to a flow and is not flow-waiting)
   reaches EXACTLY the graph children of its :expired output: each of them is spawned, or is
   already in the pool (prerequisite satisfied), or has already finished (not spawned again) ... *)
Theorem c32_expired_output_reaches_exactly_expire_children :
  forall e now pool gone p' g' evs,
    WF pool gone -> clock_expire_tasks e now pool gone = (p', g', evs) ->
    forall t, In t pool -> eligible now t = true -> t_flow t = true -> t_flow_wait t = false ->
    forall c, In c (children e (t_id t) O_EXPIRED) <->
              (In (EvSpawn (t_id t) c) evs \/ In (EvSat (t_id t) c) evs \/ In (EvNoSpawn (t_id t) c) evs).
Proof.
  intros e now pool gone p' g' evs Hwf H t Ht El Hfl Hfw c. split.
  - exact (pass_children_complete e now pool gone p' g' evs Hwf H t Ht El Hfl Hfw c).
  - intro Hin. exact (proj2 (pass_child_events_sound e now pool gone p' g' evs Hwf H (t_id t) c Hin)).
Qed.

(* ... every task spawned in the pass is an :expired child of an instance that expired in this
   very pass (no other output's children, nobody else's children), it is a fresh waiting task
   and it is in the pool afterwards *)
Theorem c32_spawned_are_expire_children :
  forall e now pool gone p' g' evs,
    WF pool gone -> clock_expire_tasks e now pool gone = (p', g', evs) ->
    forall p c, In (EvSpawn p c) evs ->
      In (EvExpired p) evs /\ In c (children e p O_EXPIRED) /\ In (new_task e c) p' /\
      exists t, In t pool /\ t_id t = p /\ t_flow t = true.
Proof. exact pass_spawn_sound. Qed.

(* ... and an instance without a flow number spawns nothing (cylc's no-flow rule) *)
Theorem c32_no_flow_no_children :
  forall e now pool gone p' g' evs,
    WF pool gone -> clock_expire_tasks e now pool gone = (p', g', evs) ->
    forall t, In t pool -> t_flow t = false ->
    forall c, ~ (In (EvSpawn (t_id t) c) evs \/ In (EvSat (t_id t) c) evs \/ In (EvNoSpawn (t_id t) c) evs).
Proof. exact pass_no_flow_no_children. Qed.

(* the pass produces expiry, child and removal events only; well-formedness is preserved *)
Theorem c32_pass_event_kinds :
  forall e now pool gone p' g' evs,
    WF pool gone -> clock_expire_tasks e now pool gone = (p', g', evs) ->
    forall x, In x evs -> pass_ev x = true.
Proof. exact pass_event_kinds. Qed.

Theorem c32_pass_preserves_wf :
  forall e now pool gone p' g' evs,
    WF pool gone -> clock_expire_tasks e now pool gone = (p', g', evs) -> WF p' g'.
Proof. exact pass_WF. Qed.

(* (b) at most once.  A task that expired in one pass does not expire in the next, whatever the
   clock does (monotone or not) ... *)
Theorem c32_not_twice_in_a_row :
  forall e now pool gone p1 g1 ev1 e2 now2 p2 g2 ev2,
    WF pool gone ->
    clock_expire_tasks e now pool gone = (p1, g1, ev1) ->
    clock_expire_tasks e2 now2 p1 g1 = (p2, g2, ev2) ->
    forall i, In (EvExpired i) ev1 -> ~ In (EvExpired i) ev2.
Proof. exact pass_twice. Qed.

(* ... and over ALL sequences of scheduler operations (passes with arbitrary clock values, queueing,
   release/submission, hold/release, runahead changes, spawns, removals) that contain no manual
   trigger and no job message, every instance has at most one expiry event *)
Theorem c32_expires_at_most_once :
  forall st os st',
    Good st -> Logged st -> forallb no_revive os = true -> run st os = Some st' ->
    NoDup (expired_ids (s_log st')).
Proof. exact run_expires_once. Qed.

(* (c) An expired task never submits a job.  Invariant over all operation sequences: unique ids,
   tasks_to_trigger_now / waiting_on_job_prep only for manually triggered tasks, and an expired
   task is in no queue, not flagged queued, not awaiting job preparation ... *)
Theorem c32_invariant :
  forall st os st', Good st -> run st os = Some st' -> Good st'.
Proof. exact run_good. Qed.

(* ... hence every job submission (EvSubmit carries the status the task had when it entered the
   submission pipeline) is for a task that is not expired *)
Theorem c32_expired_never_submitted :
  forall st os st',
    Good st -> run st os = Some st' ->
    (forall ev, In ev (s_log st) -> submit_ok ev) -> forall ev, In ev (s_log st') -> submit_ok ev.
Proof. exact run_never_submits_expired. Qed.

(* ... and an expired task stays expired (so it is never queued, released or submitted later) under
   every operation except a manual trigger of it, a job message for it, or its removal *)
Theorem c32_expired_is_stable :
  forall st o st' t,
    Good st -> step st o = Some st' -> In t (s_pool st) -> t_status t = Expired ->
    touches o (t_id t) = false ->
    exists t', In t' (s_pool st') /\ t_id t' = t_id t /\ t_status t' = Expired.
Proof. exact expired_stable. Qed.

(* what check_case verifies on every real checkpoint gives the hypotheses of the theorems above *)
Theorem c32_checked_hypotheses :
  forall p g, wf_state p g = true -> WF p g.
Proof. exact wf_state_WF. Qed.

(* Successor of a runahead-limited task.  TaskPool.remove spawns the next parentless instance of a
   runahead-limited task that is removed ... *)
Theorem c32_remove_spawns_successor :
  forall st e i st' t s,
    Good st -> step st (ORemove e i) = Some st' ->
    In t (s_pool st) -> t_id t = i -> t_flow t = true -> t_runahead t = true ->
    assoc N.eqb i (e_next e) = Some s -> ~ In s (ids (s_pool st)) -> ~ In s (s_gone st) ->
    In (new_task e s) (s_pool st') /\ In (EvNext i s) (s_log st').
Proof. exact remove_spawns_successor. Qed.

(* ... but the expiry pass never does: state_reset(expired) clears is_runahead before remove()
   looks at it *)
Theorem c32_pass_never_spawns_successor :
  forall e now pool gone p' g' evs,
    WF pool gone -> clock_expire_tasks e now pool gone = (p', g', evs) ->
    forall i s, ~ In (EvNext i s) evs.
Proof. exact pass_no_successor. Qed.

(* The statement one wants -- a runahead-limited parentless task that expires and is removed hands
   over to its next instance, as on every other removal -- is FALSE of the faithful model; the
   real scheduler shows the same behaviour (known finding, vp/props/c32.py witness_successor). *)
Definition c32_expiry_keeps_parentless_chain : Prop :=
  forall e now pool gone p' g' evs t s,
    WF pool gone -> clock_expire_tasks e now pool gone = (p', g', evs) ->
    In t pool -> eligible now t = true -> t_flow t = true -> t_runahead t = true ->
    complete (mark_expired t) = true ->
    assoc N.eqb (t_id t) (e_next e) = Some s -> ~ In s (ids pool) -> ~ In s gone ->
    In s (ids p').

Theorem c32_expiry_keeps_parentless_chain_refuted : ~ c32_expiry_keeps_parentless_chain.
Proof.
  intro H.
  assert (Hwf : WF [succ_task] []) by (apply wf_state_WF; reflexivity).
  specialize (H succ_env 0 [succ_task] [] [] [0%N] [EvExpired 0%N; EvRemove 0%N] succ_task 1%N
                Hwf succ_witness (or_introl eq_refl) eq_refl eq_refl eq_refl eq_refl eq_refl).
  simpl in H. apply H.
  - intros [Hd|[]]. discriminate.
  - intros [].
Qed.

(* ---------------------------------------------------------------- non-vacuity *)
Definition ex_env : env :=
  mkEnv [((0%N, O_EXPIRED), [3%N; 4%N]); ((0%N, 3%N), [5%N])] [] [(0%N, 3600); (1%N, 3600); (2%N, -86400)]
        [(0%N, COr (CVar 3%N) (CVar 0%N)); (1%N, CVar 3%N); (2%N, CVar 3%N); (3%N, CVar 3%N); (4%N, CVar 3%N)] [4%N].

Definition ex_pool : list task :=
  [ tk ex_env 0%N Waiting false true true false (Some 3600) true false [] true false false;     (* held, queued: expires *)
    tk ex_env 1%N Waiting true false false false (Some 3600) true false [] false true true;     (* manual: does not *)
    tk ex_env 2%N Running false false false false (Some (-86400)) true false [1%N; 2%N] false false false;  (* running *)
    tk ex_env 4%N Waiting false false false true None true false [] false false false ].       (* child already there *)

(* at now = expiry time exactly the eligible task 0 expires: its :expired children 3 (spawned) and 4
   (already in the pool) are reached, its :succeeded child 5 is not; it is complete and removed *)
Example c32_ex_pass :
  clock_expire_tasks ex_env 3600 ex_pool [] =
  ([ tk ex_env 1%N Waiting true false false false (Some 3600) true false [] false true true;
     tk ex_env 2%N Running false false false false (Some (-86400)) true false [1%N; 2%N] false false false;
     tk ex_env 4%N Waiting false false false true None true false [] false false false;
     new_task ex_env 3%N ],
   [0%N],
   [EvExpired 0%N; EvSpawn 0%N 3%N; EvSat 0%N 4%N; EvRemove 0%N]).
Proof. vm_compute. reflexivity. Qed.

(* one second earlier nothing expires *)
Example c32_ex_not_yet : clock_expire_tasks ex_env 3599 ex_pool [] = (ex_pool, [], []).
Proof. vm_compute. reflexivity. Qed.

Example c32_ex_hypotheses : wf_state ex_pool [] = true /\ pool_ok ex_pool = true.
Proof. split; reflexivity. Qed.

(* a run of the step system: spawn, queue, expire at the expiry time, release/submit: the expired
   task is not submitted, the other one is *)
Definition ex_ops : list op :=
  [ OSpawn ex_env 1%N; OSpawn ex_env 3%N; ORunahead 1%N false; ORunahead 3%N false;
    OQueue 1%N true; OQueue 3%N true; OPass ex_env 3600; OReleaseSubmit [3%N]; OPass ex_env 99999 ].

Example c32_ex_run :
  match run (mkState [] [] []) ex_ops with
  | Some st => s_log st = [EvExpired 1%N; EvSubmit 3%N Waiting]
               /\ map (fun t => (t_id t, t_status t)) (s_pool st) = [(1%N, Expired); (3%N, Preparing)]
  | None => False
  end.
Proof. vm_compute. split; reflexivity. Qed.

Example c32_ex_initial_state : Good (mkState [] [] []) /\ Logged (mkState [] [] []).
Proof.
  split; [split; [apply wf_state_WF; reflexivity | reflexivity] |].
  split; [constructor | intros i []].
Qed.

(* releasing an expired task is not an enabled operation: the queues do not hold it *)
Example c32_ex_release_expired_disabled :
  match run (mkState [] [] []) [OSpawn ex_env 1%N; ORunahead 1%N false; OQueue 1%N true; OPass ex_env 3600] with
  | Some st => step st (OReleaseSubmit [1%N]) = None
  | None => False
  end.
Proof. vm_compute. reflexivity. Qed.

Example c32_ex_ops_no_revive : forallb no_revive ex_ops = true.
Proof. reflexivity. Qed.

(* why (b) excludes manual triggers and job messages: an expired, incomplete task that is triggered
   manually runs (that submission is for a waiting task), and if its job fails with a retry lined up
   it is waiting again, no longer manual, and expires a second time *)
Example c32_ex_retrigger_expires_again :
  match run (mkState [] [] [])
            [OSpawn ex_env 1%N; ORunahead 1%N false; OPass ex_env 3600; OManual 1%N false;
             OReleaseSubmit []; OMsg 1%N Waiting [1%N; 2%N]; OPass ex_env 3601] with
  | Some st => s_log st = [EvExpired 1%N; EvManual 1%N; EvSubmit 1%N Waiting; EvExpired 1%N]
  | None => False
  end.
Proof. vm_compute. reflexivity. Qed.

(* ---------------------------------------------------------------- manual triggers *)
(* "not manually triggered": what `cylc trigger` (TaskPool.queue_or_trigger) does to its target, for
   EVERY state of the target -- any status it acts on, flagged queued or not, in a queue or not, held,
   runahead-limited, freshly spawned by the command, queue limit reached or not: the target carries the
   manual flag, is waiting, keeps its held / runahead flags and expiry time, and is not eligible for
   expiry at any clock value.  (check_trig compares every real queue_or_trigger call with this
   function and checks the flag on the real task.) *)
Theorem c32_trigger_marks_manual_in_every_state :
  forall limited t,
    let t' := queue_or_trigger limited t in
    t_manual t' = true /\ t_status t' = Waiting /\ t_id t' = t_id t /\
    t_held t' = t_held t /\ t_runahead t' = t_runahead t /\ t_expire t' = t_expire t /\
    (forall now, eligible now t' = false).
Proof. exact qot_spec. Qed.

(* From the moment of the command: after a trigger of instance i (in whatever state), over ALL
   continuations (passes at any clock value, queueing, hold/release, runahead changes, messages,
   further triggers, spawns, removals, releases), every expiry event of i in the continuation is
   preceded by a job submission for i (which clears the flag, by design, for retries) or by its
   removal from the pool *)
Theorem c32_triggered_exempt_until_submitted :
  forall st i limited st1 os st2,
    Good st -> step st (OManual i limited) = Some st1 -> run st1 os = Some st2 ->
    exists nw, s_log st2 = s_log st1 ++ nw /\
      forall pre post, nw = pre ++ EvExpired i :: post ->
        (exists s, In (EvSubmit i s) pre) \/ In (EvRemove i) pre.
Proof. exact trigger_exempt. Qed.

(* the same for any task that carries the flag (e.g. restored from the database on restart) *)
Theorem c32_manual_exempt_until_submitted :
  forall os st st' t,
    Good st -> run st os = Some st' -> In t (s_pool st) -> t_manual t = true ->
    exists nw, s_log st' = s_log st ++ nw /\
      forall pre post, nw = pre ++ EvExpired (t_id t) :: post ->
        (exists s, In (EvSubmit (t_id t) s) pre) \/ In (EvRemove (t_id t)) pre.
Proof. exact manual_exempt_until_submitted. Qed.

(* target states: (1) not flagged queued, queue full -> queued behind the limit WITH the flag (the seeded
   regression lost it here); (2) queue not full -> runs now; (3) already queued -> taken out, runs now;
   (4) held; (5) runahead-limited; then the clock passes the expiry time: none of them expires *)
Example c32_ex_trigger_target_states :
  let fresh := new_task ex_env 1%N in                                  (* just spawned: runahead flag set *)
  let queued := set_queued (set_runahead false fresh) in
  let held := set_held true fresh in
  map (fun t => let t' := queue_or_trigger true t in (t_manual t', t_queued t', t_inq t', t_trig t', eligible 99999 t'))
      [fresh; queued; held]
  = [(true, true, true, false, false); (true, false, false, true, false); (true, true, true, false, false)]
  /\ (let t' := queue_or_trigger false fresh in (t_manual t', t_queued t', t_trig t', t_runahead t', eligible 99999 t'))
     = (true, false, true, true, false)
  /\ eligible 99999 (set_runahead false fresh) = true.                  (* untriggered, it would expire *)
Proof. vm_compute. repeat split. Qed.

(* the seeded-regression scenario in the model: b (instance 1, expiry 3600) is spawned by the trigger
   command while the queue is full (limited = true), the clock goes to 7200 with b still queued: no expiry;
   when the queue releases it, it is submitted as a waiting task *)
Example c32_ex_trigger_queued_behind_limit :
  match run (mkState [] [] [])
            [OSpawn ex_env 1%N; OManual 1%N true; ORunahead 1%N false; OPass ex_env 7200;
             OReleaseSubmit [1%N]; OPass ex_env 7300] with
  | Some st => s_log st = [EvManual 1%N; EvSubmit 1%N Waiting]
  | None => False
  end.
Proof. vm_compute. reflexivity. Qed.
