(* Props/C01.v — C01 "Graph-faithful execution".
   The model is the pool specification automaton Model/Pool.v over the
   workflow's instance graph; [exec c (init_state c) tr = Some s] says the
   event trace [tr] is accepted.  The correspondence stream checks that the
   real scheduler's traces are accepted (and that the abstract pool equals the
   real one at every tick end); these theorems say what acceptance implies. *)
From Coq Require Import List Bool ZArith.
From Cylc Require Import Base.Util Model.Pool Proofs.PoolProofs Proofs.PoolTheorems.
Import ListNotations.

(* Soundness half: whenever a job submission is accepted, the instance is an
   instance of the graph (on one of its sequences, within initial..final
   point), it is in the preparing state, and -- unless manually triggered --
   every one of its prerequisite expressions is true over outputs that were
   actually completed earlier in the run (each satisfied atom corresponds to
   an earlier EOutput event of the upstream instance), are pre-initial, or
   were force-satisfied by a command (cylc set --pre / trigger). *)
Theorem c01_submit_only_when_satisfied : forall c tr1 tr2 t sn sf,
  exec c (init_state c) (tr1 ++ ESubmit t sn :: tr2) = Some sf ->
  exists s1 p i,
    exec c (init_state c) tr1 = Some s1 /\
    find_task (pool s1) t = Some p /\ find_inst (c_insts c) t = Some i /\
    valid_id c t /\ p_status p = Preparing /\
    (p_manual p = true \/
     forall e, In e (i_pre i) ->
       bx_holds (fun k => emitted tr1 k \/ In k (p_forced p)) e).
Proof. exact submit_only_when_satisfied. Qed.

(* Every pooled instance is a graph instance within the cycle bounds. *)
Theorem c01_pool_instances_are_graph_instances : forall c tr s p,
  exec c (init_state c) tr = Some s -> In p (pool s) -> valid_id c (p_id p).
Proof. exact pool_on_sequence_in_bounds. Qed.

(* Completeness half, as far as it is a theorem about the automaton: an
   accepted automatic shutdown leaves nothing that could still run, and every
   accepted tick end bounds how long a ready task may stay unqueued.
   (That the submitted set equals the spawn-on-demand closure on complete runs
   is checked per run by the C01 oracle; it is NOT proved here: partial.) *)
Theorem c01_shutdown_leaves_nothing_runnable_partial : forall c s s',
  step c s EShutdownAuto = Ok s' ->
  forall p, In p (pool s) ->
    is_active (p_status p) = false /\
    (p_status p = Waiting -> p_runahead p = true) /\
    (fst (p_id p) <= stop_point s ->
       is_final (p_status p) = false /\ (p_status p = Waiting -> p_sat p = []))%Z.
Proof. exact auto_shutdown_guard. Qed.

(* non-vacuity: a two-task graph a => b at point 1; the natural trace is accepted,
   and submitting b before a's output is rejected. *)
Definition ex_cfg : cfg :=
  {| c_insts := [ {| i_id := (1%Z, 0%nat); i_pre := []; i_comp := CAtom 4%nat; i_queue := 0%nat; i_tries := 1%nat |};
                  {| i_id := (1%Z, 1%nat); i_pre := [BAtom ((1%Z, 0%nat), 4%nat) false];
                     i_comp := CAtom 4%nat; i_queue := 0%nat; i_tries := 1%nat |} ];
     c_points := [1%Z]; c_runahead := 1%nat; c_qlimits := [0%nat]; c_icp := 1%Z; c_fcp := 1%Z; c_start := 1%Z; c_future := [] |}.
Definition a : tid := (1%Z, 0%nat).
Definition b : tid := (1%Z, 1%nat).
Definition ex_trace : list event :=
  [ ESpawn a [1%nat] [] false; EAdd a; ELimit (Some 1%Z);
    EState a Waiting false false false; EState a Waiting false true false;
    EReleaseBegin; EState a Waiting false false false; ERelease [a];
    EState a Preparing false false false; ESubmit a 1%nat;
    EOutput a 1%nat; EState a Submitted false false false;
    EOutput a 3%nat; EState a Running false false false;
    EOutput a 4%nat; EState a Succeeded false false false;
    ESpawn b [1%nat] [] false; ESat b [(a, 4%nat)] [(a, 4%nat)]; EAdd b;
    ERemove a true ].
Example c01_ex_accepted : run ex_cfg ex_trace = None.
Proof. vm_compute. reflexivity. Qed.
Example c01_ex_premature_submit_rejected :
  run ex_cfg [ ESpawn b [1%nat] [] false; EAdd b; ELimit (Some 1%Z);
               EState b Waiting false false false; EState b Waiting false true false ] = Some (4%nat, 142%nat).
Proof. vm_compute. reflexivity. Qed.
