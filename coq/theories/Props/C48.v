(* Props/C48.v — C48 "Installed run directories are numbered and runN tracks
   the latest".  Property theorems only; proofs are in Proofs/InstallProofs.v.
   Model/Install.v models one workflow directory (numbered run dirs with a
   content stamp each, the runN symlink, named runs, a flat run, the
   _cylc-install/source link) and the operations install (numbered,
   --run-name, --no-run-name), reinstall, clean (run<k>, runN, named run, the
   whole workflow) and the two manual user actions `rm runN`, `rm -rf run<k>`.
   The model is tied to install.py / pathutil.get_next_rundir_number /
   clean.py by the C48 correspondence stream (outcome and directory listing
   compared after every step of generated histories).

   [run empty ops] is the state after the history [ops] starting from a
   workflow that has never been installed; [created s o] is the number K of
   the run dir that operation [o] creates in state [s] (None if it creates
   none; only numbered installs create numbered dirs). *)
From Coq Require Import List NArith Bool Arith.
From Cylc Require Import Base.Util Model.Install Proofs.InstallProofs.
Import ListNotations.
Open Scope N_scope.

(* The chosen run number is fresh: in every state reachable by ANY history of
   the modelled operations (manual removals included), if an install creates
   run K then K is exactly get_next_rundir_number's answer, run K does not
   exist, K exceeds every existing run number, K exceeds runN's target when
   that target exists; and when nothing was removed by hand runN never
   dangles, so K exceeds runN's target outright. *)
Theorem c48_fresh : forall ops o k,
  let s := run empty ops in
  created s o = Some k ->
  k = next_num s /\ ~ In k (nums s) /\ (forall j, In j (nums s) -> j < k) /\
  (forall t, runN s = Some t -> In t (nums s) -> t < k) /\
  (forallb (fun o => negb (manual_rm o)) ops = true -> forall t, runN s = Some t -> t < k).
Proof. exact fresh_reachable. Qed.

(* A numbered install that reports success did create a run dir (so c48_fresh
   and c48_runN_latest apply to it). *)
Theorem c48_ok_install_creates : forall s src c,
  snd (step s (Install src c)) = Ok -> created s (Install src c) = Some (next_num s).
Proof. exact install_ok_created. Qed.

(* runN tracks the latest: right after an install that creates run K, runN
   points to run K, run K exists, and K is the highest run number. *)
Theorem c48_runN_latest : forall ops o k,
  let s := run empty ops in
  created s o = Some k ->
  let s' := fst (step s o) in
  runN s' = Some k /\ In k (nums s') /\ (forall j, In j (nums s') -> j <= k).
Proof. exact runN_latest_after_install. Qed.

(* ... and between installs: after any history, a runN whose target exists
   points at the highest existing run; if no run dir was removed by hand, runN
   (when present) always has an existing target, which is the highest run.
   (Cleaning the latest run removes runN — clean.py "Remove runN symlink if
   it's now broken" — it is not re-pointed to an older run.) *)
Theorem c48_runN_invariant : forall ops,
  let s := run empty ops in
  (forall t, runN s = Some t -> In t (nums s) -> forall k, In k (nums s) -> k <= t) /\
  (forallb (fun o => negb (manual_rm o)) ops = true ->
   forall t, runN s = Some t -> In t (nums s) /\ forall k, In k (nums s) -> k <= t).
Proof. exact runN_invariant. Qed.

(* An install never overwrites (or removes) an existing run directory: in ANY
   state, reachable or not, after any kind of install — successful or failed —
   every numbered run, named run and flat run that existed still exists with
   the same content stamp, run numbers stay unique, and so the stamp found
   under an old number is the old stamp. *)
Theorem c48_no_overwrite : forall s o, is_install o = true ->
  let s' := fst (step s o) in
  (forall k c, In (k, c) (numbered s) -> In (k, c) (numbered s')) /\
  (forall j c, In (j, c) (named s) -> In (j, c) (named s')) /\
  (forall c, flat s = Some c -> flat s' = Some c) /\
  (forall k c c', In (k, c) (numbered s) -> In (k, c') (numbered s') -> NoDup (nums s) -> c' = c) /\
  (NoDup (nums s) -> NoDup (nums s')).
Proof. exact no_overwrite. Qed.

(* Numbers are never re-used: in every history that never removes the
   currently highest run (by cylc clean of it / of runN / of the whole
   workflow, or by hand), the numbers of the run dirs created, in order of
   creation, are strictly increasing starting above 0 — hence pairwise
   distinct.  (Re-use of the number of a removed highest run is by design:
   get_next_rundir_number only looks at what exists; see c48_ex_reuse.) *)
Theorem c48_no_reuse : forall ops, safe empty ops = true ->
  increasing_from 0 (created_list empty ops) /\ NoDup (created_list empty ops).
Proof. exact no_reuse. Qed.

(* ---- non-vacuity / documented behaviour ---- *)
Definition I0 := Install 0%nat.

(* run1, run2, run3 are created in order; cleaning run1 (not the highest) is a
   safe history; the next install is run4 and runN follows *)
Example c48_ex_numbering :
  let ops := [I0 1%nat; I0 2%nat; I0 3%nat; Clean (TNum 1); I0 5%nat] in
  safe empty ops = true /\ created_list empty ops = [1; 2; 3; 4] /\
  listing_of (run empty ops) =
    ([(2, 2%nat); (3, 3%nat); (4, 5%nat)], Some 4, [], None, Some 0%nat).
Proof. vm_compute. auto. Qed.

(* by design: after cleaning the highest run its number is used again (this
   history is not [safe], so c48_no_reuse does not apply to it) *)
Example c48_ex_reuse :
  let ops := [I0 1%nat; I0 2%nat; Clean (TNum 2); I0 4%nat] in
  safe empty ops = false /\ created_list empty ops = [1; 2; 2].
Proof. vm_compute. auto. Qed.

(* a manual `rm -rf run2` leaves runN dangling; the next install falls back to
   the directory names *)
Example c48_ex_dangling :
  let ops := [I0 1%nat; I0 2%nat; RmRun 2] in
  runN (run empty ops) = Some 2 /\ nums (run empty ops) = [1] /\ next_num (run empty ops) = 2.
Proof. vm_compute. auto. Qed.

(* named and numbered runs exclude each other; an install from another source
   fails only after creating the run dir *)
Example c48_ex_outcomes :
  map (fun p => outcome_code (snd p))
      [step (run empty [I0 1%nat]) (InstallNamed 0 0 2);
       step (run empty [InstallNamed 0 0 1]) (I0 2%nat);
       step (run empty [I0 1%nat]) (Install 1 2)]
  = [2; 1; 5]%nat /\
  nums (fst (step (run empty [I0 1%nat]) (Install 1 2))) = [1; 2].
Proof. vm_compute. auto. Qed.
