(* Props/C43.v — C43 "Stop point, stop task and stop modes behave as documented". *)
From Coq Require Import List Bool ZArith.
From Cylc Require Import Base.Util Model.Pool Proofs.PoolProofs Proofs.PoolTheorems.
Import ListNotations.
Open Scope Z_scope.

(* With a stop cycle point no task beyond it is submitted unless manually triggered. *)
Theorem c43_no_submission_beyond_stop_point : forall c s t sn s',
  step c s (ESubmit t sn) = Ok s' ->
  exists p, find_task (pool s) t = Some p /\ (p_manual p = true \/ fst t <= stop_point s).
Proof. exact no_submission_beyond_stop_point. Qed.

(* The automatic shutdown happens only when nothing at or before the stop point
   remains (no active task, no released waiting task, nothing incomplete or
   partially satisfied within the stop point) ... *)
Theorem c43_shutdown_only_when_nothing_remains : forall c s s',
  step c s EShutdownAuto = Ok s' ->
  forall p, In p (pool s) ->
    is_active (p_status p) = false /\
    (p_status p = Waiting -> p_runahead p = true) /\
    (fst (p_id p) <= stop_point s ->
       is_final (p_status p) = false /\ (p_status p = Waiting -> p_sat p = [])).
Proof. exact auto_shutdown_guard. Qed.

(* ... and the early stop point is then forgotten; otherwise it survives a
   restart (ERestart keeps it) and the value the scheduler reports at every
   tick end and after every restart equals the abstract one. *)
Theorem c43_stop_point_forgotten_when_reached : forall c s s',
  step c s EShutdownAuto = Ok s' -> stop_point s' = c_fcp c.
Proof. exact stop_point_forgotten_when_reached. Qed.

Theorem c43_stop_point_survives_restart : forall c s s',
  step c s ERestart = Ok s' -> stop_point s' = stop_point s /\ stop_task s' = stop_task s.
Proof.
  intros c s s' H. destruct (restart_keeps_persistent_state c s s' H) as [_ [_ [_ [_ [A [B _]]]]]]. auto.
Qed.

Theorem c43_reported_stop_state_agrees : forall c s sp st s',
  step c s (EParams sp st) = Ok s' -> sp = stop_point s /\ option_eqb tid_eqb st (stop_task s) = true.
Proof. exact reported_stop_state_agrees. Qed.

(* With a stop task the workflow stops only after that task has succeeded. *)
Theorem c43_stop_task_only_after_success : forall c s s',
  step c s EStopTaskDone = Ok s' ->
  exists t, stop_task s = Some t /\ In (t, o_succeeded) (done s) /\ stop_task s' = None.
Proof. exact stop_task_done_only_after_success. Qed.

(* A clean stop waits for submitted and running jobs; stop --now may leave them,
   and what it leaves is restored by the restart (C19). *)
Theorem c43_clean_stop_waits : forall c s s',
  step c s (EShutdownReq SClean) = Ok s' ->
  forall p, In p (pool s) -> p_status p <> Submitted /\ p_status p <> Running.
Proof. exact clean_stop_waits_for_active_jobs. Qed.

Theorem c43_now_leaves_restartable : forall c s vs s',
  exec c s (ERestart :: map ERestore vs ++ [ERestartDone]) = Some s' ->
  forall q, In q (pool s') <-> In q (map restored (pool s)).
Proof. exact restart_roundtrip. Qed.
