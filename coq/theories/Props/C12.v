(* Props/C12.v — C12 "Required/optional output classification matches the
   expression".  Property theorems only; proofs in Proofs/OptOutputsProofs.v.
   The model (Model/OptOutputs.v) is tied to task_outputs.get_optional_outputs,
   TaskOutputs.iter_required_messages, WorkflowConfig._check_completion_expression
   and run_modes.skip.process_outputs by the C12 correspondence streams. *)
From Coq Require Import List Bool Arith.
From Cylc Require Import Base.Util Model.BExpr Model.Completion Model.OptOutputs
  Proofs.BExprProofs Proofs.CompletionProofs Proofs.OptOutputsProofs.
Import ListNotations.

(* "For any valid completion expression, an output is classified required
   exactly when the expression is false whenever that output alone is missing
   (treating expired and submit-failed as absent), optional when it is
   referenced but not required, and unreferenced otherwise."

   What the code computes, for every And/Or expression whose names are
   outputs, every output set and every output: the truth value of the
   expression in the single state where everything except [o], expired and
   submit-failed (and the disabled output) is complete. *)
Theorem c12_classify_computes : forall e outs disable o,
  valid e outs ->
  classify (Some e) outs disable o =
  if uses e o then Opt (eval (missing_with disable o) e) else Unref.
Proof. exact classify_valid. Qed.

(* ... and because And/Or expressions are monotone, being false in that one
   state is the same as being false in EVERY state in which [o] is missing and
   the task neither expired nor submit-failed ([necessary]).  So:
   required  <=> referenced and necessary;
   optional  <=> referenced and not necessary;
   None      <=> not referenced. *)
Theorem c12_classification : forall e outs o,
  valid e outs ->
  (classify (Some e) outs None o = Opt false <-> In o (vars e) /\ necessary e o) /\
  (classify (Some e) outs None o = Opt true <-> In o (vars e) /\ ~ necessary e o) /\
  (classify (Some e) outs None o = Unref <-> ~ In o (vars e)).
Proof. exact classification. Qed.

(* The dict returned by get_optional_outputs holds exactly that classification
   for every output of the task and every name used, and nothing else; a valid
   expression never raises NameError. *)
Theorem c12_returned_dict : forall e outs disable r o,
  get_optional_outputs e outs disable = Some r ->
  assoc Nat.eqb o r =
  if mem Nat.eqb o (evars e ++ outs) then Some (classify e outs disable o) else None.
Proof. exact goo_lookup. Qed.

Theorem c12_valid_no_nameerror : forall e outs disable,
  valid e outs ->
  get_optional_outputs (Some e) outs disable =
  Some (map (fun o => (o, classify (Some e) outs disable o)) (keys (Some e) outs)).
Proof. exact goo_valid_some. Qed.

(* iter_required_messages yields exactly the registered outputs classified required *)
Theorem c12_iter_required : forall e outs d req o,
  iter_required e outs d = Some req ->
  (In o req <-> In o outs /\ classify e outs d o = Opt false).
Proof. exact iter_required_In. Qed.

(* "Validation accepts a user completion expression only if it is consistent
   with the optionality declared in the graph."  The four raise-tests of the
   consistency loop are the documented 9-row table, for every output and every
   (graph, expression) pair; [pre_exec v] is footnote [1]. *)
Theorem c12_validation_table : forall v g e,
  pair_ok v g e = table (pre_exec v) g e.
Proof. exact pair_ok_table. Qed.

(* the whole decision: accepted iff the expression evaluates and every output
   passes the table *)
Theorem c12_accept_iff_table : forall t e,
  check_completion t e = Accept <->
  exists r, get_optional_outputs (Some e) (map fst t) None = Some r /\
            forall v, In v (keys (Some e) (map fst t)) ->
                      table (pre_exec v) (gopt t v) (eopt (lookup_cls r v)) = true.
Proof. exact check_completion_accept. Qed.

(* consequence in semantic terms: in an accepted expression every output the
   graph requires is referenced and necessary for completion, and no
   referenced output the graph marks optional is necessary (outputs other than
   expired / submit-failed). *)
Theorem c12_accept_sound : forall t e o,
  valid e (map fst t) ->
  check_completion t e = Accept ->
  In o (map fst t) -> pre_exec o = false ->
  (gopt t o = Some false -> In o (vars e) /\ necessary e o) /\
  (gopt t o = Some true -> In o (vars e) -> ~ necessary e o).
Proof. exact accept_sound. Qed.

(* "the outputs that skip mode generates by default include every required
   output plus exactly one of succeeded/failed".

   Exactly one of succeeded/failed, for any [skip]outputs setting that does
   not name both (check_task_skip_config rejects that); `failed` is the one
   produced iff it is configured, or nothing is configured and `failed` is
   itself a required output ([emit_failed]; fix ac1cb29): *)
Theorem c12_skip_exactly_one : forall e outs conf l,
  skip_outputs e outs conf = Some l ->
  ~ (In SUCCEEDED conf /\ In FAILED conf) ->
  exists ef, emit_failed e outs conf = Some ef /\
    if ef then In FAILED l /\ ~ In SUCCEEDED l
    else In SUCCEEDED l /\ ~ In FAILED l.
Proof. exact skip_exactly_one. Qed.

(* Every required output is generated by default skip mode (this uses
   monotonicity: disabling one of succeeded/failed can only make more outputs
   required).  The only exclusion is an expression that requires BOTH
   succeeded and failed: then the two halves of the sentence contradict each
   other for any output set, and the code keeps "exactly one". *)
Theorem c12_skip_contains_all_required : forall e outs l o,
  valid e outs ->
  skip_outputs (Some e) outs [] = Some l ->
  ~ (In SUCCEEDED outs /\ classify (Some e) outs None SUCCEEDED = Opt false /\
     In FAILED outs /\ classify (Some e) outs None FAILED = Opt false) ->
  In o outs -> classify (Some e) outs None o = Opt false -> In o l.
Proof. exact skip_default_contains_required. Qed.

(* Link with C11: when the task has no user expression, every output that the
   GRAPH marks required (other than succeeded/failed) is generated by default
   skip mode — even when success is optional and the default expression
   "(x and succeeded) or failed" therefore classifies x as optional; this is
   what the `disable` argument is for.  (Excluded: the degenerate flag
   combination in which failure is tolerated and yet `failed` is necessary,
   e.g. succeeded optional + failed required: `failed` alone completes.) *)
Theorem c12_skip_default_expr_contains_graph_required : forall (t : tdef) e l o,
  In SUCCEEDED (map fst t) -> In FAILED (map fst t) ->
  default_expr t = Some e ->
  (fail_tolerated t = true -> classify (Some e) (map fst t) None FAILED <> Opt false) ->
  skip_outputs (Some e) (map fst t) [] = Some l ->
  In o (required t) -> o <> SUCCEEDED -> o <> FAILED -> In o l.
Proof. exact skip_default_graph_required. Qed.

Theorem c12_skip_defined : forall e outs conf,
  valid e outs -> exists l, skip_outputs (Some e) outs conf = Some l.
Proof. exact skip_valid_some. Qed.

(* ---- non-vacuity: the doctests of get_optional_outputs ---- *)
(* '(succeeded and (x or y)) or failed' : nothing is required *)
Definition ex1 := BOr (BAnd (BVar 4) (BOr (BVar 6) (BVar 7))) (BVar 5).
Example c12_ex1 :
  get_optional_outputs (Some ex1) [4;6;7;5;0] None =
  Some [(0, Unref); (4, Opt true); (5, Opt true); (6, Opt true); (7, Opt true)].
Proof. vm_compute. reflexivity. Qed.
(* '(succeeded and x and y) or expired' : succeeded, x, y required *)
Definition ex2 := BOr (BAnd (BAnd (BVar 4) (BVar 6)) (BVar 7)) (BVar 0).
Example c12_ex2 :
  get_optional_outputs (Some ex2) [4;6;7;5;0] None =
  Some [(0, Opt true); (4, Opt false); (5, Unref); (6, Opt false); (7, Opt false)].
Proof. vm_compute. reflexivity. Qed.
Example c12_ex2_valid : valid ex2 [4;6;7;5;0].
Proof. intros a Ha. cbn in Ha. right. cbn. intuition. Qed.
(* disable='failed' *)
Definition ex3 := BOr (BAnd (BVar 4) (BVar 6)) (BAnd (BVar 5) (BVar 7)).
Example c12_ex3 :
  get_optional_outputs (Some ex3) [4;6;5;7] (Some 5) =
  Some [(4, Opt false); (5, Opt true); (6, Opt false); (7, Opt true)].
Proof. vm_compute. reflexivity. Qed.
Example c12_ex_skip :
  skip_outputs (Some ex2) [0;1;2;3;4;5;6;7] [] = Some [1;3;4;6;7].
Proof. vm_compute. reflexivity. Qed.
(* regression witness of the fixed finding: completion "failed" (graph `a:fail => b`) *)
Example c12_ex_skip_failed_required :
  skip_outputs (Some (BVar FAILED)) [0;1;2;3;4;5] [] = Some [1;3;5].
Proof. vm_compute. reflexivity. Qed.
(* validation: x (6) required in the graph, succeeded optional *)
Definition ex_t : tdef :=
  [(0, None); (1, None); (2, None); (3, None); (4, Some false); (5, None); (6, Some true)].
Example c12_ex_reject :
  check_completion ex_t (BOr (BAnd (BVar 4) (BVar 6)) (BVar 5)) = RejectInconsistent.
Proof. vm_compute. reflexivity. Qed.
Example c12_ex_accept :
  check_completion ex_t (BAnd (BOr (BVar 4) (BVar 5)) (BVar 6)) = Accept.
Proof. vm_compute. reflexivity. Qed.
