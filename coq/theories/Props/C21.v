(* Props/C21.v — C21 "Database writes are atomic and the public database converges".
   Property theorems only; proofs are in Proofs/DbProofs.v.  The model
   (Model/Db.v) is tied to cylc/flow/rundb.py and workflow_db_mgr.py by the C21
   correspondence stream (real DAO/manager on sqlite files, faults injected at
   every statement/row position, real EXCLUSIVE locks).

   Vocabulary (Proofs/DbProofs.v):
     apply_batch sch d b   the batch b executed on its own in one transaction
     apply_seq sch d bs    the batches bs executed one after the other
     commutes sch d bs     the merged batch (concat bs) has the same effect on d as apply_seq
     synced sch m          private = public, both queues empty, n_tries = 0
     run_hist sch max m [] h   the manager after the history h of HProc batch public-fault
                           (process_queued_ops, private write succeeds) and HHealth
                           (recover_pub_from_pri) events, with the batches still outstanding for public *)
From Coq Require Import List Bool Arith ZArith Lia.
From Cylc Require Import Base.Util Model.Db Proofs.DbProofs.
Import ListNotations.

(* ---- atomicity ---- *)
(* A failure at ANY statement index k of the batch (k = number of statements:
   the commit), after ANY number j of rows of that statement, makes
   process_queued_ops raise and leaves the private (and the public) database
   exactly as it was; the batch stays queued. *)
Theorem c21_private_atomic : forall sch ops k j fpub m m' o,
  stmts (enq_all sch (d_q (m_pri m)) ops) <> [] ->
  k <= length (stmts (enq_all sch (d_q (m_pri m)) ops)) ->
  process sch ops (Some (k, j)) fpub m = (m', o) ->
  o = ORaised /\ d_db (m_pri m') = d_db (m_pri m) /\ d_db (m_pub m') = d_db (m_pub m) /\
  d_q (m_pri m') = enq_all sch (d_q (m_pri m)) ops.
Proof. exact process_private_fault. Qed.

(* For either DAO: whatever the fault, a write that does not commit changes
   neither the database nor the queues; a write that commits has executed
   every queued statement (all or nothing). *)
Theorem c21_write_all_or_nothing : forall sch pub f d d' o,
  exec_queued sch pub f d = (d', o) ->
  (o <> OOk -> d_db d' = d_db d /\ d_q d' = d_q d) /\
  (o = OOk -> d_db d' = run sch (d_db d) (flat (stmts (d_q d))) /\
              d_q d' = clear_queues (d_q d) /\ d_tries d' = 0).
Proof.
  intros sch pub f d d' o H. split.
  - exact (exec_atomic sch pub f d d' o H).
  - intros ->. exact (exec_ok_effect sch pub f d d' H).
Qed.

(* ---- retry ---- *)
(* Along every history: the public DAO's queue is exactly the outstanding
   batches merged, n_tries is their number, a failed public write changes
   nothing but n_tries, and the next public write that goes through applies the
   retained items together with the new ones and resets n_tries. *)
Theorem c21_public_retry : forall sch max m0 h m pend,
  synced sch m0 -> run_hist sch max m0 [] h = (m, pend) ->
  d_q (m_pub m) = enq_all sch (qempty sch) (concat pend) /\
  d_tries (m_pub m) = length pend /\
  forall b f m' o, process sch b None f m = (m', o) ->
    match o with
    | ORetry => d_db (m_pub m') = d_db (m_pub m) /\
                d_q (m_pub m') = enq_all sch (qempty sch) (concat (pend ++ [b])) /\
                d_tries (m_pub m') = S (length pend)
    | ORaised => False
    | _ => d_db (m_pub m') = apply_batch sch (d_db (m_pub m)) (concat (pend ++ [b])) /\
           d_q (m_pub m') = qempty sch /\ d_tries (m_pub m') = 0
    end.
Proof. exact hist_retry. Qed.

(* ---- convergence ---- *)
(* The property as written: whenever no public write is outstanding, the
   public database equals the private one. *)
Definition c21_public_converges : Prop :=
  forall sch max m0 h m, synced sch m0 -> run_hist sch max m0 [] h = (m, []) ->
    d_db (m_pub m) = d_db (m_pri m).

(* It is FALSE of the faithful model (and of the code: corpus case
   "witness-merged-reorder"): one table (key, value) with primary key `key`;
   batch 1 inserts (1,5) while the public DB is locked, batch 2 deletes key 1.
   The public DAO executes the merged queue deletes-first, so (1,5) stays in
   the public DB and n_tries is back to 0. *)
Definition c21_w_sch : schema := [(2, [0])].
Definition c21_w_hist : hist :=
  [HProc [OInsD 0 [(0, Some 1%Z); (1, Some 5%Z)]] (Some (0, 0));
   HHealth;
   HProc [ODel 0 [(0, Some 1%Z)]] None].

Theorem c21_public_converges_refuted : ~ c21_public_converges.
Proof.
  intros H.
  specialize (H c21_w_sch 100 (init_mgr c21_w_sch) c21_w_hist
                (fst (run_hist c21_w_sch 100 (init_mgr c21_w_sch) [] c21_w_hist))).
  assert (S : synced c21_w_sch (init_mgr c21_w_sch)) by (repeat split).
  assert (R : run_hist c21_w_sch 100 (init_mgr c21_w_sch) [] c21_w_hist =
              (fst (run_hist c21_w_sch 100 (init_mgr c21_w_sch) [] c21_w_hist), []))
    by (vm_compute; reflexivity).
  specialize (H S R). vm_compute in H. discriminate.
Qed.

(* What holds instead: along histories in which every public write that went
   through had a commuting merged batch, private = public + outstanding
   batches; in particular they are equal whenever nothing is outstanding.
   Histories include the health check at any point, for any MAX_TRIES, so this
   holds across recoveries.  (Reordering inside the merged batch is the ONLY
   way to diverge: nothing is lost, duplicated or applied early.) *)
Theorem c21_public_converges_if_commuting : forall sch max m0 h m pend,
  synced sch m0 -> commuting_hist sch max m0 [] h -> run_hist sch max m0 [] h = (m, pend) ->
  d_db (m_pri m) = apply_seq sch (d_db (m_pub m)) pend.
Proof. exact hist_converges_synced. Qed.

(* A syntactic sufficient condition for [commutes]: for every table the merged
   queue issues the same single-row statements in the same order as the
   batches would one after the other (e.g. insert-only tables, or batches
   touching different tables, or later batches that only add statement kinds
   executed later: deletes < inserts < updates). *)
Theorem c21_commuting_if_order_preserved : forall sch d bs,
  order_preserved sch (length d) bs -> commutes sch d bs.
Proof. exact order_preserved_commutes. Qed.

(* ---- recovery at MAX_TRIES ---- *)
(* After max consecutive failed public writes recover_pub_from_pri
   re-synchronises: public = private, both queues empty (the retained public
   queue is dropped: fix fc5ba1e), n_tries = 0; the private side is untouched.
   Below the threshold it does nothing. *)
Theorem c21_converges_after_recover : forall sch max m0 h m pend,
  synced sch m0 -> run_hist sch max m0 [] h = (m, pend) -> max <= length pend ->
  synced sch (health max m) /\ m_pri (health max m) = m_pri m.
Proof. exact hist_recover. Qed.

Theorem c21_no_recover_below_threshold : forall max m,
  d_tries (m_pub m) < max -> health max m = m.
Proof. exact health_below. Qed.

(* ... and the write after a recovery converges (before fix fc5ba1e this was
   refuted: the stale public queue was replayed on top of the copy; the witness
   is kept as corpus case "witness-stale-replay"). *)
Theorem c21_recovered_write_converges : forall sch max m0 h m pend b m' o,
  synced sch m0 -> run_hist sch max m0 [] h = (m, pend) -> max <= length pend ->
  process sch b None None (health max m) = (m', o) ->
  d_db (m_pub m') = d_db (m_pri m').
Proof.
  intros sch max m0 h m pend b m' o Hs Hr Hl Hp.
  destruct (hist_recover sch max m0 h m pend Hs Hr Hl) as [Hsy _].
  exact (recovered_write sch _ b m' o Hsy Hp).
Qed.

(* ---- non-vacuity ---- *)
(* a history with a failed public write whose merged retry commutes:
   insert (1,5) [public locked], then insert (2,6) and update key 1 *)
Definition c21_ex_hist : hist :=
  [HProc [OInsD 0 [(0, Some 1%Z); (1, Some 5%Z)]] (Some (0, 0));
   HHealth;
   HProc [OInsD 0 [(0, Some 2%Z); (1, Some 6%Z)]; OUpd 0 [(1, Some 9%Z)] [(0, Some 1%Z)]] (Some (5, 0))].
Example c21_ex_commuting : commuting_hist c21_w_sch 3 (init_mgr c21_w_sch) [] c21_ex_hist.
Proof. vm_compute. repeat split. Qed.
Example c21_ex_result :
  let '(m, pend) := run_hist c21_w_sch 3 (init_mgr c21_w_sch) [] c21_ex_hist in
  pend = [] /\ d_db (m_pub m) = [[[Some 1%Z; Some 9%Z]; [Some 2%Z; Some 6%Z]]]
  /\ d_db (m_pri m) = d_db (m_pub m).
Proof. vm_compute. repeat split. Qed.
Example c21_ex_order_preserved :
  order_preserved c21_w_sch 1
    [[OInsD 0 [(0, Some 1%Z); (1, Some 5%Z)]];
     [OInsD 0 [(0, Some 2%Z); (1, Some 6%Z)]; OUpd 0 [(1, Some 9%Z)] [(0, Some 1%Z)]]].
Proof. intros t Ht. destruct t; [vm_compute; reflexivity|lia]. Qed.
(* the failing position really fails: fault at statement 0 of a one-statement batch *)
Example c21_ex_fault :
  snd (process c21_w_sch [OInsD 0 [(0, Some 1%Z); (1, Some 5%Z)]] (Some (1, 0)) None (init_mgr c21_w_sch)) = ORaised.
Proof. vm_compute. reflexivity. Qed.
(* the former stale-replay witness now converges: one insert outstanding, the
   public write fails once, MAX_TRIES = 1, recovery, then an empty write *)
Example c21_ex_recovery :
  let '(m, pend) := run_hist [(2, [])] 1 (init_mgr [(2, [])]) []
                      [HProc [OInsL 0 [Some 7%Z; Some 8%Z]] (Some (0, 0)); HHealth; HProc [] None] in
  pend = [] /\ d_db (m_pub m) = [[[Some 7%Z; Some 8%Z]]] /\ d_db (m_pri m) = d_db (m_pub m).
Proof. vm_compute. repeat split. Qed.
