(* Props/C34.v — C34 "Parameter expansion yields exactly the Cartesian product".
   Property theorems only.  Model/Param.v is the hand model of
   cylc/flow/param_expand.py (GraphExpander, NameExpander) and of the removal of
   out-of-range offset nodes in cylc/flow/graph_parser.py; it is tied to the code
   by the three C34 correspondence streams (graph, name, drop).

   Vocabulary (Proofs/ParamProofs.v):
     assignment ps a   a gives each parameter of ps, in order, one of its values
     combos ps         the list of all assignments, first parameter outermost
     size_product ps   product of the lengths of the value lists
     subst_line c env l   the line with every <...> group replaced, loop values env
     line_items l      all items `p`, `p=v`, `p+k` of all groups of the line *)
From Coq Require Import List Bool ZArith Lia String Ascii.
From Cylc Require Import Base.Util Model.Param Proofs.ParamProofs.
Import ListNotations.
Open Scope Z_scope.

(* ---- 1. a graph line expands to exactly one instance per combination ---- *)

(* The set returned by GraphExpander.expand is, for the duplicate-free list
   [used] of the parameters that occur in the line, exactly the set of lines
   obtained from the assignments of [used] (and every assignment renders). *)
Theorem c34_graph_cartesian : forall c l ls,
  graph_expand c l = Ok ls ->
  exists used,
    check_line c l [] = Ok used /\ NoDup used /\
    (forall p, In p used <-> In p (map fst (line_items l))) /\
    (forall a, assignment (used_params c used) a -> exists s, subst_line c (rev a) l = Ok s) /\
    (forall s, In s ls <->
       s <> [] /\ exists a, assignment (used_params c used) a /\ subst_line c (rev a) l = Ok s).
Proof. exact graph_expand_cartesian. Qed.

(* One line is generated per combination: the number of generated lines
   (before the Python set merges equal strings) is the product of the sizes. *)
Theorem c34_graph_size : forall c l ls used,
  graph_expand c l = Ok ls -> check_line c l [] = Ok used ->
  (forall a, assignment (used_params c used) a -> subst_line c (rev a) l <> Ok []) ->
  List.length ls = size_product (used_params c used).
Proof. exact graph_expand_size. Qed.

(* The combinations themselves: all assignments, each exactly once. *)
Theorem c34_combinations : forall ps,
  (forall a, In a (combos ps) <-> assignment ps a) /\
  List.length (combos ps) = size_product ps /\
  ((forall pv, In pv ps -> NoDup (snd pv)) -> NoDup (combos ps)).
Proof.
  intros ps. split; [intros a; apply combos_spec|]. split; [apply combos_length|apply combos_NoDup].
Qed.

(* ---- 2. specific values select only that value ---- *)

(* `<p=v>` contributes exactly what `<p>` contributes in the one combination
   where the loop value of p is v. *)
Theorem c34_fixed_value_is_that_combination : forall c env p raw,
  item_value c env (p, SEq raw) = item_value c ((p, nval raw) :: env) (p, SFree).
Proof. exact item_value_fixed. Qed.

(* Full statement: an accepted fixed value is one of the parameter's values
   (so the instance is one of the instances of the free parameter). *)
Definition c34_fixed_value_member_all : Prop :=
  forall c l u used p raw vs,
    check_line c l u = Ok used -> NoDup u -> In (p, SEq raw) (line_items l) ->
    vals_of c p = Some vs -> In (nval raw) vs.

(* Proved for value lists none of whose strings reads as an integer ... *)
Theorem c34_fixed_value_member_partial : forall c l u used p raw,
  check_line c l u = Ok used -> NoDup u -> In (p, SEq raw) (line_items l) ->
  exists vs, vals_of c p = Some vs /\ in_iter (nval raw) vs = Ok true /\
             (plain vs -> In (nval raw) vs).
Proof. exact fixed_value_member. Qed.

Definition s2t (s : string) : text := map (fun a => Z.of_N (N_of_ascii a)) (list_ascii_of_string s).

(* ... and false in general (finding): m = 072, a and foo<m=072>: the check
   passes (int('072') == 72) but the value rendered is the integer 72. *)
Definition cfg_padded : cfg :=
  [(0%nat, {| p_vals := [VStr (s2t "072"); VStr (s2t "a")];
              p_tmpl := [Lit (s2t "_"); Fld 0%nat FS] |})].
Definition line_padded : line := [TLit (s2t "foo"); TGrp [(0%nat, SEq (s2t "072"))]].
Theorem c34_fixed_value_member_refuted : ~ c34_fixed_value_member_all.
Proof.
  intros H.
  specialize (H cfg_padded line_padded [] [0%nat] 0%nat (s2t "072")
                [VStr (s2t "072"); VStr (s2t "a")] eq_refl (NoDup_nil _)
                (or_introl eq_refl) eq_refl).
  vm_compute in H. destruct H as [H|[H|[]]]; discriminate.
Qed.
(* (one line per loop value of m; the Python set merges the two equal strings) *)
Example c34_padded_expands_to_72 :
  graph_expand cfg_padded line_padded = Ok [s2t "foo_72"; s2t "foo_72"].
Proof. vm_compute. reflexivity. Qed.

(* ---- 3. offsets ---- *)

(* `<p+k>` with the loop at the i-th value of p denotes the (i+k)-th value and
   the _REMOVE marker when there is no such value. *)
Theorem c34_offset_semantics : forall c env p k v pl i,
  assoc Nat.eqb p env = Some v -> vals_of c p = Some pl ->
  NoDup pl -> nthZ pl i = Some v ->
  item_value c env (p, SOff k) =
    Ok (match nthZ pl (i + k) with Some w => w | None => REMOVE end).
Proof. exact offset_semantics. Qed.

(* `<p-1>` is the previous value; at the first value it is the marker. *)
Theorem c34_previous_value : forall c env p v pl i,
  assoc Nat.eqb p env = Some v -> vals_of c p = Some pl ->
  NoDup pl -> nthZ pl i = Some v ->
  (i = 0 -> item_value c env (p, SOff (-1)) = Ok REMOVE) /\
  (forall w, nthZ pl (i - 1) = Some w -> item_value c env (p, SOff (-1)) = Ok w).
Proof.
  intros c env p v pl i Ha Hv Hnd Hn.
  pose proof (offset_semantics c env p (-1) v pl i Ha Hv Hnd Hn) as H.
  replace (i + -1) with (i - 1) in H by lia. split.
  - intros ->. rewrite H. assert (E : nthZ pl (0 - 1) = None) by (apply nthZ_none; lia).
    now rewrite E.
  - intros w Hw. now rewrite H, Hw.
Qed.

(* ---- 4. the out-of-range node is dropped (graph_parser.py) ---- *)

(* Full statement: after the removal pass exactly the unmarked nodes remain. *)
Definition c34_drop_exact_all : Prop :=
  forall e, expr_nodes (drop_nodes e) = drop_spec e.

(* Proved unless the first two nodes of the expression are both marked ... *)
Theorem c34_drop_exact_partial : forall e,
  ~ two_leading_marked e -> expr_nodes (drop_nodes e) = drop_spec e.
Proof. exact drop_exact. Qed.

(* ... in which case the marked second node survives (finding):
   `foo<m-1> & bar<m-1> => ...` at the first value of m leaves bar_-32768. *)
Theorem c34_drop_two_leading_survives : forall e,
  two_leading_marked e ->
  exists n2, fst n2 = true /\ In (snd n2) (expr_nodes (drop_nodes e)).
Proof. exact drop_two_leading. Qed.

Definition expr_two : expr :=
  ((true, s2t "foo_-32768"), [(38, (true, s2t "bar_-32768"))]).
Theorem c34_drop_exact_refuted : ~ c34_drop_exact_all.
Proof. intros H. specialize (H expr_two). vm_compute in H. discriminate. Qed.

(* ---- 5. runtime headings (NameExpander) ---- *)

(* A name with <...> groups expands to one instance per assignment of the
   free parameters [used]: the instance dict is the fixed values [spec]
   updated with the assignment, the name is the template applied to it. *)
Theorem c34_name_cartesian : forall c l r,
  has_group l = true -> name_expand1 c l = Ok r ->
  exists tm spec used,
    name_scan c l [] [] [] = Ok (tm, spec, used) /\
    List.length r = size_product used /\
    (forall a, assignment used a -> exists s, apply_tmpl tm (upd_all spec a) = Ok s) /\
    (forall s d, In (s, d) r <->
       exists a, assignment used a /\ d = upd_all spec a /\ apply_tmpl tm d = Ok s).
Proof. exact name_expand1_cartesian. Qed.

(* In an instance every free parameter has its loop value ... *)
Theorem c34_name_free_bound : forall spec used a p v,
  assignment used a -> NoDup (map fst used) -> In (p, v) a ->
  assoc Nat.eqb p (upd_all spec a) = Some v.
Proof.
  intros spec used a p v Ha Hnd Hin. apply upd_all_bound; [|exact Hin].
  pose proof (assignment_names _ _ Ha) as E. unfold dict, pname in *. rewrite E. exact Hnd.
Qed.

(* ... and a fixed parameter keeps its fixed value, provided it is not also
   used free in the same name. *)
Definition c34_name_fixed_kept_all : Prop :=
  forall spec used a p v,
    assignment used a -> assoc Nat.eqb p spec = Some v ->
    assoc Nat.eqb p (upd_all spec a) = Some v.

Theorem c34_name_fixed_kept_partial : forall spec used a p v,
  assignment used a -> ~ In p (map fst used) -> assoc Nat.eqb p spec = Some v ->
  assoc Nat.eqb p (upd_all spec a) = Some v.
Proof.
  intros spec used a p v Ha Hp Hs. rewrite upd_all_other; [exact Hs|].
  pose proof (assignment_names _ _ Ha) as E. unfold dict, pname in *. rewrite E. exact Hp.
Qed.

(* finding: foo<i=0>bar<i> — one dict serves the whole name, the loop value
   overwrites the fixed one: foo_i1bar_i1 instead of foo_i0bar_i1. *)
Definition cfg_i : cfg :=
  [(0%nat, {| p_vals := [VInt 0; VInt 1]; p_tmpl := [Lit (s2t "_i"); Fld 0%nat (FD false 0)] |})].
Definition name_fixed_free : line :=
  [TLit (s2t "foo"); TGrp [(0%nat, SEq (s2t "0"))]; TLit (s2t "bar"); TGrp [(0%nat, SFree)]].
Theorem c34_name_fixed_kept_refuted : ~ c34_name_fixed_kept_all.
Proof.
  intros H.
  specialize (H [(0%nat, VInt 0)] [(0%nat, [VInt 0; VInt 1])] [(0%nat, VInt 1)] 0%nat (VInt 0)).
  assert (A : assignment [(0%nat, [VInt 0; VInt 1])] [(0%nat, VInt 1)]).
  { constructor; [cbn; auto|constructor]. }
  specialize (H A eq_refl). vm_compute in H. discriminate.
Qed.
Example c34_name_fixed_free_instances :
  name_expand1 cfg_i name_fixed_free =
  Ok [(s2t "foo_i0bar_i0", [(0%nat, VInt 0)]); (s2t "foo_i1bar_i1", [(0%nat, VInt 1)])].
Proof. vm_compute. reflexivity. Qed.

(* ---- non-vacuity: tests/unit/test_param_expand.py test_graph_expand_offset_1 ---- *)
Definition cfg_ij : cfg :=
  [(0%nat, {| p_vals := [VInt 0; VInt 1]; p_tmpl := [Lit (s2t "_i"); Fld 0%nat (FD false 0)] |});
   (1%nat, {| p_vals := [VInt 0; VInt 1; VInt 2]; p_tmpl := [Lit (s2t "_j"); Fld 1%nat (FD false 0)] |})].
Definition line_off : line :=
  [TLit (s2t "bar"); TGrp [(0%nat, SOff (-1)); (1%nat, SFree)];
   TLit (s2t "=>baz"); TGrp [(0%nat, SFree); (1%nat, SFree)]].
Example c34_offset_example :
  graph_expand cfg_ij line_off =
  Ok (map s2t ["bar_i-32768_j0=>baz_i0_j0"; "bar_i-32768_j1=>baz_i0_j1"; "bar_i-32768_j2=>baz_i0_j2";
               "bar_i0_j0=>baz_i1_j0"; "bar_i0_j1=>baz_i1_j1"; "bar_i0_j2=>baz_i1_j2"]%string).
Proof. vm_compute. reflexivity. Qed.
Example c34_offset_example_size :
  size_product (used_params cfg_ij [0%nat; 1%nat]) = 6%nat.
Proof. reflexivity. Qed.
Example c34_drop_example :
  expr_nodes (drop_nodes ((false, s2t "baz"), [(38, (true, s2t "foo_-32768")); (38, (false, s2t "pub"))]))
  = [s2t "baz"; s2t "pub"].
Proof. vm_compute. reflexivity. Qed.
