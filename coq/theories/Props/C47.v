(* Props/C47.v — C47 "Platform and host selection avoids unreachable hosts".
   Property theorems only.  Model/Platform.v is the hand model of
   cylc/flow/platforms.py (platform_from_name, get_platform_from_group,
   get_host_from_platform); it is tied to the code by the C47 correspondence
   streams.  Every theorem holds for arbitrary regex oracles [pmatch]/[gmatch]
   (re.fullmatch), [clash], [jobless] and for every choice function [select]
   of which only `In (select l) l` for non-empty l is assumed (random.choice). *)
From Coq Require Import List Bool Arith Lia.
From Cylc Require Import Base.Util Model.Platform Proofs.PlatformProofs.
Import ListNotations.

Definition chooses (select : list name -> name) : Prop :=
  forall l, l <> [] -> In (select l) l.

(* ---- 1. host selection ---- *)

(* A selected host is a host of the platform and is not known to be unreachable. *)
Theorem c47_host_avoids_bad : forall select, chooses select ->
  forall rp bad h,
  get_host select rp bad = Ok h -> In h (r_hosts rp) /\ ~ In h bad.
Proof. exact get_host_sound. Qed.

(* While the platform has a reachable host one is returned (for the two
   supported selection methods) ... *)
Theorem c47_host_found_when_one_exists : forall select rp bad,
  (exists h, In h (r_hosts rp) /\ ~ In h bad) -> r_method rp <> Other ->
  exists h, get_host select rp bad = Ok h.
Proof. exact get_host_complete. Qed.

(* ... and the no-hosts error is raised exactly when none remains. *)
Theorem c47_no_hosts_error_iff : forall select rp bad,
  get_host select rp bad = Err ENoHosts <-> (forall h, In h (r_hosts rp) -> In h bad).
Proof.
  intros select rp bad.
  exact (get_host_nohosts (fun _ _ => true) (fun _ _ => true) (fun _ => true) (fun _ => true) 0 select rp bad).
Qed.

(* 'definition order' returns the first reachable host. *)
Theorem c47_definition_order_first : forall select rp bad h rest,
  r_method rp = DefOrder -> good_hosts bad (r_hosts rp) = h :: rest ->
  get_host select rp bad = Ok h.
Proof. intros select rp bad h rest Hm Hg. unfold get_host. now rewrite Hg, Hm. Qed.

(* ---- 2. platform selection from a group ---- *)

(* The selected platform is a member of the group, and when some hosts are
   unreachable it is a member that still has a reachable host: a platform all
   of whose hosts are unreachable is never returned. *)
Theorem c47_group_avoids_dead_platforms :
  forall pmatch gmatch clash jobless local local_name cfg select, chooses select ->
  forall g bad n,
  from_group pmatch gmatch clash jobless local local_name cfg select g bad = Ok n ->
  In n (g_members g) /\
  (bad <> [] ->
   exists rp h, resolve_member pmatch gmatch clash jobless local local_name cfg n = Ok rp /\
                In h (r_hosts rp) /\ ~ In h bad).
Proof. exact from_group_sound. Qed.

(* The no-platforms error is raised exactly when no member remains: the
   group is empty or (with unreachable hosts known) every member resolves and
   none has a reachable host. *)
Theorem c47_no_platforms_error_iff :
  forall pmatch gmatch clash jobless local local_name cfg select g bad,
  from_group pmatch gmatch clash jobless local local_name cfg select g bad = Err ENoPlatforms <->
  (bad = [] /\ g_members g = []) \/
  (bad <> [] /\
   (forall m, In m (g_members g) ->
      exists rp, resolve_member pmatch gmatch clash jobless local local_name cfg m = Ok rp) /\
   (forall m, In m (g_members g) ->
      ~ usable pmatch gmatch clash jobless local local_name cfg bad m)).
Proof. exact from_group_noplatforms. Qed.

(* So while another member has a reachable host, a platform is returned or a
   different error is reported, never NoPlatformsError. *)
Theorem c47_no_platforms_error_only_when_none :
  forall pmatch gmatch clash jobless local local_name cfg select g bad m,
  In m (g_members g) -> usable pmatch gmatch clash jobless local local_name cfg bad m ->
  from_group pmatch gmatch clash jobless local local_name cfg select g bad <> Err ENoPlatforms.
Proof.
  intros pmatch gmatch clash jobless local local_name cfg select g bad m Hm Hu H.
  apply from_group_noplatforms in H. destruct H as [[_ H]|(_ & _ & H)].
  - rewrite H in Hm. destruct Hm.
  - exact (H m Hm Hu).
Qed.

(* ---- 3. a name resolves to the last-defined matching platform ---- *)

(* [last_defined pmatch ps n d]: ps = pre ++ d :: post, d's pattern fully
   matches n and no pattern in post does. *)
Theorem c47_resolves_to_last_defined :
  forall pmatch clash jobless local local_name ps n rp,
  resolve pmatch clash jobless local local_name ps n = Ok rp ->
  (exists d, last_defined pmatch ps n d /\ rp = fill d n) \/
  ((forall q, In q ps -> pmatch (d_pat q) n = false) /\ jobless n = true /\ r_name rp = local_name).
Proof.
  intros pmatch clash jobless local local_name ps n rp H.
  exact (proj2 (resolve_ok pmatch clash jobless local local_name ps n rp H)).
Qed.

Theorem c47_last_defined_is_returned :
  forall pmatch clash jobless local local_name ps n d,
  (forall q, In q ps -> clash (d_pat q) = false) -> last_defined pmatch ps n d ->
  resolve pmatch clash jobless local local_name ps n = Ok (fill d n).
Proof. exact resolve_last_defined. Qed.

Theorem c47_last_defined_unique : forall pmatch ps n d d',
  last_defined pmatch ps n d -> last_defined pmatch ps n d' -> d = d'.
Proof. exact last_defined_unique. Qed.

(* ---- 4. the comparison with the implementation is sound ---- *)

(* Whatever the choice function, the model's answers lie in the allowed-answer
   sets against which the implementation's answers are checked. *)
Theorem c47_allowed_answers_cover_every_choice :
  forall pmatch gmatch clash jobless local local_name cfg select, chooses select ->
  (forall n bad,
     In (from_name pmatch gmatch clash jobless local local_name cfg select n bad)
        (from_name_allowed pmatch gmatch clash jobless local local_name cfg n bad)) /\
  (forall rp bad, host_ok (host_allowed rp bad) (get_host select rp bad) = true).
Proof.
  intros pmatch gmatch clash jobless local local_name cfg select Hs. split.
  - exact (from_name_allowed_ok pmatch gmatch clash jobless local local_name cfg select Hs).
  - exact (get_host_allowed select Hs).
Qed.

(* ---- non-vacuity ----
   names: 0 localhost, 1 hpc1, 2 hpc2, 3 h1, 4 h2, 5 h3, 6 grp
   platforms (definition order): localhost | hpc\d (hosts h1 h2) | hpc1 (hosts h3)
   group grp = hpc1, hpc2 (definition order) *)
Definition ex_pm (p : pat) (n : name) : bool :=
  match p, n with 0, 0 | 1, 1 | 1, 2 | 2, 1 => true | _, _ => false end.
Definition ex_gm (p : pat) (n : name) : bool := Nat.eqb p 0 && Nat.eqb n 6.
Definition ex_cfg : config :=
  {| platforms := [ {| d_pat := 0; d_hosts := [0]; d_method := DefOrder |};
                    {| d_pat := 1; d_hosts := [3; 4]; d_method := Random |};
                    {| d_pat := 2; d_hosts := [5]; d_method := DefOrder |} ];
     groups := [ {| g_pat := 0; g_members := [1; 2]; g_method := DefOrder |} ] |}.
Definition ex_from_name := from_name ex_pm ex_gm (fun _ => false) (fun _ => false) 0 0 ex_cfg (hd 0).

Example c47_chooses_hd : chooses (hd 0).
Proof. intros [|x l] H; [congruence|now left]. Qed.
(* hpc1 matches both hpc\d and hpc1: the last-defined one (hosts h3) wins *)
Example c47_ex_last_defined :
  ex_from_name 1 [] = Ok {| r_name := 1; r_hosts := [5]; r_method := DefOrder |}.
Proof. reflexivity. Qed.
(* with h3 unreachable the group skips hpc1 and returns hpc2 *)
Example c47_ex_group_skips :
  ex_from_name 6 [5] = Ok {| r_name := 2; r_hosts := [3; 4]; r_method := Random |}.
Proof. reflexivity. Qed.
Example c47_ex_group_none : ex_from_name 6 [3; 4; 5] = Err ENoPlatforms.
Proof. reflexivity. Qed.
Example c47_ex_host :
  get_host (hd 0) {| r_name := 2; r_hosts := [3; 4]; r_method := Random |} [3] = Ok 4.
Proof. reflexivity. Qed.
Example c47_ex_no_host :
  get_host (hd 0) {| r_name := 2; r_hosts := [3; 4]; r_method := Random |} [4; 3] = Err ENoHosts.
Proof. reflexivity. Qed.
