(* Props/C05.v — C05 "Internal queue limits are never exceeded" (component level).
   Model: Model/Queues.v (hand model of task_queues/independent.py), tied to the
   real IndepQueueManager by the "queues" correspondence stream.
   Property text: each task name belongs to exactly one internal queue (the last
   queue that lists it, else default); a queue never releases a task while the
   number of its active members is at its limit; queued tasks are released in the
   order they were queued, skipping held ones. *)
From Coq Require Import List Bool Arith Lia Permutation.
From Cylc Require Import Base.Util Model.Queues Proofs.QueuesProofs.
Import ListNotations.

(* ---- 1. the partition ------------------------------------------------ *)
(* [owner inq t] is the specification: the last non-default queue of the
   (family-expanded) config that lists t, else default if t is a task name.
   After _make_indep, with `default` the first key and queue names distinct,
   t is a member of queue q  iff  q is its owner: exactly one queue per name. *)
Theorem c05_partition : forall d rest,
  let in_queues := (q_default, d) :: rest in
  NoDup (map fst in_queues) ->
  Forall (fun e => NoDup (qc_members (snd e))) rest ->
  forall q t, In t (mems (make_indep in_queues) q) <-> owner in_queues t = Some q.
Proof. exact make_indep_partition. Qed.

(* the same for what IndepQueueManager.__init__ really computes (default's
   members := all task names, families expanded, then _make_indep) *)
Theorem c05_partition_constructor : forall all d c0 rest,
  NoDup (map fst ((q_default, c0) :: rest)) ->
  init_config all d ((q_default, c0) :: rest) = Some (make_indep (prepared all d c0 rest)) /\
  forall q t, In t (mems (make_indep (prepared all d c0 rest)) q)
              <-> owner (prepared all d c0 rest) t = Some q.
Proof.
  intros all d c0 rest H. split; [now apply init_config_default_first|now apply init_config_partition].
Qed.

(* every task name (member of default's input) is in exactly one queue *)
Theorem c05_exactly_one_queue : forall d rest,
  let in_queues := (q_default, d) :: rest in
  NoDup (map fst in_queues) ->
  Forall (fun e => NoDup (qc_members (snd e))) rest ->
  forall t, In t (qc_members d) ->
  exists q, In t (mems (make_indep in_queues) q) /\
            forall q', In t (mems (make_indep in_queues) q') -> q' = q.
Proof. exact make_indep_exactly_one. Qed.

(* `default` first is a genuine precondition (established by the parsec spec /
   WorkflowConfig, not by this class): with default last, name 5 ends up in both
   queues.  A precondition of the API, not a finding. *)
Theorem c05_partition_refuted_without_default_first :
  exists in_queues t, NoDup (map fst in_queues) /\
    In t (mems (make_indep in_queues) 1) /\ In t (mems (make_indep in_queues) q_default).
Proof.
  exists [(1, {| qc_limit := 1; qc_members := [5] |}); (q_default, {| qc_limit := 0; qc_members := [5; 6] |})], 5.
  split; [repeat constructor; cbn; intuition discriminate|]. vm_compute. tauto.
Qed.

(* ---- 2. the limit ---------------------------------------------------- *)
(* one queue: the loop releases at most (limit - active) tasks *)
Theorem c05_limit_one_queue : forall front held q a rel q' a',
  release_queue front held q a = (rel, q', a') ->
  q_limit q <> 0 ->
  n_active (q_members q) a + length rel <= Nat.max (q_limit q) (n_active (q_members q) a).
Proof.
  intros front held q a rel q' a' E Hl. unfold release_queue in E.
  destruct (pop_loop (q_limit q) (n_active (q_members q) a) held (q_deque q)) as [[r h] rest] eqn:Ep.
  injection E as <- _ _. eapply pop_loop_limit; eauto.
Qed.

(* the manager: after release_tasks the active count of every limited queue —
   now including the tasks just released, by ANY queue, through the shared
   counter — is at most its limit (or what it already was, if manual triggering
   had taken it above the limit) *)
Theorem c05_limit : forall front held qs a rel qs' a',
  release_all front held qs a = (rel, qs', a') ->
  wf qs ->
  forall q, In q qs -> q_limit q <> 0 ->
  n_active (q_members q) a' <= Nat.max (q_limit q) (n_active (q_members q) a).
Proof. exact release_all_limit. Qed.

(* well-formedness (distinct queue names, duplicate-free and pairwise disjoint
   memberships, every queued task sits in the queue owning its name) is an
   invariant of every op, hence of every history from the constructor's state *)
Theorem c05_invariant_step : forall front st o,
  wf (st_queues st) -> op_ok (st_queues st) o -> wf (st_queues (fst (step front st o))).
Proof. exact step_wf. Qed.

Theorem c05_invariant_all_histories : forall all d c0 rest front ops,
  NoDup (map fst ((q_default, c0) :: rest)) ->
  let st0 := init_state (make_indep (prepared all d c0 rest)) in
  ops_ok front st0 ops -> wf (st_queues (run front st0 ops)).
Proof. exact init_state_reachable_wf. Qed.

(* ... so the limit holds at every release of every history *)
Theorem c05_limit_all_histories : forall all d c0 rest front ops a rel qs' a',
  NoDup (map fst ((q_default, c0) :: rest)) ->
  let st0 := init_state (make_indep (prepared all d c0 rest)) in
  ops_ok front st0 ops ->
  let st := run front st0 ops in
  release_all front (st_held st) (st_queues st) a = (rel, qs', a') ->
  forall q, In q (st_queues st) -> q_limit q <> 0 ->
  n_active (q_members q) a' <= Nat.max (q_limit q) (n_active (q_members q) a).
Proof.
  intros all d c0 rest front ops a rel qs' a' Hnd st0 Hops st E.
  eapply release_all_limit; [exact E|]. now apply init_state_reachable_wf.
Qed.

(* a queued task sits in one deque only *)
Theorem c05_queued_in_one_queue : forall qs, wf qs -> forall q1 q2 t1 t2,
  In q1 qs -> In q2 qs -> In t1 (q_deque q1) -> In t2 (q_deque q2) -> t_name t1 = t_name t2 ->
  q_name q1 = q_name q2.
Proof. exact wf_unique_queue. Qed.

(* ---- 3. FIFO --------------------------------------------------------- *)
(* release pops a prefix of the queue; the released tasks are the non-held tasks
   of that prefix in queued order = the first (limit - active) non-held tasks
   (all of them for an unlimited queue); it stops early only at the limit; held
   tasks that were passed over go back (relative order among them kept; where
   they go back — front = fixed code, back = pre-fix code — is the [front] flag) *)
Theorem c05_fifo : forall front held q a rel q' a',
  release_queue front held q a = (rel, q', a') ->
  let n := n_active (q_members q) a in
  exists popped rest,
    q_deque q = popped ++ rest
    /\ rel = filter (nonheld held) popped
    /\ q_deque q' = requeue front (filter (is_held held) popped) rest
    /\ (rest = [] \/ (q_limit q <> 0 /\ q_limit q <= n + length rel))
    /\ rel = (if Nat.eqb (q_limit q) 0 then filter (nonheld held) (q_deque q)
              else firstn (q_limit q - n) (filter (nonheld held) (q_deque q))).
Proof. exact release_queue_fifo. Qed.

(* nothing is lost or duplicated by a release *)
Theorem c05_release_conserves : forall front held q a rel q' a',
  release_queue front held q a = (rel, q', a') -> deque_ok q ->
  Permutation (q_deque q) (rel ++ q_deque q').
Proof.
  intros front held q a rel q' a' E Hok.
  now destruct (release_queue_spec _ _ _ _ _ _ _ E Hok) as (_ & _ & _ & _ & _ & _ & H).
Qed.

(* The full order statement of the property: the tasks left in the queue keep
   their queued order (so that a later release again takes the oldest first). *)
Definition c05_order_preserved_stmt (front : bool) : Prop :=
  forall held q a rel q' a',
    release_queue front held q a = (rel, q', a') -> sublist (q_deque q') (q_deque q).

(* It holds for the code as it is now (fix ffd4e73: held tasks that were passed
   over go back to the oldest end in their original order; the model's
   [held_requeue_front] = true is what the correspondence stream validates). *)
Theorem c05_order_preserved : c05_order_preserved_stmt held_requeue_front.
Proof. exact release_queue_order_fixed. Qed.

(* PRE-FIX CODE ONLY (parameter value false = `for itask in held:
   self.deque.appendleft(itask)`, before ffd4e73): the statement was false —
   limit 1, queue A(held) B C, nothing active: B is released and the queue
   became C A.  Kept as the record of the fixed finding; the witness stays in the
   stream's corpus as a regression case. *)
Theorem c05_order_preserved_refuted_for_prefix_code : ~ c05_order_preserved_stmt false.
Proof.
  intros H.
  specialize (H [0] {| q_name := 0; q_limit := 1; q_members := [0; 1; 2];
                       q_deque := [ {| t_id := 0; t_name := 0 |}; {| t_id := 1; t_name := 1 |};
                                    {| t_id := 2; t_name := 2 |} ] |} [] _ _ _ eq_refl).
  vm_compute in H.
  repeat match goal with
         | H : sublist _ _ |- _ => inversion H; subst; clear H
         end.
Qed.

(* ---- non-vacuity ------------------------------------------------------ *)
(* the unit test's shape: foo (=3) listed by q1 and q2 ends up in q2 only *)
Example c05_ex_last_wins :
  init_config [0; 1; 2; 3] [(100, [0; 1]); (101, [2])]
    [(0, {| qc_limit := 2; qc_members := [] |});
     (1, {| qc_limit := 1; qc_members := [100; 3] |});
     (2, {| qc_limit := 3; qc_members := [101; 3] |})]
  = Some [(0, {| qc_limit := 2; qc_members := [] |});
          (1, {| qc_limit := 1; qc_members := [0; 1] |});
          (2, {| qc_limit := 3; qc_members := [2; 3] |})].
Proof. vm_compute. reflexivity. Qed.

(* a release at a state reached by a history: limit 2, one active, three queued
   (one held): exactly one is released *)
Example c05_ex_release :
  let st := run held_requeue_front (init_state [(0, {| qc_limit := 2; qc_members := [0; 1; 2] |})])
              [OSetHeld 10 true; OPush {| t_id := 10; t_name := 0 |};
               OPush {| t_id := 11; t_name := 1 |}; OPush {| t_id := 12; t_name := 2 |}] in
  snd (step held_requeue_front st (ORelease [(0, 1)])) = ObsReleased [11] [(0, 1); (1, 1)].
Proof. vm_compute. reflexivity. Qed.

(* ---------- scheduler level: the pool automaton (Model/Pool.v) ----------
   (qualified names: Pool.v and Queues.v share some identifiers) *)
From Cylc Require Model.Pool Proofs.PoolProofs Proofs.PoolTheorems.

(* Whenever the automaton accepts a queue release in a real run: no released
   task is held (unless manually triggered), and for every limited queue that
   gets a newly released non-triggered member, the members already active or
   released-awaiting-preparation plus the new ones stay within the limit. *)
Theorem c05_pool_release_respects_queue_limits : forall c s l s',
  Pool.step c s (Pool.ERelease l) = Pool.Ok s' ->
  (forall t, In t l -> exists p, Pool.find_task (Pool.pool s) t = Some p /\
                                 (Pool.p_held p = false \/ Pool.p_manual p = true)) /\
  forall q, (q < length (Pool.c_qlimits c))%nat -> Pool.qlimit c q <> 0%nat ->
    PoolTheorems.count_in_queue c q (PoolTheorems.newly_released s l) <> 0%nat ->
    (Pool.active_in c s q + PoolTheorems.count_in_queue c q (PoolTheorems.newly_released s l) <= Pool.qlimit c q)%nat.
Proof. exact PoolTheorems.release_respects_queue_limits. Qed.

(* A task that becomes queued is not held (unless manually triggered). *)
Theorem c05_pool_held_not_queued : forall c s t st h s' p inp r,
  Pool.step c s (Pool.EState t st h true r) = Pool.Ok s' -> Pool.lookup s t = Some (p, inp) ->
  Pool.p_queued p = false -> Pool.p_manual p = false -> h = false.
Proof. exact PoolTheorems.held_not_queued. Qed.
