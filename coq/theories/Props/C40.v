(* Props/C40.v — C40 "Workflow-state queries match exactly what was recorded".
   Model: Model/LikeGlob.v (CylcWorkflowDBChecker.workflow_state_query,
   _selector_in_outputs, check_polling_config, and the SQLite LIKE / GLOB / ==
   operators), tied to cylc/flow/dbstatecheck.py and to the sqlite3 library by
   the two correspondence streams of vp/props/c40.py.

   [code_query]  = what the code computes (SQL GLOB on the escaped pattern when it
                   has a '*', == otherwise, status / output selector, flow filter)
   [spec_query]  = what the property text says ('*' any sequence, every other
                   character only itself, case-sensitively).
   Both return None for the InputError of check_polling_config and otherwise the
   ascending indices of the returned rows. *)
From Coq Require Import List ZArith Bool Arith Lia.
From Cylc Require Import Base.Util Model.LikeGlob Proofs.LikeGlobProofs.
Import ListNotations.
Open Scope Z_scope.

(* The property, in full: for every table and every query whose task / cycle
   pattern is not the empty string (an empty string is the caller's "not given":
   `if task:`), the code returns exactly the recorded instances that match, where
   '*' matches any sequence and every other character only itself, case
   sensitively.  No restriction on '_', '%', case or any other character.
   (Proved since fix 5844984: GLOB on the escaped pattern.) *)
Theorem c40_query_exact : forall q rows,
  pat_nonempty (q_task q) -> pat_nonempty (q_cycle q) ->
  code_query q rows = spec_query q rows.
Proof. exact query_exact. Qed.

(* At the level of one name: SQLite GLOB on the pattern with '?' and '[' wrapped
   as one-character sets is exact matching for every pattern and name (this also
   shows the GLOB tokenizer never runs out of fuel on escaped patterns); and a
   pattern without '*' (compared with ==) matches only itself. *)
Theorem c40_fixed_glob_exact : forall p s,
  sqlite_glob (glob_escape p) s = spec_glob p s.
Proof. exact glob_escape_exact. Qed.

Theorem c40_no_star_exact : forall p s,
  has_star p = false -> (spec_glob p s = true <-> p = s).
Proof. intros p s H. rewrite spec_glob_nostar by exact H. apply str_eqb_eq. Qed.

(* ---- regression facts about the PRE-FIX code (LIKE after '*' -> '%') ----
   [legacy_code_query] is the query as it was before 5844984.  These two
   theorems document the defect that was fixed and why the witnesses stay in
   the corpus; they say nothing about the current code.
   "a_b*"  "axb"  "A_B1"  "a_b1" *)
Definition w_pat : str := [97; 95; 98; 42].
Definition w_axb : str := [97; 120; 98].
Definition w_A_B1 : str := [65; 95; 66; 49].
Definition w_a_b1 : str := [97; 95; 98; 49].
Definition w_row (n : str) : row :=
  {| r_name := n; r_cycle := [49]; r_flows := [1]; r_status := s_succeeded;
     r_is_dict := true; r_outputs := [] |}.
Definition w_query : query :=
  {| q_task := Some w_pat; q_cycle := None; q_sel := Some s_succeeded;
     q_trigger := false; q_message := false; q_flow := None |}.
Definition w_rows := [w_row w_axb; w_row w_A_B1; w_row w_a_b1].

(* pre-fix: task "a_b*" returned "axb" ('_' as wildcard) and "A_B1" (case
   ignored) as well as "a_b1"; the current code returns only "a_b1". *)
Theorem c40_legacy_like_was_inexact :
  legacy_code_query w_query w_rows = Some [0; 1; 2]%nat /\
  spec_query w_query w_rows = Some [2]%nat /\
  code_query w_query w_rows = Some [2]%nat.
Proof. repeat split; vm_compute; reflexivity. Qed.

(* pre-fix: LIKE on the translated pattern was exact only on "safe" patterns *)
Theorem c40_legacy_like_exact_when_safe : forall p s,
  safe p s -> sqlite_like (translate p) s = spec_glob p s.
Proof. exact like_translate_spec. Qed.

(* The answer contains each recorded instance at most once, and instance i is
   in it exactly when row i passes the code's row filter. *)
Theorem c40_result_characterised : forall q rows l,
  code_query q rows = Some l ->
  NoDup l /\
  forall i, In i l <-> exists r, nth_error rows i = Some r /\ row_ok code_match q r = true.
Proof. exact (query_result code_match). Qed.

(* Flow filtering keeps only, and all, instances in the requested flow: with
   flow f requested, instance i is returned iff f is one of its recorded flow
   numbers and it is selected by the same query without flow filter.
   (Holds for the code's matcher and for the spec matcher alike.) *)
Theorem c40_flow_filter : forall m q rows f l,
  q_flow q = Some f -> run_query_with m q rows = Some l ->
  forall i, In i l <->
    exists r, nth_error rows i = Some r /\ In f (r_flows r) /\ row_ok m (no_flow q) r = true.
Proof. exact flow_filter. Qed.

(* _selector_in_outputs: the selector is among the outputs, or it is
   "finished"/"finish" and "succeeded" or "failed" is. *)
Theorem c40_selector_in_outputs : forall x outs,
  selector_in_outputs x outs = true <->
  In x outs \/ ((x = s_finished \/ x = s_finish) /\ (In s_succeeded outs \/ In s_failed outs)).
Proof. exact selector_in_outputs_spec. Qed.

(* ---------- non-vacuity ---------- *)
(* a query with metacharacters in pattern and names: task "a_%*", cycle "1", flow 1
   against "a_%1", "ax%1", "A_%1", "a_%" : only the first and the last match *)
Definition e_rows := [w_row [97;95;37;49]; w_row [97;120;37;49]; w_row [65;95;37;49]; w_row [97;95;37]].
Definition e_query : query :=
  {| q_task := Some [97; 95; 37; 42]; q_cycle := Some [49]; q_sel := Some s_succeeded;
     q_trigger := false; q_message := false; q_flow := Some 1 |}.
Example c40_exact_example :
  pat_nonempty (q_task e_query) /\ pat_nonempty (q_cycle e_query) /\
  code_query e_query e_rows = Some [0; 3]%nat /\
  legacy_code_query e_query e_rows = Some [0; 1; 2; 3]%nat.
Proof. repeat split; try discriminate; vm_compute; reflexivity. Qed.

(* the LIKE model really treats '_', '%' as wildcards and ignores case *)
Example c40_like_underscore : sqlite_like (translate w_pat) w_axb = true /\ spec_glob w_pat w_axb = false.
Proof. vm_compute. auto. Qed.
Example c40_like_case : sqlite_like (translate w_pat) w_A_B1 = true /\ spec_glob w_pat w_A_B1 = false.
Proof. vm_compute. auto. Qed.
