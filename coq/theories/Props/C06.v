(* Props/C06.v — C06 "Held tasks never submit; holds persist and apply to future instances".
   Pool automaton (Model/Pool.v): [to_hold] is the set of instances to hold,
   [hold_pt] the workflow hold point; hold/release commands are events. *)
From Coq Require Import List Bool ZArith.
From Cylc Require Import Base.Util Model.Pool Proofs.PoolProofs Proofs.PoolTheorems Props.C01.
Import ListNotations.
Open Scope Z_scope.

(* A held task never enters job preparation unless manually triggered, is never
   queued while held, and is never released from a queue while held. *)
Theorem c06_held_never_prepared : forall c s t st h q r s' p inp,
  step c s (EState t st h q r) = Ok s' -> lookup s t = Some (p, inp) ->
  st = p_status p \/ p_manual p = true \/
  (lifecycle (p_status p) st /\
   (p_status p = Waiting -> st = Preparing -> p_rel p = true \/ p_manual p = true) /\
   (st = Preparing -> p_held p = true -> p_manual p = true)).
Proof. exact status_change_follows_lifecycle. Qed.

Theorem c06_held_never_queued : forall c s t st h s' p inp r,
  step c s (EState t st h true r) = Ok s' -> lookup s t = Some (p, inp) -> p_queued p = false ->
  p_manual p = false -> h = false.
Proof. exact held_not_queued. Qed.

Theorem c06_held_never_released_from_queue : forall c s l s',
  step c s (ERelease l) = Ok s' ->
  forall t, In t l -> exists p, find_task (pool s) t = Some p /\ (p_held p = false \/ p_manual p = true).
Proof. intros c s l s' H. exact (proj1 (release_respects_queue_limits c s l s' H)). Qed.

(* The held flag changes only on request: set only for an instance in the hold
   set or beyond the hold point, cleared only after it left the hold set. *)
Theorem c06_hold_flag_only_on_request : forall c s t st h q r s' p inp,
  step c s (EState t st h q r) = Ok s' -> lookup s t = Some (p, inp) ->
  (h = true -> p_held p = false -> hold_expected s t = true) /\
  (h = false -> p_held p = true -> mem tid_eqb t (to_hold s) = false).
Proof. exact hold_flag_changes_only_on_request. Qed.

(* Holding an instance that is not yet in the pool takes effect when it spawns. *)
Theorem c06_future_hold_on_spawn : forall c s t fl sat0 held s',
  step c s (ESpawn t fl sat0 held) = Ok s' -> held = hold_expected s t.
Proof. exact spawned_held_iff_requested. Qed.

(* At every accepted tick end (including the first one after a restart) the
   real hold set and hold point equal the abstract ones and every pooled task
   is held exactly when it is in the hold set. *)
Theorem c06_hold_state_agrees : forall c s snap hl hp s',
  step c s (ETickEnd snap hl hp) = Ok s' ->
  same_tids hl (to_hold s) = true /\ hp = hold_pt s /\
  forall p, In p (pool s) -> p_held p = mem tid_eqb (p_id p) (to_hold s).
Proof. exact tick_end_hold_state. Qed.

Example c06_ex_hold_future :
  run C01.ex_cfg [ ECmdHold [C01.b]; ESpawn C01.b [1%nat] [] false ] = Some (1%nat, 105%nat).
Proof. vm_compute. reflexivity. Qed.
