(* Props/C14.v — C14 "Graph parsing is faithful and insensitive to presentation".

   Model: Model/GraphParse.v (parse_graph stage by stage, on tokens) +
   Model/GraphBase.v (_proc_dep_pair, _compute_triggers, _set_triggers,
   _set_output_opt), tied to cylc/flow/graph_parser.py by the C14 correspondence
   stream (every generated AST in 8 renderings + malformed renderings through
   the real GraphParser, compared inside Coq).
   AST, reference semantics and renderers: Model/GraphAst.v.

     graph_asserts g   the optionality assertions written in g
                       (":succeeded" inferred for a plain right-hand node unless
                        its group ends the chain - the end-of-chain rule)
     graph_trigs g     the triggers written in g: (task, expression, suicide?)
     graph_tasks g     the tasks g defines
     state_means st g  the parser state st contains exactly those, nothing else
     wf_graph g        g is well formed and its assertions are consistent
     eoc_safe g        excludes the end-of-chain finding (see below)
     presents g ls     ls is g with every chain cut into lines anywhere,
                       lines in any order, any line repeated
     lays_chain c lay  lay puts the line of chain c on one or more physical
                       lines, broken only next to => & |, with any blanks
                       between tokens, any comments and blank/comment-only
                       lines after each physical line
     render_text pre lys   the text: fillers, then the laid-out lines. *)
From Coq Require Import List Bool Arith String.
From Cylc Require Import Base.Util Gen.FamTables Model.GraphBase Model.GraphExpr Model.FamTrig
  Model.GraphParse Model.GraphAst
  Proofs.GraphSemProofs Proofs.GraphPhysProofs Proofs.GraphParseProofs Proofs.GraphMalformedProofs.
Import ListNotations.

(* MAIN THEOREM (full statement, proved): every presentation of a well-formed
   graph - chains vs pairs, line order, duplicated lines, whitespace, comments,
   blank lines, continuation placement - is accepted, and the resulting
   dependencies / optionality / task set are exactly what the graph says. *)
Theorem c14_parse_render : forall g ls pre lys,
  wf_graph g = true -> eoc_safe g = true ->
  presents g ls -> Forall2 lays_chain ls lys ->
  exists st, parse [] (render_text pre lys) = Ok st /\ state_means st g = true.
Proof. exact parse_render. Qed.

(* Presentation-insensitivity as a corollary: any two presentations of the same
   graph are both accepted and both results mean that graph. *)
Theorem c14_presentation_insensitive : forall g ls1 pre1 lys1 ls2 pre2 lys2,
  wf_graph g = true -> eoc_safe g = true ->
  presents g ls1 -> Forall2 lays_chain ls1 lys1 ->
  presents g ls2 -> Forall2 lays_chain ls2 lys2 ->
  exists st1 st2,
    parse [] (render_text pre1 lys1) = Ok st1 /\ parse [] (render_text pre2 lys2) = Ok st2
    /\ state_means st1 g = true /\ state_means st2 g = true.
Proof.
  intros g ls1 pre1 lys1 ls2 pre2 lys2 Hwf Hs P1 L1 P2 L2.
  destruct (parse_render g ls1 pre1 lys1 Hwf Hs P1 L1) as [st1 [E1 M1]].
  destruct (parse_render g ls2 pre2 lys2 Hwf Hs P2 L2) as [st2 [E2 M2]].
  exists st1, st2. auto.
Qed.

(* The executable renderers (cut flags per chain, then a selection of line
   indices that covers every line) produce presentations. *)
Theorem c14_renderers_present : forall g cuts sel,
  covers sel (List.length (cut_graph g cuts)) = true ->
  presents g (arrange sel (cut_graph g cuts)).
Proof. exact renderers_present. Qed.

(* The two layers separately.  Logical: stages 3-6 on the printed lines. *)
Theorem c14_logical_layer : forall g ls,
  wf_graph g = true -> eoc_safe g = true -> presents g ls ->
  exists st, parse_lines [] (map print_chain ls) = Ok st /\ state_means st g = true.
Proof. exact parse_lines_presents. Qed.

(* Physical: stages 1-2 undo blanks, comments, blank lines and continuation
   breaks of ANY well-shaped logical lines (not only printed chains). *)
Theorem c14_physical_layer : forall pre lys lines,
  Forall2 lays lines lys ->
  bind (phys_lines (render_text pre lys)) (join_lines true []) = Ok lines.
Proof. exact phys_layer. Qed.

(* MALFORMED TEXT IS NOT ACCEPTED.  Whatever the parser (model) accepts has:
   no leading / dangling => & | , no && and no ||, and no pair with an OR on
   the right, a suicide mark on the left, unbalanced parentheses on either
   side, an empty node on the right, or an empty node in a plain AND list on
   the left ([bad_pair]).  Contrapositive: each of these mutation classes is
   rejected (GraphParseError), for every family map. *)
Theorem c14_malformed_rejected : forall fm text st,
  parse fm text = Ok st ->
  exists nb full,
    phys_lines text = Ok nb /\ join_lines true [] nb = Ok full
    /\ starts_cont (hd [] nb) = false
    /\ (nb <> [] -> ends_cont (last nb []) = false)
    /\ (forall l, In l full -> has_double is_and l = false /\ has_double is_or l = false)
    /\ (forall p, In p (lines_pairs (dedup_first toks_eqb [] full)) -> bad_pair p = false).
Proof. exact parse_ok_wellformed. Qed.

Theorem c14_bad_pair_rejected : forall fm eoc st p,
  bad_pair p = true -> proc_pair fm eoc st p = GErr.
Proof. exact proc_pair_bad. Qed.

(* ---------------- findings, refuted in the faithful model ---------------- *)
Local Open Scope string_scope.
Definition nd (n : nat) : node := mkNode n 0 None false.

(* FINDING (chains vs pairs): without [eoc_safe] the theorem is false.
   g = "t0 => t1" + "t2 => t1 => t3": t1 ends one chain and is inside another.
   Written as chains the parser records no t1:succeeded; with the second chain
   cut into pairs it does (and only that form means what is written). *)
Definition g_eoc : graph :=
  [mkChain (LN (nd 0)) [[mkR false (nd 1)]];
   mkChain (LN (nd 2)) [[mkR false (nd 1)]; [mkR false (nd 3)]]].

Theorem c14_chains_vs_pairs_refuted :
  wf_graph g_eoc = true /\ eoc_safe g_eoc = false
  /\ presents g_eoc (arrange [0; 1] (cut_graph g_eoc []))
  /\ presents g_eoc (arrange [0; 1; 2] (cut_graph g_eoc [[]; [true]]))
  /\ outcome_means (parse_lines [] (map print_chain (arrange [0; 1] (cut_graph g_eoc [])))) g_eoc = false
  /\ outcome_means (parse_lines [] (map print_chain (arrange [0; 1; 2] (cut_graph g_eoc [[]; [true]])))) g_eoc = true.
Proof.
  split; [vm_compute; reflexivity|]. split; [vm_compute; reflexivity|].
  split; [apply renderers_present; vm_compute; reflexivity|].
  split; [apply renderers_present; vm_compute; reflexivity|].
  split; vm_compute; reflexivity.
Qed.

(* FINDING (empty node next to the arrow with | or ( ) on the left): [bad_pair]
   cannot include it, because the code accepts "t0 | => t2" (and stores the
   expression "t0:succeeded|"). *)
Theorem c14_empty_operand_conditional_refuted :
  exists st, parse [] [TN (nd 0); TOr; TArrow; TN (nd 2)] = Ok st
             /\ exists t, assoc Nat.eqb 2 (ps_trig st) = Some [t]
                          /\ eval_toks (fun _ => true) (tg_expr t) = None.
Proof. eexists. split; [vm_compute; reflexivity|]. eexists. split; vm_compute; reflexivity. Qed.

(* ---------------- non-vacuity ---------------- *)
(* t0:fail? & t1[-P1] | (t2:finish | t3:x) => t4 & t5:y1? => t6 & !t7
   t8
   t4 & t8 => t9 => t6 *)
Definition ex_g : graph :=
  [mkChain (LOr (LAnd (LN (mkNode 0 0 (Some "fail") true)) (LN (mkNode 1 1 None false)))
                (LPar (LOr (LN (mkNode 2 0 (Some "finish") false)) (LN (mkNode 3 0 (Some "x") false)))))
           [[mkR false (nd 4); mkR false (mkNode 5 0 (Some "y1") true)]; [mkR false (nd 6); mkR true (nd 7)]];
   mkChain (LN (nd 8)) [];
   mkChain (LAnd (LN (nd 4)) (LN (nd 8))) [[mkR false (nd 9)]; [mkR false (nd 6)]]].

Example c14_ex_wf : wf_graph ex_g = true /\ eoc_safe ex_g = true.
Proof. vm_compute. auto. Qed.

(* pairs, shuffled, one line twice; every token followed by a blank, a comment
   on every line, continuation break after the first "=>" of the line when it
   has one, blank and comment-only lines between *)
Definition ex_ls : graph := arrange [3; 1; 0; 2; 4; 1] (cut_graph ex_g [[true; false]; []; [true]]).
Definition ex_lay (c : chain) : layout :=
  match split_on is_arrow (print_chain c) with
  | a :: (b :: _) as rest =>
      [(mkPl [0] (map (fun t => (t, [1])) (a ++ [TArrow])) (Some 2), [mkFi [] (Some 1)]);
       (mkPl [] (map (fun t => (t, [])) (join_toks TArrow rest)) None, [mkFi [3] None])]
  | _ => [(mkPl [0] (map (fun t => (t, [1])) (print_chain c)) (Some 2), [mkFi [] (Some 1); mkFi [3] None])]
  end.

Example c14_ex_hyps :
  covers [3; 1; 0; 2; 4; 1] (List.length (cut_graph ex_g [[true; false]; []; [true]])) = true
  /\ forallb (fun c => layout_ok (print_chain c) (ex_lay c) && negb (is_nil (ex_lay c))) ex_ls = true.
Proof. vm_compute. auto. Qed.

Example c14_ex_parse :
  outcome_means (parse [] (render_text [mkFi [] None] (map ex_lay ex_ls))) ex_g = true.
Proof. vm_compute. reflexivity. Qed.

(* the malformed classes do occur: each of these is rejected *)
Example c14_ex_malformed :
  map (fun t => match parse [] t with GErr => true | _ => false end)
    [ [TN (nd 0); TAnd; TAnd; TN (nd 1); TArrow; TN (nd 2)];          (* a && b => c *)
      [TN (nd 0); TOr; TOr; TN (nd 1); TArrow; TN (nd 2)];            (* a || b => c *)
      [TN (nd 0); TArrow; TN (nd 1); TArrow];                         (* dangling *)
      [TArrow; TN (nd 0); TArrow; TN (nd 1)];                         (* leading *)
      [TN (nd 0); TArrow; TN (nd 1); TOr; TN (nd 2)];                 (* OR on the right *)
      [TBang; TN (nd 0); TArrow; TN (nd 1)];                          (* suicide on the left *)
      [TLp; TN (nd 0); TArrow; TN (nd 1)];                            (* unbalanced ( *)
      [TN (nd 0); TArrow; TArrow; TN (nd 1)];                         (* empty node *)
      [TN (nd 0); TAnd; TArrow; TN (nd 1)];                           (* a & => b *)
      [TN (nd 0); TWs 0; TN (nd 1); TArrow; TN (nd 2)] ]              (* a b => c *)
  = [true; true; true; true; true; true; true; true; true; true].
Proof. vm_compute. reflexivity. Qed.
