(* placeholder *)
From Coq Require Import List Bool Arith String.
From Cylc Require Import Base.Util Gen.FamTables Model.GraphBase Model.GraphParse Model.GraphAst.
Import ListNotations.
Theorem c14_placeholder : True. Proof. exact I. Qed.
