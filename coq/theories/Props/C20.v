(* Props/C20.v — C20 "Crash-restart neither loses nor duplicates work".
   In the pool automaton a crash is  ECrash ; ERestore v1 ... vn ; EAdopt ... ; ERestartDone :
   the process is gone, and what the new process reloads is whatever was last
   committed -- possibly an EARLIER state of each task.  The automaton accepts
   any reloaded task that is consistent with the run so far, forgets the
   submissions the database does not know about, and carries on. *)
From Coq Require Import List Bool ZArith Lia.
From Cylc Require Import Base.Util Model.Pool Proofs.PoolProofs Proofs.PoolTheorems Props.C01.
Import ListNotations.
Open Scope Z_scope.

(* What may come back after a crash: only a graph instance within bounds, not
   already pooled, whose satisfied prerequisites are outputs really completed in
   the run, whose outputs it really completed; the submission log is cut back to
   the reloaded submit number. *)
Theorem c20_reloaded_state_is_consistent : forall c s v s',
  crash_mode s = true -> step c s (ERestore v) = Ok s' ->
  exists i, find_inst (c_insts c) (v_id v) = Some i /\
    c_icp c <= fst (v_id v) <= c_fcp c /\
    (forall k, In k (v_sat v) -> In k (done s)) /\
    (forall o, In o (v_outs v) -> In (v_id v, o) (done s)) /\
    ~ In (v_id v) (map p_id (pool s)) /\
    (forall x, In x (subs s') -> In x (subs s) /\ (fst x = v_id v -> (snd x <= v_sn v)%nat)).
Proof. exact crash_restore_is_consistent. Qed.

(* The safety invariant (no duplicate proxies, pooled tasks are graph
   instances in bounds, satisfied prerequisites are really completed outputs,
   tasks beyond waiting have true prerequisites, distinct submissions in the
   scheduler's own record) holds in every reachable state, across any number of
   crashes and restarts at any point of any trace. *)
Theorem c20_invariant_across_crashes : forall c tr s,
  exec c (init_state c) tr = Some s -> Inv c s.
Proof. exact reachable_Inv. Qed.

(* Hence, also after crashes, a submission is accepted only with every
   prerequisite true over outputs really completed in the run: no instance
   runs that the graph does not imply. *)
Theorem c20_no_unjustified_submission : forall c tr1 tr2 t sn sf,
  exec c (init_state c) (tr1 ++ ESubmit t sn :: tr2) = Some sf ->
  exists s1 p i,
    exec c (init_state c) tr1 = Some s1 /\
    find_task (pool s1) t = Some p /\ find_inst (c_insts c) t = Some i /\
    valid_id c t /\ p_status p = Preparing /\
    (p_manual p = true \/
     forall e, In e (i_pre i) ->
       bx_holds (fun k => emitted tr1 k \/ In k (p_forced p)) e).
Proof. exact submit_only_when_satisfied. Qed.

(* "No job is launched twice under the same submit number" is FALSE of the
   code, hence of the faithful automaton: the scheduler's record of a launch is
   lost if it dies before the commit.  Witness: a is prepared and its job
   (submit number 1) launched; crash; the database gives a back as waiting with
   submit number 0; it is prepared and launched again as submit number 1. *)
Definition is_submit (t : tid) (sn : nat) (e : event) : bool :=
  match e with ESubmit t' n' => tid_eqb t t' && Nat.eqb sn n' | _ => false end.
Definition c20_same_submit_once_statement : Prop :=
  forall c tr s t sn, exec c (init_state c) tr = Some s ->
    (length (filter (is_submit t sn) tr) <= 1)%nat.

Definition c20_witness : list event :=
  [ ESpawn C01.a [1%nat] [] false; EAdd C01.a; ELimit (Some 1);
    EState C01.a Waiting false false false; EState C01.a Waiting false true false;
    EReleaseBegin; EState C01.a Waiting false false false; ERelease [C01.a];
    EState C01.a Preparing false false false; ESubmit C01.a 1%nat;
    ECrash;
    ERestore {| v_id := C01.a; v_status := Waiting; v_held := false; v_queued := false; v_runahead := true;
                v_flows := [1%nat]; v_sat := []; v_outs := []; v_sn := 0%nat; v_fsat := [] |};
    EAdopt [] None 1 None; ERestartDone;
    ELimit (Some 1); EState C01.a Waiting false false false; EState C01.a Waiting false true false;
    EReleaseBegin; EState C01.a Waiting false false false; ERelease [C01.a];
    EState C01.a Preparing false false false; ESubmit C01.a 1%nat ].

Theorem c20_same_submit_once_refuted : ~ c20_same_submit_once_statement.
Proof.
  intros H.
  assert (Hr : run C01.ex_cfg c20_witness = None) by (vm_compute; reflexivity).
  apply run_accepts in Hr. destruct Hr as [s Hs].
  specialize (H C01.ex_cfg c20_witness s C01.a 1%nat Hs). vm_compute in H. lia.
Qed.

(* Between crashes the scheduler's own submission record never repeats a
   (task, submit number) pair. *)
Theorem c20_submissions_distinct_in_record : forall c tr s,
  exec c (init_state c) tr = Some s -> NoDup (subs s).
Proof. exact submissions_distinct. Qed.

(* "Loses no work" (the restarted run does what the uninterrupted run does) is
   decided per scenario by the oracle, which executes both runs; the three
   crash windows in which the real scheduler does lose or duplicate work are
   listed as known findings (double launch, acknowledged-but-uncommitted custom
   output, crash before the first commit). *)
