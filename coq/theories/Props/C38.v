(* Props/C38.v — C38 "`cylc clean` deletes only inside the workflow".
   Property theorems only; proofs are in Proofs/FsProofs.v.
   Model/Fs.v: a filesystem is a flat map from PHYSICAL paths to file / dir /
   symlink(target); logical paths are resolved by a kernel-style walk.  The
   model covers parse_rm_dirs (with normpath), get_symlink_dirs,
   glob_in_run_dir's filter, _clean_using_glob, remove_dir_or_file,
   remove_dir_and_target, the wholesale branch and the tidy-up of clean().
   `glob.iglob`+`sorted` is an oracle: the matches are data ([raw]) about which
   the theorems only assume that each is a lexical descendant of the run dir
   ([lexical run x]: x = run ++ rel) — checked on every recorded match by the
   correspondence stream, which compares the model's resulting tree with the
   real clean()'s on generated scratch trees.

   Reading of "deleted": an entry of the initial tree [s0] that is no longer
   in the resulting tree.  Because the tree is keyed by physical paths,
   "inside" is physical containment — a symlink's target is elsewhere, so
   "never follows other symlinks" is part of containment. *)
From Coq Require Import List Bool Arith.
From Cylc Require Import Base.Util Model.Fs Proofs.FsProofs.
Import ListNotations.

(* 1. Accepted --rm patterns contain no '..' (nor '.', nor empty) component:
   only names, at least one.  [cs] is part.split('/') of a stripped part. *)
Theorem c38_normpath_no_dotdot : forall cs n tr,
  parse_part cs = PAccept n tr -> n <> [] /\ forall c, In c n -> exists k, c = CName k.
Proof. exact parse_accept_names. Qed.

(* ... and the raw part, read lexically from the run dir ('..' pops, names
   push), never climbs above the run dir and ends exactly at those names:
   an accepted pattern denotes a strict lexical descendant of the run dir. *)
Theorem c38_accepted_stays_below : forall cs n tr,
  parse_part cs = PAccept n tr -> lex cs [] = Some (rev n).
Proof. exact parse_accept_lexical. Qed.

(* 2. Containment.  For any tree, any run dir (not the root), any result of
   get_symlink_dirs, any --rm patterns with lexical glob results (or a
   wholesale clean): every entry that the core of clean() — everything before
   the final tidy-up — removes lies at or below the run dir entry, the run
   dir's real location, or the real target of a standard symlink dir
   (evaluated on the initial tree).  In particular nothing is ever removed
   through a non-standard symlink. *)
Theorem c38_contained : forall s0 run id pairs globs s1 e,
  run <> [] ->
  get_symlink_dirs s0 run id = ROk pairs ->
  globs_lexical run globs ->
  clean_core s0 run (map fst pairs) globs = (s1, e) ->
  forall ent, In ent s0 -> ~ In ent s1 ->
  inside0 s0 run (map (fun d => run ++ d) (map fst pairs)) (fst ent).
Proof. exact clean_core_contained. Qed.

(* clean() is that core followed by the tidy-up; and when a standard symlink
   dir is invalid it refuses without touching anything. *)
Theorem c38_clean_is_core_then_tidy : forall s cr id globs pairs,
  get_symlink_dirs s (cr ++ id) id = ROk pairs ->
  clean s cr id globs =
  match clean_core s (cr ++ id) (map fst pairs) globs with
  | (s1, Some e) => (s1, Some e)
  | (s1, None) => tidy s1 (cr ++ id) id pairs
  end.
Proof. exact clean_unfold. Qed.

Theorem c38_refusal_deletes_nothing : forall s cr id globs e,
  get_symlink_dirs s (cr ++ id) id = RErr e -> clean s cr id globs = (s, Some e).
Proof. exact clean_refuses. Qed.

(* 3. Non-standard symlinks are unlinked, never followed: remove_dir_or_file
   on a symlink removes exactly the link's own directory entry (and by
   c38_contained nothing below its target, unless that is inside anyway). *)
Theorem c38_symlink_unlinked : forall s p,
  is_link s p = true -> rm_dir_or_file s p = ROk (opt_list (phys s p)).
Proof. intros s p H. unfold rm_dir_or_file. rewrite H. reflexivity. Qed.

(* 4. Completeness.  (a) The removal loop cannot fail and leaves none of its
   paths in existence — this is the statement that was false before the fix
   of `_clean_using_glob` (a match below an already removed match raised
   FileNotFoundError and the later matches survived); witness kept below. *)
Theorem c38_removal_loop_total : forall ps s, (forall p, In p ps -> p <> []) ->
  exists s', rm_each s ps = (s', None) /\ forall p, In p ps -> lexists s' p = false.
Proof.
  intros ps s H. destruct (rm_each_complete ps s H) as (s' & E & _ & G).
  exists s'. split; [exact E|]. intros p Hp. apply gone_now. apply G. exact Hp.
Qed.

(* (b) For one pattern: unless remove_dir_and_target itself raises on a
   standard symlink dir, every path that glob_in_run_dir keeps no longer
   exists afterwards. *)
Theorem c38_complete_kept : forall s0 run id pairs raw s',
  run <> [] ->
  get_symlink_dirs s0 run id = ROk pairs ->
  (forall x, In x raw -> lexical run x) ->
  clean_using_glob s0 run (map fst pairs) raw = (s', None) ->
  forall p, In p (glob_in_run_dir s0 run (map (fun d => run ++ d) (map fst pairs)) raw) ->
  lexists s' p = false.
Proof. exact clean_using_glob_kept_gone. Qed.

(* (c) What the filter drops: every glob match is either below a non-standard
   symlink (not to be followed), or kept, or below a kept path. *)
Theorem c38_filter_covers : forall s run stds raw rel,
  In (run ++ rel) raw ->
  blocked s run stds rel \/ covered run (glob_filter s run stds raw raw [] []) rel.
Proof. exact filter_covers. Qed.

(* The full completeness statement of the property text, kept visible.  What
   (a)-(c) leave open: that a match lying below a kept, removed path no longer
   exists needs well-formedness of the tree (no entry below a missing one),
   which the flat model does not impose; and the tidy-up is not covered by
   theorems.  Both are covered by the correspondence run and the oracle. *)
Definition c38_complete_full : Prop :=
  forall s0 run id pairs raw s',
    run <> [] -> get_symlink_dirs s0 run id = ROk pairs ->
    (forall x, In x raw -> lexical run x) ->
    clean_using_glob s0 run (map fst pairs) raw = (s', None) ->
    forall rel, In (run ++ rel) raw ->
      blocked s0 run (map (fun d => run ++ d) (map fst pairs)) rel \/ lexists s' (run ++ rel) = false.

(* ---- non-vacuity / regression ---- *)
(* the input of the fixed defect now completes: cat (with cat/b/cow) and
   zed/cup are gone, the standard symlink dir log and its target stay *)
Example c38_ex_fixed_defect :
  clean witness_fs [0] [8] (Some witness_globs) =
  ([ ([0], KD); ([0;8], KD); ([0;8;1], KL [14;0;8;1]); ([0;8;12], KD);
     ([14], KD); ([14;0], KD); ([14;0;8], KD); ([14;0;8;1], KD) ], None).
Proof. exact witness_run. Qed.

(* a non-standard symlink to an outside dir (20 -> /30, sentinel /30/31):
   `--rm out` unlinks it, the target and its content stay *)
Example c38_ex_symlink_not_followed :
  clean [ ([0], KD); ([0;8], KD); ([0;8;20], KL [30]); ([30], KD); ([30;31], KF) ]
        [0] [8] (Some [[ [0;8;20] ]])
  = ([ ([0], KD); ([0;8], KD); ([30], KD); ([30;31], KF) ], None).
Proof. vm_compute. reflexivity. Qed.

(* parse_rm_dirs: 'a/../..' and '*/../..' are rejected, 'a/./b//' accepted as a/b/ *)
Example c38_ex_parse :
  parse_part [CName 0; CPar; CPar] = PAbove /\
  parse_part [CName 0; CCur; CName 1; CEmpty; CEmpty] = PAccept [CName 0; CName 1] true /\
  parse_part [CEmpty; CName 0] = PAbs.
Proof. vm_compute. auto. Qed.
