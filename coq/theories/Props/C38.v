(* placeholder *)
From Coq Require Import List Bool.
From Cylc Require Import Base.Util Model.Fs.
Import ListNotations.
Theorem c38_placeholder : parse_part [CPar] = PAbove.
Proof. reflexivity. Qed.
