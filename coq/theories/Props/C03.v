(* Props/C03.v — C03 "No premature shutdown and no false stall". *)
From Coq Require Import List Bool ZArith.
From Cylc Require Import Base.Util Model.Pool Proofs.PoolProofs Proofs.PoolTheorems.
Import ListNotations.
Open Scope Z_scope.

(* An automatic shutdown is accepted only when no pooled task is preparing,
   submitted or running, no waiting task has been released from the runahead
   pool, and nothing at or before the stop point is finished-but-incomplete
   (finished tasks that are complete are never retained, see C11) or waiting
   with partially satisfied prerequisites. *)
Theorem c03_no_premature_shutdown : forall c s s',
  step c s EShutdownAuto = Ok s' ->
  forall p, In p (pool s) ->
    is_active (p_status p) = false /\
    (p_status p = Waiting -> p_runahead p = true) /\
    (fst (p_id p) <= stop_point s ->
       is_final (p_status p) = false /\ (p_status p = Waiting -> p_sat p = [])).
Proof. exact auto_shutdown_guard. Qed.

(* One-step progress: every accepted tick end guarantees that no task has
   been ready (waiting, not held, not runahead-limited, all prerequisites
   true) yet unqueued for [max_idle] consecutive main-loop iterations, and
   queued tasks leave their queue as soon as the limit allows (C05). *)
Theorem c03_ready_tasks_get_queued : forall c s snap hl hp s',
  step c s (ETickEnd snap hl hp) = Ok s' ->
  forall p, In p (pool s') -> (p_idle p < max_idle)%nat.
Proof. intros c s snap hl hp s' H p Hp. exact (proj1 (tick_end_progress c s snap hl hp s' H p Hp)). Qed.

(* A task is queued only when it is really ready. *)
Theorem c03_queued_only_when_ready : forall c s t st h r s' p inp i,
  step c s (EState t st h true r) = Ok s' -> lookup s t = Some (p, inp) -> p_queued p = false ->
  p_manual p = false ->
  find_inst (c_insts c) t = Some i ->
  ready i (set_flags p h false r) = true.
Proof.
  intros c s t st h r s' p inp i H El Hq Hm Hi. cbn [step] in H. rewrite El, Hi in H.
  destruct (_ && _) in H; [discriminate|].
  destruct (true && negb (p_queued p) && negb (ready i (set_flags p h false r)) && negb (p_manual p)) eqn:E;
    [discriminate|].
  rewrite Hq, Hm in E. cbn in E. rewrite andb_true_r in E. now apply negb_false_iff in E.
Qed.

(* The stall verdict itself (is_stalled) is checked on the implementation by
   the C03 oracle at every tick; it is not part of the automaton: partial. *)
