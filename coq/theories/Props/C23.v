(* placeholder *)
From Coq Require Import List ZArith Bool.
From Cylc Require Import Base.Util Model.Codes Model.Id.
Theorem c23_placeholder : True. Proof. exact I. Qed.
