(* Props/C23.v — C23 "Universal identifiers round-trip".
   Property theorems only; proofs are in Proofs/IdProofs.v.
   The model (Model/Id.v) is a hand transcription of the regexes UNIVERSAL_ID,
   RELATIVE_ID, LEGACY_TASK_DOT_CYCLE, LEGACY_CYCLE_SLASH_TASK into parsers,
   and of tokenise / detokenise / legacy_tokenise / upgrade_legacy_ids; it is
   tied to cylc/flow/id.py by the two C23 correspondence streams.

   External behaviour: [is_space] (str.isspace, used by str.strip) and
   [is_digit] (the regex class \d) are universally quantified, with the
   hypotheses the proofs need about them; [c23_cpython_classes] shows that the
   tables of the running CPython (regenerated into Gen/UniClasses.v) satisfy
   these hypotheses.

   VALID TOKENS ([valid_tokens]): every present value is non-empty, has no
   white space at either end, and stays inside the character class of its field:
     user, cycle            [^/:\n~]+          (a cycle containing ":" is NOT valid: the
                                                regex admits one only through backtracking,
                                                and "//1:a" re-parses as cycle "1" + selector "a")
     workflow               seg(/seg)*  with seg in [^/:\n~]+
     task, all selectors    [^/:\n]+
     job                    "NN" or ASCII digits.
   CANONICAL TOKENS ([canon sel t]): what the formatted identifier denotes — a
   missing token above the lowest one is "*", the job is zero padded to two
   digits, selectors survive only with selectors=True and only down to the
   lowest token. *)
From Coq Require Import List ZArith Bool.
From Cylc Require Import Base.Util Gen.UniClasses Model.Id Proofs.IdProofs.
Import ListNotations.
Open Scope Z_scope.

(* "For any valid identifier tokens, formatting and re-parsing yields the same
   tokens (job numbers zero-padded)": tokenise(detokenise(t, selectors, relative))
   = canon t.  The relative= flag given to tokenise is the one detokenise used,
   and only matters for tokens without user and workflow. *)
Theorem c23_detok_tok : forall (is_space : Z -> bool),
  is_space 42 = false ->
  (forall c, is_ascii_digit c = true -> is_space c = false) ->
  forall sel rel t s,
  valid_tokens is_space t -> detokenise sel rel t = DOk s ->
  tokenise is_space (rel && negb (truthy (user t) || truthy (workflow t))) s
  = Some (canon sel t).
Proof. exact detok_tok. Qed.

(* ... and valid tokens can always be formatted (no "No tokens provided", no
   int() failure) as soon as one regular token is present. *)
Theorem c23_format_total : forall (is_space : Z -> bool),
  (forall c, is_ascii_digit c = true -> is_space c = false) ->
  forall sel rel t,
  valid_tokens is_space t ->
  truthy (user t) || truthy (workflow t) || truthy (cycle t) || truthy (task t)
  || truthy (job t) = true ->
  exists s, detokenise sel rel t = DOk s.
Proof. exact detok_total. Qed.

(* "parsing then formatting a canonical identifier string yields the same
   string": a canonical string is one that detokenise produces from valid
   tokens; it parses, and formatting the parsed tokens gives it back. *)
Theorem c23_tok_detok : forall (is_space : Z -> bool),
  is_space 42 = false ->
  (forall c, is_ascii_digit c = true -> is_space c = false) ->
  forall sel rel t s,
  valid_tokens is_space t -> detokenise sel rel t = DOk s ->
  exists t', tokenise is_space (rel && negb (truthy (user t) || truthy (workflow t))) s
             = Some t' /\ detokenise sel rel t' = DOk s.
Proof. exact tok_detok. Qed.

(* "Relative and absolute forms agree on the task part": parsing the full
   identifier and taking Tokens.task gives the same tokens as parsing the
   relative identifier (Tokens.relative_id / relative_id_with_selectors) with
   relative=True. *)
Theorem c23_relative_absolute : forall (is_space : Z -> bool),
  is_space 42 = false ->
  (forall c, is_ascii_digit c = true -> is_space c = false) ->
  forall sel t sa sr,
  valid_tokens is_space t ->
  detokenise sel false t = DOk sa ->
  detokenise sel true (task_part t) = DOk sr ->
  exists ta tr,
    tokenise is_space false sa = Some ta /\ tokenise is_space true sr = Some tr
    /\ task_part ta = tr.
Proof. exact relative_absolute. Qed.

(* "legacy task.cycle and cycle/task identifiers upgrade to the equivalent
   tokens".  For valid legacy fields ([legacy_ok]: task in [^~:/\n]+, cycle =
   a \d character followed by [^~.:/\n]*, optional selector, no white space
   at the edges):

   task.cycle[:sel]  is recognised, upgrade_legacy_ids rewrites it to
   //cycle/task[:sel] (cycle/task[:sel] with relative=True), and the new
   identifier parses to exactly the legacy tokens. *)
Theorem c23_legacy_dot_upgrade : forall (is_space is_digit : Z -> bool),
  is_space 42 = false ->
  (forall c, is_ascii_digit c = true -> is_space c = false) ->
  (forall c, is_digit c = true -> l_cyc c = true) ->
  forall tk d cr sel w,
  legacy_ok is_space is_digit tk d cr sel ->
  let lt := legacy_tokens tk (d :: cr) sel in
  let old := dot_form tk (d :: cr) sel in
  let new := slash_form tk (d :: cr) sel in
  legacy_tokenise is_space is_digit old = Some lt
  /\ upgrade_legacy_ids is_space is_digit false [w; old] = [w; 47 :: 47 :: new]
  /\ upgrade_legacy_ids is_space is_digit true [old] = [new]
  /\ tokenise is_space false (47 :: 47 :: new) = Some lt
  /\ tokenise is_space true new = Some lt.
Proof.
  intros is_space is_digit H1 H2 H3 tk d cr sel w L lt old new.
  pose proof (lg_tokenise_dot is_space is_digit H3 tk d cr sel L) as Ht.
  destruct (lg_upgrade is_space is_digit tk d cr sel L old w Ht) as [Ha Hr].
  repeat split; auto.
  - exact (lg_tok_new is_space is_digit H1 H2 H3 tk d cr sel L false).
  - exact (lg_tok_new is_space is_digit H1 H2 H3 tk d cr sel L true).
Qed.

(* cycle/task[:sel] : the same, for every valid legacy cycle — including the
   one-character cycles of integer cycling ("1/foo"), which the implementation
   did not recognise before /repo commit 26dc1a0 (LEGACY_CYCLE_SLASH_TASK needed
   \d[^~.:/\n]+ ; the witness "1/foo" stays in the stream's corpus). *)
Theorem c23_legacy_slash_upgrade : forall (is_space is_digit : Z -> bool),
  is_space 42 = false ->
  (forall c, is_ascii_digit c = true -> is_space c = false) ->
  (forall c, is_digit c = true -> l_cyc c = true) ->
  forall tk d cr sel w,
  legacy_ok is_space is_digit tk d cr sel ->
  let lt := legacy_tokens tk (d :: cr) sel in
  let old := slash_form tk (d :: cr) sel in
  legacy_tokenise is_space is_digit old = Some lt
  /\ upgrade_legacy_ids is_space is_digit false [w; old] = [w; 47 :: 47 :: old]
  /\ upgrade_legacy_ids is_space is_digit true [old] = [old]
  /\ tokenise is_space false (47 :: 47 :: old) = Some lt
  /\ tokenise is_space true old = Some lt.
Proof.
  intros is_space is_digit H1 H2 H3 tk d cr sel w L lt old.
  pose proof (lg_tokenise_slash is_space is_digit H3 tk d cr sel L) as Ht.
  destruct (lg_upgrade is_space is_digit tk d cr sel L old w Ht) as [Ha Hr].
  repeat split; auto.
  - exact (lg_tok_new is_space is_digit H1 H2 H3 tk d cr sel L false).
  - exact (lg_tok_new is_space is_digit H1 H2 H3 tk d cr sel L true).
Qed.

(* The full statement for the cycle/task form: EVERY valid legacy cycle/task
   identifier is recognised (was refuted by "1/a" before commit 26dc1a0). *)
Theorem c23_legacy_slash_upgrade_full : forall (is_space is_digit : Z -> bool),
  (forall c, is_digit c = true -> l_cyc c = true) ->
  forall tk d cr sel,
  legacy_ok is_space is_digit tk d cr sel ->
  legacy_tokenise is_space is_digit (slash_form tk (d :: cr) sel)
  = Some (legacy_tokens tk (d :: cr) sel).
Proof. exact lg_tokenise_slash. Qed.

(* ---------- the hypotheses hold of the running CPython's tables ---------- *)
Lemma ranges_disjoint_from lo hi rs :
  forallb (fun r => (snd r <? lo) || (hi <? fst r)) rs = true ->
  forall c, lo <= c <= hi -> in_ranges c rs = false.
Proof.
  unfold in_ranges. induction rs as [|r rs IH]; cbn; [reflexivity|].
  intros H c Hc. apply andb_true_iff in H. destruct H as [H1 H2].
  rewrite (IH H2 c Hc), orb_false_r.
  apply orb_true_iff in H1. destruct H1 as [H1|H1]; apply Z.ltb_lt in H1.
  - apply andb_false_iff. right. apply Z.leb_gt. destruct Hc. eapply Z.lt_le_trans; eauto.
  - apply andb_false_iff. left. apply Z.leb_gt. destruct Hc. eapply Z.le_lt_trans; eauto.
Qed.

Theorem c23_cpython_classes :
  is_space_tbl 42 = false
  /\ (forall c, is_ascii_digit c = true -> is_space_tbl c = false)
  /\ (forall c, is_digit_tbl c = true -> l_cyc c = true).
Proof.
  split; [vm_compute; reflexivity|]. split.
  - intros c H. unfold is_ascii_digit in H. apply andb_true_iff in H. destruct H as [H1 H2].
    apply Z.leb_le in H1. apply Z.leb_le in H2.
    apply (ranges_disjoint_from 48 57); [vm_compute; reflexivity|]. split; assumption.
  - intros c H. unfold l_cyc, c_user.
    destruct (Z.eqb_spec c 47) as [->|_]; [vm_compute in H; discriminate H|].
    destruct (Z.eqb_spec c 58) as [->|_]; [vm_compute in H; discriminate H|].
    destruct (Z.eqb_spec c 10) as [->|_]; [vm_compute in H; discriminate H|].
    destruct (Z.eqb_spec c 126) as [->|_]; [vm_compute in H; discriminate H|].
    destruct (Z.eqb_spec c 46) as [->|_]; [vm_compute in H; discriminate H|].
    reflexivity.
Qed.

(* ---------- non-vacuity ---------- *)
(* ~u/a/b:ws//2020:cs/t~.x:ts/4:js  — valid tokens with every field present *)
Definition ex_t : tokens :=
  mk (Some [117]) (Some [97; 47; 98]) (Some [119; 115]) (Some [50; 48; 50; 48]) (Some [99; 115])
     (Some [116; 126; 46; 120]) (Some [116; 115]) (Some [52]) (Some [106; 115]).
Example c23_ex_valid : valid_tokens is_space_tbl ex_t.
Proof.
  constructor; cbn; repeat split;
    first [vm_compute; reflexivity | right; vm_compute; reflexivity].
Qed.
Example c23_ex_format :
  detokenise true false ex_t
  = DOk [126;117;47;97;47;98;58;119;115;47;47;50;48;50;48;58;99;115;47;116;126;46;120;58;116;115;
         47;48;52;58;106;115].
Proof. vm_compute. reflexivity. Qed.
Example c23_ex_roundtrip :
  exists s, detokenise true false ex_t = DOk s
            /\ tokenise is_space_tbl false s = Some (canon true ex_t)
            /\ job (canon true ex_t) = Some [48; 52].
Proof. eexists. repeat split; vm_compute; reflexivity. Qed.
(* a gap (user and cycle but no workflow) is printed and re-read as "*" *)
Example c23_ex_gap :
  let t := mk (Some [117]) None None (Some [49]) None None None None None in
  detokenise false false t = DOk [126;117;47;42;47;47;49]
  /\ workflow (canon false t) = Some [42].
Proof. split; vm_compute; reflexivity. Qed.
(* legacy: "foo.1:s", "10/foo" and "1/foo" are recognised and upgraded *)
Example c23_ex_legacy :
  legacy_ok is_space_tbl is_digit_tbl [102;111;111] 49 [] (Some [115])
  /\ upgrade_legacy_ids is_space_tbl is_digit_tbl false [[119]; [102;111;111;46;49;58;115]]
     = [[119]; [47;47;49;47;102;111;111;58;115]]
  /\ upgrade_legacy_ids is_space_tbl is_digit_tbl false [[119]; [49;48;47;102;111;111]]
     = [[119]; [47;47;49;48;47;102;111;111]]
  /\ upgrade_legacy_ids is_space_tbl is_digit_tbl false [[119]; [49;47;102;111;111]]
     = [[119]; [47;47;49;47;102;111;111]].   (* "1/foo": one-character cycle (fixed in 26dc1a0) *)
Proof.
  split; [constructor; cbn; auto; try split; vm_compute; reflexivity|].
  repeat split; vm_compute; reflexivity.
Qed.
(* the excluded class really is different: a cycle with ":" does not round-trip *)
Example c23_ex_cycle_colon :
  let t := mk None None None (Some [49; 58; 97]) None None None None None in
  detokenise false false t = DOk [47;47;49;58;97]
  /\ option_map cycle (tokenise is_space_tbl false [47;47;49;58;97]) = Some (Some [49]).
Proof. split; vm_compute; reflexivity. Qed.
