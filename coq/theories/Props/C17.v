(* Props/C17.v — C17 "Datetime recurrences are consistent with brute-force
   enumeration" (and the caches of ISO8601Sequence are transparent).
   Property theorems only; the lemmas are in Proofs/IsoSeqProofs.v.  The model
   (Model/IsoSeq.v) is tied to cylc/flow/cycling/iso8601.py by the C17
   correspondence stream, which instantiates [enum], [rnext], [rprev],
   [rvalid], [excl] with what the real TimeRecurrence / exclusions objects
   answer, and evaluates [hyps_check] (below: sound for the hypotheses) on
   every sampled sequence. *)
From Coq Require Import List ZArith Bool Sorted Lia.
From Cylc Require Import Base.Util Model.IsoSeq Proofs.IsoSeqProofs.
Import ListNotations.
Local Open Scope Z_scope.

(* What is assumed of the recurrence object: iterating it gives the strictly
   increasing list [enum] (a prefix if not [complete]); get_next leads from
   each point to the following one (and to nothing after the last one);
   get_is_valid is membership.  For the "previous point" methods also:
   get_prev leads from each point to the preceding one. *)
Definition recurrence_ok (enum : list Z) (complete : bool) (rnext : Z -> option Z) (rvalid : Z -> bool) : Prop :=
  StronglySorted Z.lt enum /\
  (forall l1 a b l2, enum = l1 ++ a :: b :: l2 -> rnext a = Some b) /\
  (forall l1 a, enum = l1 ++ [a] ->
     if complete then rnext a = None else exists x, rnext a = Some x /\ a < x) /\
  (forall p, in_window enum complete p = true -> rvalid p = mem Z.eqb p enum).

Definition recurrence_prev_ok (enum : list Z) (rprev : Z -> option Z) : Prop :=
  (forall l1 a b l2, enum = l1 ++ a :: b :: l2 -> rprev b = Some a) /\
  (forall a l2, enum = a :: l2 -> rprev a = None).

(* 1. Every answer given during any session of queries on one sequence object
   (caches filling up and being evicted along the way) is the enumeration-level
   answer [spec_answer]: membership in (enum minus exclusions), least such
   point > p / >= p, greatest < p, first, last.  [fwd_domain]: all queries
   except the prev ones (get_next_point_on_sequence: on a point of the
   recurrence);
   [prev_domain]: get_prev_point on a point of the recurrence and
   get_nearest_prev_point anywhere, under [recurrence_prev_ok]. *)
Theorem c17_api_vs_enumeration :
  forall enum complete bounded rnext rprev rvalid excl N fuel0,
  recurrence_ok enum complete rnext rvalid ->
  forall qs i q a,
  nth_error qs i = Some q ->
  nth_error (run_all enum complete bounded rnext rprev rvalid excl N fuel0 st0 qs) i = Some (Ok a) ->
  (fwd_domain enum q -> a = spec_answer enum bounded excl q) /\
  (recurrence_prev_ok enum rprev -> prev_domain enum q -> a = spec_answer enum bounded excl q).
Proof.
  intros enum complete bounded rnext rprev rvalid excl N fuel0 [H1 [H2 [H3 H4]]] qs i q a Hq Ha.
  destruct (run_all_nth enum complete bounded rnext rprev rvalid excl N fuel0 H1 H2 H3 H4 qs st0 i q a
              (Inv_st0 enum excl) Hq Ha) as [si [si' [HI Hr]]].
  split.
  - intros Hd. exact (run_query_fwd enum complete bounded rnext rprev rvalid excl N fuel0 H1 H2 H3 H4 si q a si' HI Hd Hr).
  - intros [P1 P2] Hd.
    exact (run_query_prev enum complete bounded rnext rprev rvalid excl N fuel0 H1 H2 H3 H4 si q a si' P1 P2 HI Hd Hr).
Qed.

(* 2. Cache transparency: the answer to a query does not depend on which
   queries were made before it — for every query (no domain restriction, no
   assumption on get_prev), any two sessions, any positions. *)
Theorem c17_cache_transparent :
  forall enum complete bounded rnext rprev rvalid excl N fuel0,
  recurrence_ok enum complete rnext rvalid ->
  forall qs1 qs2 i j q a1 a2,
  nth_error qs1 i = Some q -> nth_error qs2 j = Some q ->
  nth_error (run_all enum complete bounded rnext rprev rvalid excl N fuel0 st0 qs1) i = Some (Ok a1) ->
  nth_error (run_all enum complete bounded rnext rprev rvalid excl N fuel0 st0 qs2) j = Some (Ok a2) ->
  a1 = a2.
Proof.
  intros enum complete bounded rnext rprev rvalid excl N fuel0 [H1 [H2 [H3 H4]]] qs1 qs2 i j q a1 a2 Q1 Q2 A1 A2.
  destruct (run_all_nth enum complete bounded rnext rprev rvalid excl N fuel0 H1 H2 H3 H4 qs1 st0 i q a1
              (Inv_st0 enum excl) Q1 A1) as [s1 [s1' [I1 R1]]].
  destruct (run_all_nth enum complete bounded rnext rprev rvalid excl N fuel0 H1 H2 H3 H4 qs2 st0 j q a2
              (Inv_st0 enum excl) Q2 A2) as [s2 [s2' [I2 R2]]].
  exact (run_query_transparent enum complete bounded rnext rprev rvalid excl N fuel0 H1 H2 H3 H4
           s1 s2 q a1 a2 s1' s2' I1 I2 R1 R2).
Qed.

(* 3. What the enumeration-level answers are: least / greatest elements of
   (enum minus exclusions). *)
Theorem c17_spec_is_least_greatest : forall enum excl p,
  StronglySorted Z.lt enum ->
  (spec_on enum excl p = true <-> In p enum /\ excl p = false) /\
  match spec_next enum excl p with
  | Some n => In n enum /\ excl n = false /\ p < n /\
              forall e, In e enum -> excl e = false -> p < e -> n <= e
  | None => forall e, In e enum -> excl e = false -> e <= p
  end /\
  match spec_first enum excl p with
  | Some n => In n enum /\ excl n = false /\ p <= n /\
              forall e, In e enum -> excl e = false -> p <= e -> n <= e
  | None => forall e, In e enum -> excl e = false -> e < p
  end /\
  match spec_prev enum excl p with
  | Some n => In n enum /\ excl n = false /\ n < p /\
              forall e, In e enum -> excl e = false -> e < p -> e <= n
  | None => forall e, In e enum -> excl e = false -> p <= e
  end /\
  match spec_start enum excl with
  | Some n => In n enum /\ excl n = false /\ forall e, In e enum -> excl e = false -> n <= e
  | None => forall e, In e enum -> excl e = true
  end /\
  match spec_stop enum true excl with
  | Some n => In n enum /\ excl n = false /\ forall e, In e enum -> excl e = false -> e <= n
  | None => forall e, In e enum -> excl e = true
  end.
Proof.
  intros enum excl p Hs.
  assert (G : forall e, good excl e = true <-> excl e = false)
    by (intros e; unfold good; destruct (excl e); cbn; split; congruence).
  split; [|split; [|split; [|split; [|split]]]].
  - unfold spec_on. rewrite andb_true_iff, mem_Z_In, G. tauto.
  - unfold spec_next. pose proof (find_sorted_least (fun e => (p <? e) && good excl e) enum Hs) as H.
    destruct (find _ enum) as [n|].
    + destruct H as [H1 [H2 H3]]. apply andb_true_iff in H2. destruct H2 as [H2 H2']. apply Z.ltb_lt in H2.
      apply G in H2'. repeat split; auto. intros e He Hg Hlt. apply H3; auto.
      apply andb_true_iff. split; [now apply Z.ltb_lt|now apply G].
    + intros e He Hg. specialize (H e He). apply G in Hg. rewrite Hg, andb_true_r in H. apply Z.ltb_ge in H. lia.
  - unfold spec_first. pose proof (find_sorted_least (fun e => (p <=? e) && good excl e) enum Hs) as H.
    destruct (find _ enum) as [n|].
    + destruct H as [H1 [H2 H3]]. apply andb_true_iff in H2. destruct H2 as [H2 H2']. apply Z.leb_le in H2.
      apply G in H2'. repeat split; auto. intros e He Hg Hlt. apply H3; auto.
      apply andb_true_iff. split; [now apply Z.leb_le|now apply G].
    + intros e He Hg. specialize (H e He). apply G in Hg. rewrite Hg, andb_true_r in H. apply Z.leb_gt in H. lia.
  - unfold spec_prev. pose proof (find_sorted_greatest (fun e => (e <? p) && good excl e) enum Hs) as H.
    destruct (find _ (rev enum)) as [n|].
    + destruct H as [H1 [H2 H3]]. apply andb_true_iff in H2. destruct H2 as [H2 H2']. apply Z.ltb_lt in H2.
      apply G in H2'. repeat split; auto. intros e He Hg Hlt. apply H3; auto.
      apply andb_true_iff. split; [now apply Z.ltb_lt|now apply G].
    + intros e He Hg. specialize (H e He). apply G in Hg. rewrite Hg, andb_true_r in H. apply Z.ltb_ge in H. lia.
  - unfold spec_start. pose proof (find_sorted_least (good excl) enum Hs) as H.
    destruct (find _ enum) as [n|].
    + destruct H as [H1 [H2 H3]]. apply G in H2. repeat split; auto. intros e He Hg. apply H3; auto. now apply G.
    + intros e He. specialize (H e He). unfold good in H. now apply negb_false_iff in H.
  - unfold spec_stop. pose proof (find_sorted_greatest (good excl) enum Hs) as H.
    destruct (find _ (rev enum)) as [n|].
    + destruct H as [H1 [H2 H3]]. apply G in H2. repeat split; auto. intros e He Hg. apply H3; auto. now apply G.
    + intros e He. specialize (H e He). unfold good in H. now apply negb_false_iff in H.
Qed.

(* 4. get_stop_point is the last non-excluded point of a bounded recurrence,
   whatever is excluded (None if unbounded).  This was false before /repo
   commit dde59a5 (the second-last point was returned unchecked when the last
   one was excluded: R5/20000101T00Z/P1D!(20000105T00Z,20000104T00Z)); the
   witness stays in the corpus as a regression case. *)
Theorem c17_stop_point_is_last_valid :
  forall enum complete bounded excl o,
  get_stop enum complete bounded excl = Ok o -> o = spec_stop enum bounded excl.
Proof. exact get_stop_spec. Qed.

Example c17_ex_stop_trailing_exclusions :
  get_stop [1; 2; 3; 4; 5] true true (fun p => (p =? 4) || (p =? 5)) = Ok (Some 3) /\
  get_stop [1] true true (fun p => p =? 1) = Ok None.
Proof. split; reflexivity. Qed.

(* 5. The assumption on get_prev is necessary (open finding: with month or
   year steps from day 29-31, isodatetime's get_prev(p) = p - step is not the
   previous point of the iteration): a recurrence 31,60,89 (days of year 2000:
   Jan 31, Feb 29, Mar 29) whose get_prev answers 60-31 = 29 -> out of bounds. *)
Theorem c17_prev_needs_invertible_step :
  exists enum complete bounded rnext rprev rvalid excl N fuel0,
    recurrence_ok enum complete rnext rvalid /\
    ~ recurrence_prev_ok enum rprev /\
    nth_error (run_all enum complete bounded rnext rprev rvalid excl N fuel0 st0 [QPrev 60]) 0
      = Some (Ok (APt None)) /\
    spec_answer enum bounded excl (QPrev 60) = APt (Some 31).
Proof.
  exists [31; 60; 89], true, true,
    (fun p => if p =? 31 then Some 60 else if p =? 60 then Some 89 else None),
    (fun p => if p =? 89 then Some 60 else None),
    (fun p => mem Z.eqb p [31; 60; 89]), (fun _ => false), 3%nat, 10%nat.
  split; [|split; [|split; reflexivity]].
  - pose proof (hyps_check_sound [31; 60; 89] true
      (fun p => if p =? 31 then Some 60 else if p =? 60 then Some 89 else None)
      (fun p => if p =? 89 then Some 60 else None)
      (fun p => mem Z.eqb p [31; 60; 89]) [] eq_refl) as [H1 [H2 [H3 _]]].
    repeat split; auto.
  - intros [P _]. specialize (P [] 31 60 [89] eq_refl). discriminate P.
Qed.

(* 6. The boolean check that the correspondence run evaluates on every sampled
   sequence implies the hypotheses (get_is_valid: at the sampled points). *)
Theorem c17_hyps_check_sound : forall enum complete rnext rprev rvalid pts,
  (fst (hyps_check enum complete rnext rprev rvalid pts) = true ->
   StronglySorted Z.lt enum /\
   (forall l1 a b l2, enum = l1 ++ a :: b :: l2 -> rnext a = Some b) /\
   (forall l1 a, enum = l1 ++ [a] ->
      if complete then rnext a = None else exists x, rnext a = Some x /\ a < x) /\
   (forall p, In p (pts ++ enum) -> in_window enum complete p = true -> rvalid p = mem Z.eqb p enum)) /\
  (snd (hyps_check enum complete rnext rprev rvalid pts) = true -> recurrence_prev_ok enum rprev).
Proof.
  intros. split; [apply hyps_check_sound|apply hyps_check_sound_prev].
Qed.

(* ---------------- non-vacuity ---------------- *)
(* a 6-hourly recurrence 0,6,..,54 with 12 and 18 excluded, cache size 1 (so
   that entries are evicted), a session touching every method twice *)
Definition ex_enum := [0; 6; 12; 18; 24; 30; 36; 42; 48; 54].
Definition ex_next (p : Z) := if (0 <=? p) && (p <=? 48) then Some (p + 6) else None.
Definition ex_prev (p : Z) := if (6 <=? p) && (p <=? 54) then Some (p - 6) else None.
Definition ex_valid (p : Z) := mem Z.eqb p ex_enum.
Definition ex_excl (p : Z) := (p =? 12) || (p =? 18).
Definition ex_session :=
  [QNext 7; QNext 6; QValid 12; QValid 24; QOn 24; QNext 30; QNext 7; QFirst 13; QFirst 13; QNPrev 20;
   QPrev 24; QNextOn 6; QValid 24; QStart; QStop; QNext 54; QOn 25].

Example c17_ex_recurrence_ok : recurrence_ok ex_enum true ex_next ex_valid /\ recurrence_prev_ok ex_enum ex_prev.
Proof.
  destruct (hyps_check_sound ex_enum true ex_next ex_prev ex_valid [] eq_refl) as [H1 [H2 [H3 _]]].
  split; [repeat split; auto|exact (hyps_check_sound_prev ex_enum true ex_next ex_prev ex_valid [] eq_refl)].
Qed.

Example c17_ex_session :
  run_all ex_enum true true ex_next ex_prev ex_valid ex_excl 1 30 st0 ex_session =
  map (fun q => Ok (spec_answer ex_enum true ex_excl q)) ex_session.
Proof. vm_compute. reflexivity. Qed.

Example c17_ex_answers :
  map (spec_answer ex_enum true ex_excl) [QNext 7; QFirst 13; QNPrev 20; QStop; QValid 12] =
  [APt (Some 24); APt (Some 24); APt (Some 6); APt (Some 54); ABool false].
Proof. vm_compute. reflexivity. Qed.

(* 7. The assumption that get_next follows the iteration is necessary for
   transparency (open finding: month step, start point in another time zone
   than the cycle point time zone: 20000130T1710-0800/P1M seen from +0530
   iterates Jan 31, Mar 1, Mar 30, Apr 30 = days 31, 61, 90, 121, but get_next
   of the re-parsed Mar 1 is Apr 1 = day 92): the answer to
   get_next_point(Mar 15 = day 75) then depends on an earlier query. *)
Theorem c17_transparency_needs_next_link :
  exists enum complete bounded rnext rprev rvalid excl N fuel0,
    ~ recurrence_ok enum complete rnext rvalid /\
    run_all enum complete bounded rnext rprev rvalid excl N fuel0 st0 [QNext 75]
      = [Ok (APt (Some 90))] /\
    run_all enum complete bounded rnext rprev rvalid excl N fuel0 st0 [QNext 31; QNext 75]
      = [Ok (APt (Some 61)); Ok (APt (Some 92))].
Proof.
  exists [31; 61; 90; 121], true, false,
    (fun p => if p =? 31 then Some 60 else if p =? 61 then Some 92 else if p =? 90 then Some 121 else None),
    (fun _ => None), (fun p => mem Z.eqb p [31; 61; 90; 121]), (fun _ => false), 3%nat, 10%nat.
  split; [|split; reflexivity].
  intros [_ [H _]]. specialize (H [] 31 61 [90; 121] eq_refl). discriminate H.
Qed.
