(* Props/C41.v — C41 "Literal task environment values reach the job unchanged".
   Model: Model/Shell.v — the writer (JobFileWriter._write_runtime_environment /
   _get_variable_value_definition of cylc/flow/job_file.py) and the bash
   fragment that evaluates what it writes; tied to the source and to /bin/bash
   by the correspondence stream of vp/props/c41.py.

   [definition v]           the word the writer emits for value v
   [eval_word e users w]    the value bash assigns for word w in environment e
                            (users = passwd: login -> home directory)
   [run_section e users c]  environment after the assignments of section c *)
From Coq Require Import List ZArith Bool Lia.
From Cylc Require Import Base.Util Model.Shell Proofs.ShellProofs Model.EnvFilter Proofs.EnvFilterProofs.
Import ListNotations.
Open Scope Z_scope.

(* A value with none of the characters $ ` \ dquote (the ones that are special
   inside double quotes) and not starting with '~' is written as one
   double-quoted word, and bash assigns exactly that value — whatever else it
   contains (spaces, quotes ', #, =, ~ inside, unicode, newlines) and whatever
   the environment is. *)
Theorem c41_literal : forall e users v,
  plain_str v = true -> tilde_start v = false ->
  definition v = WQuoted v /\ eval_word e users (definition v) = Ok v.
Proof. exact eval_literal. Qed.

(* The tilde shapes.  "~" alone and "~/rest": $HOME, then the literal rest. *)
Theorem c41_tilde_home : forall e users h,
  assoc str_eqb s_HOME e = Some h ->
  eval_word e users (definition [c_tilde]) = Ok h.
Proof.
  intros e users h H. rewrite (definition_tilde_only []) by reflexivity.
  cbn. exact (tilde_expand_home e users h H).
Qed.

Theorem c41_tilde_home_slash : forall e users h rest,
  assoc str_eqb s_HOME e = Some h -> plain_str rest = true -> has_nl rest = false ->
  eval_word e users (definition (c_tilde :: c_slash :: rest)) = Ok (h ++ c_slash :: rest).
Proof.
  intros e users h rest H Hp Hn.
  change (c_tilde :: c_slash :: rest) with (c_tilde :: [] ++ c_slash :: rest).
  rewrite (definition_tilde_slash [] rest) by (try reflexivity; exact Hn).
  cbn [eval_word]. rewrite (tilde_expand_home e users h H). cbn [rbind].
  rewrite (dq_plain e rest Hp). reflexivity.
Qed.

(* "~login" and "~login/rest": the login's home directory (or the text ~login
   unchanged when there is no such user), then the literal rest. *)
Theorem c41_tilde_login : forall e users run,
  safe_login run = true ->
  eval_word e users (definition (c_tilde :: run)) = Ok (home_of users run).
Proof.
  intros e users run H. rewrite (definition_tilde_only run) by (now apply safe_login_nostop).
  cbn. now apply tilde_expand_login.
Qed.

Theorem c41_tilde_login_slash : forall e users run rest,
  safe_login run = true -> plain_str rest = true -> has_nl rest = false ->
  eval_word e users (definition (c_tilde :: run ++ c_slash :: rest)) =
  Ok (home_of users run ++ c_slash :: rest).
Proof.
  intros e users run rest H Hp Hn.
  rewrite (definition_tilde_slash run rest) by (try exact Hn; now apply safe_login_nostop).
  cbn [eval_word]. rewrite (tilde_expand_login e users run H). cbn [rbind].
  rewrite (dq_plain e rest Hp). reflexivity.
Qed.

(* "~foo bar" (whitespace before any '/') is quoted as a whole: no expansion. *)
Theorem c41_tilde_space_is_literal : forall e users run d rest,
  forallb (fun c => negb (stop_char c)) run = true -> is_space d = true -> rest <> [] ->
  plain_str (c_tilde :: run ++ d :: rest) = true ->
  eval_word e users (definition (c_tilde :: run ++ d :: rest)) = Ok (c_tilde :: run ++ d :: rest).
Proof.
  intros e users run d rest Hr Hd Hne Hp.
  rewrite (definition_tilde_space run d rest Hr Hd Hne). cbn [eval_word]. now apply dq_plain.
Qed.

(* Definitions are emitted in configuration order (one assignment per
   configured variable, same names, same order) ... *)
Theorem c41_order : forall c : conf,
  map fst (assignments c) = map fst c /\
  assignments c = map (fun nv => (fst nv, definition (snd nv))) c.
Proof.
  intros c. split; [|reflexivity]. unfold assignments. rewrite map_map. reflexivity.
Qed.

(* ... and evaluated one after the other in that order ... *)
Theorem c41_sequential : forall e users c1 c2,
  run_section e users (c1 ++ c2) =
  rbind (run_section e users c1) (fun e' => run_section e' users c2).
Proof. exact run_section_app. Qed.

(* ... so that a later value can refer to an earlier one: if x is given the
   literal value vx, is not redefined in between, and a later variable y is
   configured as  a${x}b  (a, b literal), then y gets  a vx b. *)
Theorem c41_later_refers_earlier : forall e users pre mid x vx y a b e2,
  plain_str vx = true -> tilde_start vx = false ->
  plain_str a = true -> tilde_start a = false -> plain_str b = true ->
  valid_name x = true ->
  ~ In x (map fst mid) ->
  run_section e users (pre ++ (x, vx) :: mid) = Ok e2 ->
  run_section e users
    (pre ++ (x, vx) :: mid ++ [(y, a ++ c_dollar :: c_lbrace :: x ++ c_rbrace :: b)]) =
  Ok (update e2 y (a ++ vx ++ b)).
Proof. exact later_refers_earlier. Qed.

(* ---- before the writer: the environment the job gets is the configured one,
   in configuration order (WorkflowConfig.filter_env; Model/EnvFilter.v) ---- *)

(* filter_env keeps a variable iff it is in the include list (or the include list
   is empty) and not in the exclude list, and does nothing else: the result is the
   configured environment with the other entries removed ... *)
Theorem c41_filter_env_is_filter : forall incl excl e,
  filter_env incl excl e = filter (fun kv => keep incl excl (fst kv)) e.
Proof. exact filter_env_is_filter. Qed.

(* ... i.e. an order-preserving sub-sequence of the configured environment
   (whatever the order of the names in the include / exclude lists) ... *)
Theorem c41_filter_env_subsequence : forall incl excl e,
  sublist (filter_env incl excl e) e.
Proof. exact filter_env_sublist. Qed.

(* ... containing exactly the included-and-not-excluded variables, values untouched ... *)
Theorem c41_filter_env_exact : forall incl excl e k v,
  In (k, v) (filter_env incl excl e) <-> In (k, v) e /\ keep incl excl k = true.
Proof. exact filter_env_In. Qed.

(* ... so two kept variables stay in their configured relative order, which is what
   c41_later_refers_earlier needs. *)
Theorem c41_filter_env_keeps_order : forall incl excl l1 a l2 b l3,
  keep incl excl (fst a) = true -> keep incl excl (fst b) = true ->
  filter_env incl excl (l1 ++ a :: l2 ++ b :: l3) =
  filter_env incl excl l1 ++ a :: filter_env incl excl l2 ++ b :: filter_env incl excl l3.
Proof. exact filter_env_order. Qed.

(* Inheriting a family's environment keeps the order of the variables already
   present (overridden ones keep their place) and appends the new ones. *)
Theorem c41_inherit_keeps_order : forall source target,
  exists extra, map fst (merge target source) = map fst target ++ extra.
Proof. exact merge_keys. Qed.

(* ---------- non-vacuity ---------- *)
(* A = "two words #x='q'" ;  B = "~/my dir" ;  C = "pre-${A}-post"  with HOME=/h *)
Definition ex_A : str := [116;119;111;32;119;111;114;100;115;32;35;120;61;39;113;39].
Definition ex_conf : conf :=
  [([65], ex_A);
   ([66], [126;47;109;121;32;100;105;114]);
   ([67], [112;114;101;45;36;123;65;125;45;112;111;115;116])].
Definition ex_env : env := [(s_HOME, [47;104])].

Example c41_example_literal_hyps : plain_str ex_A = true /\ tilde_start ex_A = false.
Proof. vm_compute. auto. Qed.

Example c41_example_run :
  rmap (fun e => map (fun nv => lookup e (fst nv)) ex_conf) (run_section ex_env [] ex_conf) =
  Ok [ex_A;
      [47;104;47;109;121;32;100;105;114];
      [112;114;101;45] ++ ex_A ++ [45;112;111;115;116]].
Proof. vm_compute. reflexivity. Qed.

(* the hypotheses exclude real cases: a '$' makes the value non-literal *)
Example c41_example_dollar :
  plain_str [36;65] = false /\ eval_word [([65], [120])] [] (definition [36;65]) = Ok [120].
Proof. vm_compute. auto. Qed.

(* the seeded scenario: root defines BASE, NAME, SCRATCH, LABEL; t adds OUT = ${BASE}/${NAME}
   and includes OUT, LABEL, NAME, BASE (include order differs from configuration order):
   the job gets BASE, NAME, LABEL, OUT in that order and OUT expands from BASE and NAME *)
Definition fx_root : ns :=
  {| n_env := Some [([66], [47;100]); ([78], [102]); ([83], [120]); ([76], [108])];
     n_incl := None; n_excl := None |}.
Definition fx_t : ns :=
  {| n_env := Some [([79], [36;123;66;125;47;36;123;78;125])];
     n_incl := Some [[79]; [76]; [78]; [66]]; n_excl := None |}.
Example c41_filter_example :
  map fst (task_env [fx_root; fx_t]) = [[66]; [78]; [76]; [79]] /\
  rmap (fun e => lookup e [79]) (run_section [] [] (task_env [fx_root; fx_t])) = Ok [47;100;47;102].
Proof. vm_compute. auto. Qed.
