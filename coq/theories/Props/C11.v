(* Props/C11.v — C11 "Completion: tasks are retained exactly when incomplete".
   Property theorems only; proofs are in Proofs/CompletionProofs.v.
   The model (Model/Completion.v) is tied to cylc/flow/task_outputs.py
   (get_completion_expression, TaskOutputs.is_complete) and
   cylc/flow/task_pool.py (remove_if_complete) by the C11 correspondence
   streams, which compare truth tables / outcomes inside Coq. *)
From Coq Require Import List Bool Arith.
From Cylc Require Import Base.Util Model.BExpr Model.Completion
  Proofs.BExprProofs Proofs.CompletionProofs.
Import ListNotations.

(* "Without a user completion expression, the expression requires every
   required output, tolerates failure only when succeeded or failed is
   optional, and tolerates submit-failure and expiry only when those are
   optional": for EVERY task definition (any required/optional/unset flags,
   any custom outputs) and EVERY truth assignment to the outputs, the
   expression built by get_completion_expression (or FINAL_OUTPUT_COMPLETION
   when it is blank) has exactly the value of the documented rule
   [spec_complete]. *)
Theorem c11_default_expr_semantics : forall (t : tdef) (s : nat -> bool),
  eval s (completion_expr t None) = spec_complete t s.
Proof. exact default_expr_semantics. Qed.

(* ... and is_complete, which evaluates it Python-style over the registered
   outputs only, never raises NameError and returns that value, for every set
   of completed outputs. *)
Theorem c11_is_complete_default : forall (t : tdef) (done : list nat),
  std_registered t ->
  is_complete t None done = Some (spec_complete t (env_of done)).
Proof. exact is_complete_default. Qed.

(* With a user expression whose names are registered outputs, is_complete is
   the truth value of that expression over the completed outputs. *)
Theorem c11_is_complete_user : forall (t : tdef) (e : bexpr) (done : list nat),
  (forall a, In a (vars e) -> registered t a) ->
  is_complete t (Some e) done = Some (eval (env_of done) e).
Proof. exact is_complete_user. Qed.

(* The rule in the words of the property.  A task judged complete has all of
   its required outputs unless a tolerated outcome occurred, and an outcome is
   tolerated only if the corresponding output is optional. *)
Theorem c11_complete_implies : forall (t : tdef) (s : nat -> bool),
  nonempty (default_parts t) = true ->
  spec_complete t s = true ->
  (forall a, In a (required t) -> s a = true)
  \/ (fail_tolerated t = true /\ s FAILED = true)
  \/ (submit_fail_tolerated t = true /\ s SUBMIT_FAILED = true)
  \/ (expiry_tolerated t = true /\ s EXPIRED = true).
Proof. exact complete_implies. Qed.

(* When neither succeeded nor failed is optional, and no tolerated
   pre-execution outcome occurred, complete <=> every required output. *)
Theorem c11_failure_not_tolerated : forall (t : tdef) (s : nat -> bool),
  fail_tolerated t = false -> nonempty (required t) = true ->
  submit_fail_tolerated t = false \/ s SUBMIT_FAILED = false ->
  expiry_tolerated t = false \/ s EXPIRED = false ->
  (spec_complete t s = true <-> forall a, In a (required t) -> s a = true).
Proof. exact failure_not_tolerated. Qed.

(* "A finished task is removed from the pool exactly when its completion
   expression evaluates true over its completed outputs, and is otherwise
   retained (and logged) as incomplete": for a task in a final status
   (outside Cylc 7 compatibility mode) remove_if_complete removes it iff
   is_complete; otherwise it is retained, and the warning is logged whenever
   the call was made for a final output. *)
Theorem c11_retention : forall st out_final complete,
  status_final st = true ->
  remove_if_complete st false out_final (Some complete) =
  if complete then Removed else Retained out_final.
Proof. exact retention. Qed.

(* Both halves together for the default expression. *)
Theorem c11_removed_iff_rule : forall (t : tdef) (done : list nat) st out_final,
  std_registered t -> status_final st = true ->
  (remove_if_complete st false out_final (is_complete t None done) = Removed
   <-> spec_complete t (env_of done) = true).
Proof.
  intros t done st out_final Hstd Hst.
  rewrite (is_complete_default t done Hstd), (retention st out_final _ Hst).
  destruct (spec_complete t (env_of done)); split; congruence.
Qed.

(* A task that has not finished is never removed by this function. *)
Theorem c11_unfinished_retained : forall st compat out_final complete,
  status_final st = false ->
  remove_if_complete st compat out_final complete = Retained false.
Proof. exact not_final_retained. Qed.

(* ---- non-vacuity ---- *)
(* x (6) required, succeeded optional, submission optional:
   "(x and succeeded) or failed or submit_failed" *)
Definition ex_t : tdef :=
  [(EXPIRED, None); (SUBMITTED, Some false); (SUBMIT_FAILED, None); (STARTED, None);
   (SUCCEEDED, Some false); (FAILED, None); (6, Some true)].
Example c11_ex_expr :
  default_expr ex_t =
  Some (BOr (BOr (BAnd (BVar 6) (BVar SUCCEEDED)) (BVar FAILED)) (BVar SUBMIT_FAILED)).
Proof. vm_compute. reflexivity. Qed.
Example c11_ex_registered : std_registered ex_t.
Proof. repeat split; vm_compute; discriminate. Qed.
Example c11_ex_incomplete : is_complete ex_t None [SUBMITTED; STARTED; SUCCEEDED] = Some false.
Proof. vm_compute. reflexivity. Qed.
Example c11_ex_complete : is_complete ex_t None [SUBMITTED; STARTED; FAILED] = Some true.
Proof. vm_compute. reflexivity. Qed.
Example c11_ex_retained :
  remove_if_complete ST_SUCCEEDED false true
    (is_complete ex_t None [SUBMITTED; STARTED; SUCCEEDED]) = Retained true.
Proof. vm_compute. reflexivity. Qed.

(* ---------- scheduler level: the pool automaton (Model/Pool.v) ---------- *)
From Cylc Require Model.Pool Proofs.PoolProofs Proofs.PoolTheorems.

(* In a real run a task leaves the pool "as completed" only if it is finished
   and its completion expression (computed by the harness from the documented
   rule, independently of cylc) is true over its completed outputs ... *)
Theorem c11_pool_removed_as_complete_is_complete : forall c s t s',
  Pool.step c s (Pool.ERemove t true) = Pool.Ok s' ->
  exists p i, Pool.find_task (Pool.pool s) t = Some p /\ Pool.find_inst (Pool.c_insts c) t = Some i /\
    Pool.is_final (Pool.p_status p) = true /\
    Pool.cx_eval (Pool.has_out (Pool.p_outs p)) (Pool.i_comp i) = true.
Proof. exact PoolTheorems.removed_as_complete_is_complete. Qed.

(* ... and at the end of every main-loop iteration no finished task whose
   completion expression is true is still in the pool. *)
Theorem c11_pool_finished_complete_not_retained : forall c s snap hl hp s',
  Pool.step c s (Pool.ETickEnd snap hl hp) = Pool.Ok s' ->
  forall p i, In p (Pool.pool s) -> Pool.find_inst (Pool.c_insts c) (Pool.p_id p) = Some i ->
    Pool.is_final (Pool.p_status p) = true ->
    Pool.cx_eval (Pool.has_out (Pool.p_outs p)) (Pool.i_comp i) = false.
Proof. exact PoolTheorems.finished_complete_not_retained. Qed.
