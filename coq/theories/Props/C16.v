(* Props/C16.v — C16 "Integer recurrences denote the clipped arithmetic progression".

   Model: Model/IntSeq.v (hand model of cylc/flow/cycling/integer.py, tied to
   the source by the C16 correspondence stream).  Vocabulary (Proofs/IntSeqProofs.v):
     shape_of f cs ce      the progression a dispatched recurrence form defines
                           (OneOff a | Up a k n | Down e k n),
     denote f items cs ce  that progression clipped to [initial, final] minus the
                           exclusion points and the exclusion sequences,
     seq_member s          the set a constructed state stands for (progression from
                           p_start by i_step within [p_start, p_stop], minus exclusions),
     is_least_gt / is_least_ge / is_greatest_lt / is_min / is_max
                           "least member > p (or None iff none)" etc.

   Structure of the result.  The property text is FALSE of the code (and so of
   the faithful model) in ten input classes; each is refuted below on a
   concrete witness (…_refuted / c16_witness_…), listed in
   known_findings.d/C16.json (two further classes, vi and vii, were fixed in
   /repo by d9f1b31 and are now regression examples).  What is proved, for all values and all fuel:
     A. for every constructed sequence whatsoever: membership is the set of
        the state; get_first_point, get_next_point (p >= start - step),
        get_next_point_on_sequence, get_start_point agree with that set;
        get_prev_point / get_nearest_prev_point / get_stop_point agree with it
        when the stop point is on the grid and p <= stop + step; no query raises;
     B. for every recurrence form outside the constructor defect classes
        (sane_input): the constructor succeeds and the set of the state is
        exactly [denote]; hence all queries agree with [denote];
     C. Rn/START/END with n <> 1 is rejected for all values (defect ii). *)
From Coq Require Import List ZArith Bool Lia.
From Cylc Require Import Base.Util Model.IntSeq Proofs.IntSeqProofs.
Import ListNotations.
Local Open Scope Z_scope.

(* ------------------------------------------------------------------ *)
(* A. queries against the set of the state — any state                 *)
(* ------------------------------------------------------------------ *)

(* is_valid is membership, for every state and point *)
Theorem c16_valid_iff_state : forall s p, is_valid s p = true <-> seq_member s p.
Proof. exact is_valid_iff. Qed.

(* every state the constructor returns has a positive step or is a one-off *)
Theorem c16_constructed_regular : forall f items cs ce s,
  init f items cs ce = Ok s -> regular s.
Proof. exact init_regular. Qed.

(* get_first_point(p) = least member >= p, or None iff there is none *)
Theorem c16_state_first : forall fuel s p r,
  regular s -> get_first_point fuel s p = Ok r -> is_least_ge (seq_member s) p r.
Proof. exact first_regular. Qed.

(* get_next_point(p) = least member > p, or None iff none — for p >= start - step *)
Theorem c16_state_next : forall fuel s k p r,
  stepped s k -> c_start (s_core s) - k <= p ->
  get_next_point fuel s p = Ok r -> is_least_gt (seq_member s) p r.
Proof. exact next_stepped. Qed.

Theorem c16_state_next_oneoff : forall fuel s p r,
  oneoff s -> (p < c_start (s_core s) -> seq_member s (c_start (s_core s))) ->
  get_next_point fuel s p = Ok r -> is_least_gt (seq_member s) p r.
Proof. exact next_oneoff. Qed.

(* get_next_point_on_sequence(p), p on the grid *)
Theorem c16_state_next_on_sequence : forall fuel s k p r,
  stepped s k -> (p - c_start (s_core s)) mod k = 0 -> c_start (s_core s) - k <= p ->
  get_next_point_on_sequence fuel s p = Ok r -> is_least_gt (seq_member s) p r.
Proof. exact nos_stepped. Qed.

(* get_prev_point(p) = greatest member < p, or None iff none — when the stop
   point is on the grid and p <= stop + step *)
Theorem c16_state_prev : forall fuel s k p r,
  stepped s k -> stop_on_grid s k ->
  (forall e, c_stop (s_core s) = Some e -> p <= e + k) ->
  get_prev_point fuel s p = Ok r -> is_greatest_lt (seq_member s) p r.
Proof. exact prev_stepped. Qed.

(* get_nearest_prev_point(p): the range condition is needed only when p
   itself is on the sequence (the code then delegates to get_prev_point) *)
Theorem c16_state_nearest_prev : forall fuel s k p r,
  stepped s k -> stop_on_grid s k ->
  (is_on_sequence s p = true -> forall e, c_stop (s_core s) = Some e -> p <= e + k) ->
  get_nearest_prev_point fuel s p = Ok r -> is_greatest_lt (seq_member s) p r.
Proof. exact nprev_stepped. Qed.

Theorem c16_state_nearest_prev_oneoff : forall fuel s p r,
  oneoff s -> get_nearest_prev_point fuel s p = Ok r -> is_greatest_lt (seq_member s) p r.
Proof. exact nprev_oneoff. Qed.

(* get_start_point = least member (None iff empty), for a non-empty range *)
Theorem c16_state_start : forall fuel s r,
  regular s -> (forall e, c_stop (s_core s) = Some e -> c_start (s_core s) <= e) ->
  get_start_point fuel s = Ok r -> is_min (seq_member s) r.
Proof. exact start_regular. Qed.

(* get_stop_point = greatest member (None iff empty); None when unbounded *)
Theorem c16_state_stop : forall fuel s k e r,
  stepped s k -> stop_on_grid s k -> c_stop (s_core s) = Some e -> c_start (s_core s) <= e ->
  get_stop_point fuel s = Ok r -> is_max (seq_member s) r.
Proof. exact stop_stepped. Qed.

Theorem c16_state_stop_oneoff : forall fuel s r,
  oneoff s -> c_stop (s_core s) = Some (c_start (s_core s)) ->
  get_stop_point fuel s = Ok r -> is_max (seq_member s) r.
Proof. exact stop_oneoff. Qed.

Theorem c16_state_stop_unbounded : forall fuel s r,
  c_stop (s_core s) = None -> get_stop_point fuel s = Ok r -> r = None.
Proof. exact stop_unbounded. Qed.

(* the fuel hypothesis is discharged by an explicit bound, and no query ever
   raises (since fix d9f1b31: `None in self.exclusions` is False and
   get_nearest_prev_point no longer calls itself) *)
Theorem c16_next_fuel : forall fuel s k p e,
  stepped s k -> c_stop (s_core s) = Some e -> Z.max 0 (e - p) < Z.of_nat fuel ->
  get_next_point fuel s p <> Err EFuel.
Proof. exact next_fuel. Qed.

Theorem c16_prev_fuel : forall fuel s k p,
  stepped s k -> Z.max 0 (p - c_start (s_core s)) < Z.of_nat fuel ->
  get_prev_point fuel s p <> Err EFuel.
Proof. exact prev_fuel. Qed.

Theorem c16_next_never_raises : forall fuel s p e,
  get_next_point fuel s p = Err e -> e = EFuel.
Proof. exact next_no_error. Qed.

Theorem c16_next_on_sequence_never_raises : forall fuel s p e,
  get_next_point_on_sequence fuel s p = Err e -> e = EFuel.
Proof. exact nos_no_error. Qed.

Theorem c16_prev_never_raises : forall fuel s p e,
  get_prev_point fuel s p = Err e -> e = EFuel.
Proof. exact prev_no_error. Qed.

Theorem c16_nearest_prev_never_raises : forall fuel s p e,
  get_nearest_prev_point fuel s p = Err e -> e = EFuel.
Proof. exact nprev_no_error. Qed.

Theorem c16_stop_never_raises : forall fuel s e,
  get_stop_point fuel s = Err e -> e = EFuel.
Proof. exact stop_no_error. Qed.

(* ------------------------------------------------------------------ *)
(* B. the constructor: forms outside the defect classes denote the      *)
(*    clipped progression minus exclusions                             *)
(* ------------------------------------------------------------------ *)

(* construction succeeds; the state's set is [denote]; its bounds are the
   first/last point of the clipped progression *)
Theorem c16_constructor : forall f items cs ce sh,
  sane_input f items cs ce sh ->
  exists s, init f items cs ce = Ok s /\
            (forall p, seq_member s p <-> denote f items cs ce p) /\
            (c_start (s_core s), c_stop (s_core s)) = bounds sh cs ce.
Proof.
  intros f items cs ce sh (W & H1 & Hsh & Hsane & Hits).
  destruct (init_sane f items cs ce sh W H1 Hsh Hsane Hits) as (s & Hs & Hm & _ & Hb & _).
  exists s. auto.
Qed.

(* the context in which [denote] reads exclusion sequences, [bounds], is the
   first and last point of the clipped progression itself *)
Theorem c16_bounds_are_extremes : forall f cs ce sh,
  wf_form f -> (f_fmt f = 1 -> f_reps f = Some 1) ->
  shape_of f cs ce = Some sh -> sane sh cs ce ->
  let lo := fst (bounds sh cs ce) in
  let hi := snd (bounds sh cs ce) in
  (forall p, denote0 f cs ce p -> lo <= p /\ forall e, hi = Some e -> p <= e) /\
  ((forall e, hi = Some e -> lo <= e) ->
   denote0 f cs ce lo /\ forall e, hi = Some e -> denote0 f cs ce e).
Proof. exact bounds_extremes. Qed.

(* is_valid iff member *)
Theorem c16_valid_iff : forall f items cs ce sh s,
  sane_input f items cs ce sh -> init f items cs ce = Ok s ->
  forall p, is_valid s p = true <-> denote f items cs ce p.
Proof. exact e2e_valid. Qed.

Theorem c16_first : forall f items cs ce sh s,
  sane_input f items cs ce sh -> init f items cs ce = Ok s ->
  forall fuel p r, get_first_point fuel s p = Ok r -> is_least_ge (denote f items cs ce) p r.
Proof. exact e2e_first. Qed.

(* next: for p >= first - k (stepped); for a one-off, whenever its point is a member *)
Theorem c16_next : forall f items cs ce sh s,
  sane_input f items cs ce sh -> init f items cs ce = Ok s ->
  forall fuel p r,
    (forall k, step_of sh = Some k -> fst (bounds sh cs ce) - k <= p) ->
    (step_of sh = None -> p < fst (bounds sh cs ce) ->
     denote f items cs ce (fst (bounds sh cs ce))) ->
    get_next_point fuel s p = Ok r -> is_least_gt (denote f items cs ce) p r.
Proof. exact e2e_next. Qed.

(* prev: stepped forms, p <= last + k *)
Theorem c16_prev : forall f items cs ce sh s,
  sane_input f items cs ce sh -> init f items cs ce = Ok s ->
  forall fuel p r k,
    step_of sh = Some k -> (forall e, snd (bounds sh cs ce) = Some e -> p <= e + k) ->
    get_prev_point fuel s p = Ok r -> is_greatest_lt (denote f items cs ce) p r.
Proof. exact e2e_prev. Qed.

Theorem c16_nearest_prev : forall f items cs ce sh s,
  sane_input f items cs ce sh -> init f items cs ce = Ok s ->
  forall fuel p r,
    (forall k e, step_of sh = Some k -> snd (bounds sh cs ce) = Some e -> p <= e + k) ->
    get_nearest_prev_point fuel s p = Ok r -> is_greatest_lt (denote f items cs ce) p r.
Proof. exact e2e_nprev. Qed.

Theorem c16_next_on_sequence : forall f items cs ce sh s,
  sane_input f items cs ce sh -> init f items cs ce = Ok s ->
  forall fuel p r k,
    step_of sh = Some k -> (exists i, p = fst (bounds sh cs ce) + i * k) ->
    fst (bounds sh cs ce) - k <= p ->
    get_next_point_on_sequence fuel s p = Ok r -> is_least_gt (denote f items cs ce) p r.
Proof. exact e2e_nos. Qed.

(* start / stop are members and minimal / maximal (None iff everything is excluded) *)
Theorem c16_start : forall f items cs ce sh s,
  sane_input f items cs ce sh -> init f items cs ce = Ok s ->
  forall fuel r,
    (forall e, snd (bounds sh cs ce) = Some e -> fst (bounds sh cs ce) <= e) ->
    get_start_point fuel s = Ok r -> is_min (denote f items cs ce) r.
Proof. exact e2e_start. Qed.

Theorem c16_stop : forall f items cs ce sh s,
  sane_input f items cs ce sh -> init f items cs ce = Ok s ->
  forall fuel r e,
    snd (bounds sh cs ce) = Some e -> fst (bounds sh cs ce) <= e ->
    get_stop_point fuel s = Ok r -> is_max (denote f items cs ce) r.
Proof. exact e2e_stop. Qed.

Theorem c16_stop_unbounded : forall f items cs ce sh s,
  sane_input f items cs ce sh -> init f items cs ce = Ok s ->
  forall fuel r, snd (bounds sh cs ce) = None -> get_stop_point fuel s = Ok r -> r = None.
Proof. exact e2e_stop_unbounded. Qed.

(* ------------------------------------------------------------------ *)
(* C. the full statements, and why they are only partially provable    *)
(* ------------------------------------------------------------------ *)

(* FULL STATEMENT 1 (property text, first sentence): every well-formed form
   with interval >= 1 and repetitions >= 1 is accepted and denotes the clipped
   progression minus exclusions.  Proved part: c16_constructor/c16_valid_iff
   (hypothesis sane_input excludes the defect classes). *)
Definition c16_denote_all_forms : Prop :=
  forall f items cs ce sh,
    wf_form f -> shape_of f cs ce = Some sh -> shape_wf sh ->
    exists s, init f items cs ce = Ok s /\
              forall p, is_valid s p = true <-> denote f items cs ce p.

Lemma P3_8_denotes_2 : denote (F_Pk_E 3 (Abs 8)) None 1 (Some 10) 2.
Proof.
  apply denote_no_items. exists (Down 8 3 None). split; [reflexivity|split].
  - exists 2. repeat split; try lia. discriminate.
  - split; [lia|]. intros F [= <-]. lia.
Qed.

(* defect (i): P3/8 with context 1..10 is {1,4,7}, not {2,5,8} *)
Theorem c16_denote_all_forms_refuted : ~ c16_denote_all_forms.
Proof.
  intros H.
  destruct (H (F_Pk_E 3 (Abs 8)) None 1 (Some 10) (Down 8 3 None)) as (s & Hs & Hv).
  - split; [discriminate|reflexivity].
  - reflexivity.
  - split; [lia|discriminate].
  - vm_compute in Hs. injection Hs as <-.
    pose proof (proj2 (Hv 2) P3_8_denotes_2) as E. vm_compute in E. discriminate.
Qed.

(* ... and its get_stop_point() = 8 is not a point of the sequence *)
Example c16_witness_stop_off_sequence :
  exists s, init (F_Pk_E 3 (Abs 8)) None 1 (Some 10) = Ok s /\
            get_stop_point 5 s = Ok (Some 8) /\ is_valid s 8 = false.
Proof. eexists. split; [vm_compute; reflexivity|split; vm_compute; reflexivity]. Qed.

(* defect (ii): Rn/START/END with n <> 1 is rejected for all values *)
Theorem c16_fmt1_always_rejected : forall f cs ce n,
  f_fmt f = 1 -> f_reps f = Some n -> n <> 1 -> exists e, init_core f cs ce = Err e.
Proof. exact init_core_fmt1_rejected. Qed.

Example c16_witness_R3_0_10 :
  init (F_Rn_S_E 3 (Abs 0) (Abs 10)) None 0 (Some 20) = Err EIntervalParse /\
  shape_of (F_Rn_S_E 3 (Abs 0) (Abs 10)) 0 (Some 20) = Some (Up 0 5 (Some 3)).
Proof. split; vm_compute; reflexivity. Qed.

(* defect (iii): start clipping — 0/P3 in 1..10 contains 2 and not 3 *)
Example c16_witness_start_clip :
  exists s, init (F_S_Pk (Abs 0) 3) None 1 (Some 10) = Ok s /\
            is_valid s 2 = true /\ is_valid s 3 = false /\
            denote (F_S_Pk (Abs 0) 3) None 1 (Some 10) 3.
Proof.
  eexists. split; [vm_compute; reflexivity|]. split; [vm_compute; reflexivity|].
  split; [vm_compute; reflexivity|].
  apply denote_no_items. exists (Up 0 3 None). split; [reflexivity|split].
  - exists 1. repeat split; try lia. discriminate.
  - split; [lia|]. intros F [= <-]. lia.
Qed.

(* defect (iv): stop clipping — R5/0/P3 in 0..10 loses 9 *)
Example c16_witness_stop_clip :
  exists s, init (F_Rn_S_Pk (Some 5) (Abs 0) 3) None 0 (Some 10) = Ok s /\
            is_valid s 9 = false /\ get_stop_point 5 s = Ok (Some 8) /\
            denote (F_Rn_S_Pk (Some 5) (Abs 0) 3) None 0 (Some 10) 9.
Proof.
  eexists. split; [vm_compute; reflexivity|]. split; [vm_compute; reflexivity|].
  split; [vm_compute; reflexivity|].
  apply denote_no_items. exists (Up 0 3 (Some 5)). split; [reflexivity|split].
  - exists 3. repeat split; try lia. intros m [= <-]. lia.
  - split; [lia|]. intros F [= <-]. lia.
Qed.

(* defect (v): one-off points are not clipped — R1/0 with initial point 1 *)
Example c16_witness_oneoff_unclipped :
  exists s, init (F_R1_S (Some 1) (Abs 0)) None 1 (Some 10) = Ok s /\
            is_valid s 0 = true /\ ~ denote (F_R1_S (Some 1) (Abs 0)) None 1 (Some 10) 0.
Proof.
  eexists. split; [vm_compute; reflexivity|]. split; [vm_compute; reflexivity|].
  intros [(sh & _ & _ & Hc & _) _]. lia.
Qed.

(* FULL STATEMENT 2 (property text, second sentence): every query agrees with
   the set, for every query point.  Proved part: section A (range conditions;
   conditional on the call returning; "never raises" is proved there in full). *)
Definition c16_queries_all_points : Prop :=
  forall f items cs ce s fuel p,
    init f items cs ce = Ok s ->
    (forall r, get_next_point fuel s p = Ok r -> is_least_gt (seq_member s) p r) /\
    (forall r, get_prev_point fuel s p = Ok r -> is_greatest_lt (seq_member s) p r) /\
    (forall r, get_nearest_prev_point fuel s p = Ok r -> is_greatest_lt (seq_member s) p r) /\
    (forall r, get_start_point fuel s = Ok r -> is_min (seq_member s) r) /\
    (forall r, get_stop_point fuel s = Ok r -> is_max (seq_member s) r \/ c_stop (s_core s) = None).

(* defect (viii): P3 in 1..10, get_next_point(-5) = None although 1 > -5 is a member *)
Theorem c16_queries_all_points_refuted : ~ c16_queries_all_points.
Proof.
  intros H.
  destruct (H (F_Pk 3) None 1 (Some 10) _ 5%nat (-5) eq_refl) as (Hn & _).
  specialize (Hn None eq_refl). cbn in Hn.
  assert (Hm : seq_member {| s_core := {| c_start := 1; c_stop := Some 10; c_step := Some 3 |};
                            s_excl := None |} 1).
  { apply is_valid_iff. vm_compute. reflexivity. }
  specialize (Hn 1 Hm). lia.
Qed.

(* the other query-level defects, each on a state built by the constructor *)
(* (ix) get_prev_point / get_nearest_prev_point beyond stop + step: P3 in 1..10 at 16 *)
Example c16_witness_prev_far_above :
  exists s, init (F_Pk 3) None 1 (Some 10) = Ok s /\ is_valid s 10 = true /\
            get_prev_point 9 s 16 = Ok None /\ get_nearest_prev_point 9 s 16 = Ok None.
Proof. eexists. repeat split; vm_compute; reflexivity. Qed.

(* (x) get_prev_point on a one-off: R1/5, get_prev_point(6) = None *)
Example c16_witness_prev_oneoff :
  exists s, init (F_R1_S (Some 1) (Abs 5)) None 1 (Some 10) = Ok s /\ is_valid s 5 = true /\
            get_prev_point 9 s 6 = Ok None.
Proof. eexists. repeat split; vm_compute; reflexivity. Qed.

(* (xi) get_next_point on a one-off returns the excluded point: R1!1 *)
Example c16_witness_next_oneoff_excluded :
  exists s, init F_R1 (Some [XP 1]) 1 (Some 10) = Ok s /\ is_valid s 1 = false /\
            get_next_point 9 s 0 = Ok (Some 1).
Proof. eexists. repeat split; vm_compute; reflexivity. Qed.

(* (vi), FIXED by d9f1b31 — was TypeError through `None in self.exclusions`;
   regression examples: P1!P2 in 1..10 now answers None where nothing is left *)
Example c16_regress_prev_none_lookup :
  exists s, init (F_Pk 1) (Some [XS (F_Pk 2)]) 1 (Some 10) = Ok s /\
            get_prev_point 9 s 2 = Ok None /\ get_nearest_prev_point 9 s 0 = Ok None /\
            get_prev_point 9 s 5 = Ok (Some 4).
Proof. eexists. repeat split; vm_compute; reflexivity. Qed.

Example c16_regress_stop_none_lookup :
  exists s, init (F_Pk 1) (Some [XS (F_Pk 2)]) 1 None = Ok s /\ get_stop_point 9 s = Ok None.
Proof. eexists. repeat split; vm_compute; reflexivity. Qed.

(* (vii), FIXED by d9f1b31 — was unbounded self-recursion of
   get_nearest_prev_point at an excluded start point *)
Example c16_regress_nprev_excluded_start :
  exists s, init (F_Pk 1) (Some [XS (F_Pk 2)]) 1 (Some 10) = Ok s /\
            get_nearest_prev_point 9 s 1 = Ok None.
Proof. eexists. repeat split; vm_compute; reflexivity. Qed.

(* (xii) start/stop of an empty sequence are stale, not None: 5/P1 in 2..2 *)
Example c16_witness_empty_bounds :
  exists s, init (F_S_Pk (Abs 5) 1) None 2 (Some 2) = Ok s /\
            get_start_point 9 s = Ok (Some 5) /\ get_stop_point 9 s = Ok (Some 2) /\
            is_valid s 5 = false /\ is_valid s 2 = false.
Proof. eexists. repeat split; vm_compute; reflexivity. Qed.

(* ------------------------------------------------------------------ *)
(* non-vacuity: the hypotheses of part B hold on realistic inputs       *)
(* ------------------------------------------------------------------ *)
(* 1/P2 ! (5, P4) with context 1..10 : {1,3,5,7,9} minus 5 minus {1,5,9} = {3,7} *)
Example c16_sane_example :
  sane_input (F_S_Pk (Abs 1) 2) (Some [XP 5; XS (F_Pk 4)]) 1 (Some 10) (Up 1 2 None).
Proof.
  split; [split; [reflexivity|discriminate]|]. split; [discriminate|].
  split; [reflexivity|]. split; [cbn; repeat split; try lia; discriminate|].
  intros its it [= <-] [<-|[<-|[]]]; [exact I|].
  split; [split; [reflexivity|discriminate]|]. split; [discriminate|].
  exists (Up 1 4 None). split; [reflexivity|]. cbn. split; [lia|split; [lia|intros m [=]]].
Qed.

Example c16_sane_example_run :
  exists s, init (F_S_Pk (Abs 1) 2) (Some [XP 5; XS (F_Pk 4)]) 1 (Some 10) = Ok s /\
            map (is_valid s) [1; 3; 5; 7; 9] = [false; true; false; true; false] /\
            get_start_point 9 s = Ok (Some 3) /\ get_stop_point 9 s = Ok (Some 7) /\
            get_next_point 9 s 3 = Ok (Some 7) /\ get_prev_point 9 s 7 = Ok (Some 3).
Proof. eexists. repeat split; vm_compute; reflexivity. Qed.

(* R5/P2/10 ! 6 with context 1..10 : {2,4,8,10}, every query as documented *)
Example c16_sane_example2 :
  sane_input (F_Rn_Pk_E (Some 5) 2 (Abs 10)) (Some [XP 6]) 1 (Some 10) (Down 10 2 (Some 5)).
Proof.
  split; [split; [discriminate|reflexivity]|]. split; [discriminate|].
  split; [reflexivity|]. split; [cbn; repeat split; try lia; intros F [= <-]; lia|].
  intros its it [= <-] [<-|[]]. exact I.
Qed.

Example c16_sane_example2_run :
  exists s, init (F_Rn_Pk_E (Some 5) 2 (Abs 10)) (Some [XP 6]) 1 (Some 10) = Ok s /\
            map (is_valid s) [2; 4; 6; 8; 10; 12] = [true; true; false; true; true; false] /\
            get_next_point 9 s 4 = Ok (Some 8) /\ get_prev_point 9 s 8 = Ok (Some 4) /\
            get_first_point 9 s 5 = Ok (Some 8) /\ get_nearest_prev_point 9 s 7 = Ok (Some 4) /\
            get_start_point 9 s = Ok (Some 2) /\ get_stop_point 9 s = Ok (Some 10).
Proof. eexists. repeat split; vm_compute; reflexivity. Qed.
