From Coq Require Import List ZArith Bool Lia.
From Cylc Require Import Base.Util Model.IntSeq Proofs.IntSeqProofs.
Theorem c16_placeholder : True. Proof. exact I. Qed.
