(* Props/C08.v — C08 "Flow numbers propagate, merge and are never reused" — the
   FlowMgr part.  Model: Model/Flow.v (hand model of FlowMgr + the workflow_flows
   table), tied to the real FlowMgr on a real sqlite DB by the "flowmgr" stream.
   Property text (this part): "A new flow started by command always gets a number
   never used before in the workflow's history, including across restarts";
   "children ... carry that task's flow numbers (merged into any existing
   instance, which then belongs to the union)".
   Histories: any list of get_flow(new | n) / cli_to_flow_nums / process_queued_ops /
   clean restart with load_from_db(any selection). *)
From Coq Require Import List Bool ZArith Lia.
From Cylc Require Import Base.Util Model.Flow Model.FlowCmd Proofs.FlowProofs Proofs.FlowCmdProofs.
Import ListNotations.
Open Scope Z_scope.

(* [used st] = every flow number recorded so far (queued or in the table). *)

(* The main theorem.  After ANY history [pre] from a fresh workflow, a number n
   handed out for a new flow (get_flow() or --flow=new) is not recorded anywhere
   and was not returned by any earlier call (new or given, before or after any
   number of restarts). *)
Theorem c08_new_flow_fresh : forall pre o st obs_pre st' n,
  frun f_init pre = (st, obs_pre) ->
  is_new o = true -> fstep st o = (st', ObNums [n]) ->
  ~ In n (used st) /\ (forall ob, In ob obs_pre -> ~ In n (obs_nums ob)).
Proof. exact new_flow_never_used_before. Qed.

(* The invariant behind it: every recorded number is <= counter or a key of
   FlowMgr.flows, and every key of .flows is recorded; it holds initially and is
   kept by every operation, restarts included; recorded numbers are never
   forgotten; every returned number is recorded; the skip loop never runs out of
   the fuel the model gives it. *)
Theorem c08_invariant_init : Inv f_init.
Proof. exact Inv_init. Qed.

Theorem c08_invariant_step : forall st o st' ob,
  fstep st o = (st', ob) -> Inv st ->
  Inv st' /\ grows st st' /\ (forall x, In x (obs_nums ob) -> In x (used st')) /\ ob <> ObFuel.
Proof. exact fstep_inv. Qed.

Theorem c08_invariant_all_histories : forall ops st' obs,
  frun f_init ops = (st', obs) ->
  Inv st' /\ (forall ob x, In ob obs -> In x (obs_nums ob) -> In x (used st')) /\ ~ In ObFuel obs.
Proof.
  intros ops st' obs E. destruct (frun_inv _ _ _ _ E Inv_init) as (H1 & _ & H3 & H4). auto.
Qed.

(* freshness as a one-step statement (any state satisfying the invariant) *)
Theorem c08_new_flow_fresh_step : forall st o st' n,
  is_new o = true -> fstep st o = (st', ObNums [n]) -> Inv st -> ~ In n (used st).
Proof. exact fstep_new_fresh. Qed.

(* across a restart nothing recorded is lost, and the counter dominates it:
   the next new number is above everything ever recorded *)
Theorem c08_restart_keeps_history : forall st sel,
  Inv st -> Inv (restart st sel) /\ grows st (restart st sel).
Proof. exact restart_inv. Qed.

Theorem c08_after_restart_counter_dominates : forall st sel c,
  f_counter (restart st sel) = Some c -> forall r, In r (used st) -> r <= c.
Proof.
  intros st sel c Hc r Hr. unfold restart in Hc. cbn in Hc.
  eapply zmax_list_ge; [exact Hc|]. apply zunion_In. unfold used in Hr. apply in_app_iff in Hr. tauto.
Qed.

(* the only way get_flow(new) does not return a number: counter = None, i.e. a
   restart found the workflow_flows table empty (MAX() is NULL) — recorded as an
   assumption (a restarted workflow has at least flow 1), not a reuse *)
Theorem c08_new_fails_only_without_counter : forall st st',
  Inv st -> fstep st (OGet None) = (st', ObTypeError) -> f_counter st = None.
Proof.
  intros st st' Hi. cbn [fstep]. destruct (get_flow st None) as [st1 r] eqn:E.
  pose proof (get_flow_new _ _ _ E Hi) as H. destruct r; try discriminate. tauto.
Qed.

(* ---- merging (list level) ---- *)
(* when a flow reaches an existing instance (or a child is spawned), the
   instance's flow numbers become exactly the union: a superset of the parent's
   and of its own previous ones, and nothing else *)
Theorem c08_merge_is_union : forall mine other x,
  In x (flow_union mine other) <-> In x mine \/ In x other.
Proof. exact flow_union_In. Qed.

Theorem c08_children_carry_flows : forall child_before parent x,
  In x parent -> In x (flow_union child_before parent).
Proof. intros c p x H. apply flow_union_In. now right. Qed.

(* ---- outputs set by command: `cylc set --flow=F --out=O t` (Model/FlowCmd.v) ---- *)
(* Property text: "Children spawned by a task carry that task's flow numbers
   (merged into any existing instance, which then belongs to the union)", for the
   outputs completed by a `set` command on a pooled (or inactive) task.
   [resolve] gives F, the command's flow numbers; [target_flows] the flows of t
   when its outputs are set; [child_effect] what spawn_on_output then does to each
   graph child of those outputs.  The correspondence stream "flowcmd" checks on
   the real Scheduler that t ends with [target_flows] and that EVERY child effect of
   the command was made with exactly these flows. *)

(* F: --flow=none -> nothing; --flow=N.. -> those numbers; default -> all active
   flows (the union of the pooled tasks' flows, else the fallback) *)
Theorem c08_set_flows_of_command : forall st pool fb st' f,
  (resolve st CNone pool fb = (st', Some f) -> f = []) /\
  (forall l x, l <> [] -> resolve st (CNums l) pool fb = (st', Some f) -> (In x f <-> In x l)) /\
  (resolve st (CNums []) pool fb = (st', Some f) -> f = active_flows pool fb).
Proof.
  intros st pool fb st' f. split; [|split].
  - intros H. now destruct (resolve_none _ _ _ _ _ H).
  - intros l x Hl H. exact (resolve_nums _ _ _ _ _ _ x Hl H).
  - intros H. now destruct (resolve_default _ _ _ _ _ H).
Qed.

(* --flow=new: F is one number that is recorded nowhere and in no pooled task's
   flows (given that pooled tasks only carry numbers handed out by the FlowMgr) *)
Theorem c08_set_new_flow_fresh : forall st pool fb st' f,
  resolve st CNew pool fb = (st', Some f) -> Inv st ->
  (forall fl x, In fl pool -> In x fl -> In x (used st)) ->
  exists n, f = [n] /\ ~ In n (used st) /\ (forall fl, In fl pool -> ~ In n fl) /\ Inv st' /\ In n (used st').
Proof. exact resolve_new_fresh. Qed.

(* after the command a pooled target belongs to old ∪ F (an inactive one to F);
   the only case in which nothing happens: --flow=none on a pooled task with flows *)
Theorem c08_set_target_flows : forall old c f t' x,
  (target_flows true old c f = Some t' -> (In x t' <-> In x old \/ In x f)) /\
  (target_flows false old c f = Some t' -> (In x t' <-> In x f)) /\
  (target_flows true old c f = None <-> c = CNone /\ old <> []).
Proof.
  intros old c f t' x. split; [|split].
  - apply target_flows_pooled.
  - apply target_flows_inactive.
  - apply target_flows_skipped.
Qed.

(* every child of the completed outputs is handed exactly the target's NEW flows
   t' and afterwards carries a superset of them: a fresh child t', a child already
   in the pool the union of its own flows and t' *)
Theorem c08_set_children_carry_flows : forall t' before arg after,
  child_effect t' before = (arg, after) ->
  arg = t' /\
  (forall x, In x t' -> In x after) /\
  (forall x, In x after <-> In x t' \/ exists b, before = Some b /\ In x b).
Proof. exact child_effect_spec. Qed.

(* put together for --flow=new on a pooled task: the children carry old ∪ {n}, n fresh *)
Theorem c08_set_new_on_pooled_task : forall st pool fb st' f old t' before arg after,
  resolve st CNew pool fb = (st', Some f) -> Inv st ->
  (forall fl x, In fl pool -> In x fl -> In x (used st)) ->
  target_flows true old CNew f = Some t' ->
  child_effect t' before = (arg, after) ->
  exists n, ~ In n (used st) /\ (forall fl, In fl pool -> ~ In n fl) /\
            In n after /\ (forall x, In x old -> In x after).
Proof.
  intros st pool fb st' f old t' before arg after Hr Hi Hp Ht Hc.
  destruct (resolve_new_fresh _ _ _ _ _ Hr Hi Hp) as (n & -> & H1 & H2 & _).
  destruct (child_effect_spec _ _ _ _ Hc) as (_ & Hsup & _).
  exists n. split; [exact H1|]. split; [exact H2|]. split.
  - apply Hsup. apply (target_flows_pooled _ _ _ _ n Ht). right. now left.
  - intros x Hx. apply Hsup. apply (target_flows_pooled _ _ _ _ x Ht). now left.
Qed.

(* ---- non-vacuity ---- *)
(* 1, 2, manual 7, restart selecting only flow 1 (7 not loaded into .flows),
   new -> 8 (not 3..7), manual 3, restart, new -> 9 *)
Example c08_ex_history :
  snd (frun f_init [OGet None; OGet None; OGet (Some 7); ORestart [1]; OGet None;
                    OGet (Some 3); ORestart []; OCli CNew])
  = [ObNums [1]; ObNums [2]; ObNums [7]; ObUnit; ObNums [8]; ObNums [3]; ObUnit; ObNums [9]].
Proof. vm_compute. reflexivity. Qed.

Example c08_ex_skip : snd (frun f_init [OGet (Some 1); OGet (Some 2); OGet None]) = [ObNums [1]; ObNums [2]; ObNums [3]].
Proof. vm_compute. reflexivity. Qed.

(* the seeded scenario: a & b => c, b => d; flows: b {1}, c {1} pooled; set --flow=new --out=succeeded 1/b:
   b ends {1,2}; d spawned with {1,2}; c merged to {1,2} *)
Example c08_ex_set_new :
  check_cmd {| k_counter := Some 1; k_flowkeys := [1]; k_cli := CNew; k_pool := [[1]; [1]]; k_fallback := [];
               k_pooled := true; k_old := [1]; k_loaded := false; k_counter_after := Some 2; k_ran := true;
               k_target_after := [1; 2];
               k_effects := [ {| eo_before := None; eo_arg := [1; 2]; eo_after := Some [1; 2] |};
                              {| eo_before := Some [1]; eo_arg := [1; 2]; eo_after := Some [1; 2] |} ] |} = true.
Proof. vm_compute. reflexivity. Qed.

(* ... and the swapped order (children spawned with the OLD flows) is rejected *)
Example c08_ex_set_new_swapped_rejected :
  check_cmd {| k_counter := Some 1; k_flowkeys := [1]; k_cli := CNew; k_pool := [[1]; [1]]; k_fallback := [];
               k_pooled := true; k_old := [1]; k_loaded := false; k_counter_after := Some 2; k_ran := true;
               k_target_after := [1; 2];
               k_effects := [ {| eo_before := None; eo_arg := [1]; eo_after := Some [1] |} ] |} = false.
Proof. vm_compute. reflexivity. Qed.
