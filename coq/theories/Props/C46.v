(* Props/C46.v — C46 "Warm starts and start tasks run only what follows the start".
   In the pool automaton the configuration carries the start point [c_start];
   in the instance graph every dependency of an instance at or after the start
   point on an instance before it is marked pre-satisfied (like pre-initial ones). *)
From Coq Require Import List Bool ZArith.
From Cylc Require Import Base.Util Model.Pool Proofs.PoolProofs Proofs.PoolTheorems Props.C01.
Import ListNotations.
Open Scope Z_scope.

(* No task instance before the start point is ever spawned ... *)
Theorem c46_nothing_spawned_before_start_point : forall c s t fl sat0 held s',
  step c s (ESpawn t fl sat0 held) = Ok s' -> c_start c <= fst t.
Proof. exact nothing_spawned_before_start_point. Qed.

(* ... and a submission needs every prerequisite expression true over outputs
   really completed in the run or atoms marked pre-satisfied (pre-initial, or
   before the start point): dependencies on instances before the start point
   count as satisfied, and nothing else does. *)
Theorem c46_submit_needs_only_post_start_outputs : forall c tr1 tr2 t sn sf,
  exec c (init_state c) (tr1 ++ ESubmit t sn :: tr2) = Some sf ->
  exists s1 p i,
    exec c (init_state c) tr1 = Some s1 /\
    find_task (pool s1) t = Some p /\ find_inst (c_insts c) t = Some i /\
    valid_id c t /\ p_status p = Preparing /\
    (p_manual p = true \/
     forall e, In e (i_pre i) ->
       bx_holds (fun k => emitted tr1 k \/ In k (p_forced p)) e).
Proof. exact submit_only_when_satisfied. Qed.

(* Start tasks (--start-task) are not modelled: partial. *)

Example c46_ex_pre_start_spawn_rejected :
  run {| c_insts := c_insts C01.ex_cfg; c_points := [1; 2]; c_runahead := 1%nat; c_qlimits := [0%nat];
         c_icp := 1; c_fcp := 2; c_start := 2; c_future := [] |}
      [ESpawn C01.a [1%nat] [] false] = Some (0%nat, 106%nat).
Proof. vm_compute. reflexivity. Qed.
