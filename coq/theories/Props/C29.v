(* Props/C29.v — C29 "Manually set outputs behave like naturally completed outputs".
   Pool automaton: a forced status change is EStateForced, a forced prerequisite
   EForceSat; forced outputs are ordinary EOutput events, so everything
   downstream of a set output goes through the same ESpawn / ESat / EAdd
   events -- and the same checks -- as for a natural output. *)
From Coq Require Import List Bool ZArith.
From Cylc Require Import Base.Util Model.Pool Proofs.PoolProofs Proofs.PoolTheorems Props.C01.
Import ListNotations.

(* A forced change never puts the task into the submitted or running state. *)
Theorem c29_never_submitted_or_running_by_force : forall c s t st h q r s' p inp,
  step c s (EStateForced t st h q r) = Ok s' -> lookup s t = Some (p, inp) ->
  st <> Submitted /\ st <> Running.
Proof. exact forced_state_never_active. Qed.

(* Children of a (set or natural) output get exactly the matching prerequisite
   atoms satisfied, and only by outputs that were really completed. *)
Theorem c29_children_satisfied_exactly : forall c s t msgs new s' p inp i,
  step c s (ESat t msgs new) = Ok s' -> lookup s t = Some (p, inp) -> find_inst (c_insts c) t = Some i ->
  (forall k, In k msgs -> In k (done s)) /\
  (forall k, In k new <-> (exists pre, In (k, pre) (inst_keys i) /\ pre = false) /\ In k msgs /\ sat_of p k = false).
Proof. exact sat_exact. Qed.

(* Setting prerequisites satisfies only prerequisites the task actually has. *)
Theorem c29_set_prereqs_only_own : forall c s t keys s' p inp i,
  step c s (EForceSat t keys) = Ok s' -> lookup s t = Some (p, inp) -> find_inst (c_insts c) t = Some i ->
  forall k, In k keys -> exists pre, In (k, pre) (inst_keys i).
Proof. exact force_sat_only_own_prerequisites. Qed.

(* Once all prerequisites are satisfied -- naturally or by force -- the task
   may be queued and run like any other: the readiness test counts forced
   atoms as satisfied. *)
Theorem c29_forced_atoms_count_as_satisfied : forall p k,
  sat_of p k = true <-> In k (p_sat p) \/ In k (p_forced p).
Proof. exact sat_of_spec. Qed.

(* The safety invariant of the pool holds across set commands too. *)
Theorem c29_invariant_with_commands : forall c tr s,
  exec c (init_state c) tr = Some s -> Inv c s.
Proof. exact reachable_Inv. Qed.

(* "marks the implied earlier outputs complete" and "with no outputs given
   completes the required outputs plus submitted, started, succeeded" are
   task-level facts (C09 c09_implied, C12 skip outputs) and are checked on
   every set command by the C29 oracle: partial here. *)

Example c29_ex_forced_running_rejected :
  run C01.ex_cfg [ ESpawn C01.a [1%nat] [] false; EAdd C01.a;
                   EStateForced C01.a Running false false false ] = Some (2%nat, 291%nat).
Proof. vm_compute. reflexivity. Qed.
