(* Base/Util.v — small library shared by every model: no cylc content. *)
From Coq Require Import List Bool Arith ZArith String Ascii Lia.
Import ListNotations.

(* ---- correspondence plumbing: indices of the cases on which [f] is false ---- *)
Fixpoint bad_indices_from {A} (f : A -> bool) (i : nat) (l : list A) : list nat :=
  match l with
  | [] => []
  | x :: r => if f x then bad_indices_from f (S i) r
              else i :: bad_indices_from f (S i) r
  end.
Definition bad_indices {A} (f : A -> bool) (l : list A) : list nat :=
  bad_indices_from f 0 l.

Lemma bad_indices_from_nil {A} (f : A -> bool) l i :
  bad_indices_from f i l = [] <-> forallb f l = true.
Proof.
  revert i; induction l as [|x r IH]; intros i; cbn; [tauto|].
  destruct (f x); cbn; [apply IH|]. split; discriminate.
Qed.

(* ---- decidable equalities as booleans ---- *)
Definition string_eqb := String.eqb.

Fixpoint list_eqb {A} (eqb : A -> A -> bool) (a b : list A) : bool :=
  match a, b with
  | [], [] => true
  | x :: a', y :: b' => eqb x y && list_eqb eqb a' b'
  | _, _ => false
  end.

Lemma list_eqb_spec {A} (eqb : A -> A -> bool)
  (H : forall x y, eqb x y = true <-> x = y) a b :
  list_eqb eqb a b = true <-> a = b.
Proof.
  revert b; induction a as [|x a IH]; destruct b as [|y b]; cbn;
    try (split; [discriminate|intros E; inversion E]); [tauto|].
  rewrite andb_true_iff, H, IH. split; [intros [-> ->]; reflexivity|].
  intros E; inversion E; auto.
Qed.

Definition option_eqb {A} (eqb : A -> A -> bool) (a b : option A) : bool :=
  match a, b with
  | None, None => true
  | Some x, Some y => eqb x y
  | _, _ => false
  end.

Definition pair_eqb {A B} (ea : A -> A -> bool) (eb : B -> B -> bool)
  (a b : A * B) : bool := ea (fst a) (fst b) && eb (snd a) (snd b).

(* ---- list helpers ---- *)
Fixpoint mem {A} (eqb : A -> A -> bool) (x : A) (l : list A) : bool :=
  match l with [] => false | y :: r => eqb x y || mem eqb x r end.

Lemma mem_In {A} (eqb : A -> A -> bool)
  (H : forall x y, eqb x y = true <-> x = y) x l :
  mem eqb x l = true <-> In x l.
Proof.
  induction l as [|y r IH]; cbn; [split; [discriminate|tauto]|].
  rewrite orb_true_iff, IH, H. split; intros [E|E]; auto.
Qed.

Fixpoint dedup {A} (eqb : A -> A -> bool) (l : list A) : list A :=
  match l with
  | [] => []
  | x :: r => if mem eqb x r then dedup eqb r else x :: dedup eqb r
  end.

Fixpoint assoc {A B} (eqb : A -> A -> bool) (k : A) (l : list (A * B)) : option B :=
  match l with
  | [] => None
  | (k', v) :: r => if eqb k k' then Some v else assoc eqb k r
  end.

Definition sum_nat (l : list nat) : nat := fold_right Nat.add 0 l.

Fixpoint count_true {A} (f : A -> bool) (l : list A) : nat :=
  match l with [] => 0 | x :: r => (if f x then 1 else 0) + count_true f r end.

(* insertion sort on Z / on keys — used for canonical forms *)
Fixpoint insert_by {A} (leb : A -> A -> bool) (x : A) (l : list A) : list A :=
  match l with
  | [] => [x]
  | y :: r => if leb x y then x :: l else y :: insert_by leb x r
  end.
Definition sort_by {A} (leb : A -> A -> bool) (l : list A) : list A :=
  fold_right (insert_by leb) [] l.
