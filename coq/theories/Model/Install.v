(* Model/Install.v — executable model of run-directory numbering for one
   workflow directory ~/cylc-run/<name> (C48):
     cylc/flow/install.py   install_workflow, get_run_dir_info, unlink_runN,
                            link_runN, detect_flow_exists, check_nested_dirs,
                            reinstall_workflow (via scripts/reinstall.reinstall_cli)
     cylc/flow/pathutil.py  get_next_rundir_number
     cylc/flow/clean.py     init_clean/clean: removal of the run dir + the
                            "tidy up" of runN, _cylc-install and empty parents.
   The workflow directory is an abstract small tree:
     run<k>/        numbered run dirs, each with a content stamp
     runN -> run<t> symlink (may dangle after a manual rm -rf)
     <name>/        named run dirs (--run-name), each with a content stamp
     flow.cylc      when the workflow dir itself is the run dir (--no-run-name)
     _cylc-install/source -> source dir id
   The content stamp of a run dir is the id of the install/reinstall that last
   wrote it (the harness puts a fresh stamp file in the source before every
   operation), so "overwritten" is observable.
   Hand model, tied to the source by the C48 correspondence stream. *)
From Coq Require Import List NArith Bool Arith.
From Cylc Require Import Base.Util.
Import ListNotations.

Record st := {
  numbered : list (N * nat);   (* run number, content stamp *)
  runN : option N;             (* target number of the runN symlink *)
  named : list (nat * nat);    (* run-name index, content stamp *)
  flat : option nat;           (* content stamp if the workflow dir is itself a run dir *)
  source : option nat          (* _cylc-install/source -> source dir id *)
}.

Definition empty : st :=
  {| numbered := []; runN := None; named := []; flat := None; source := None |}.

Inductive target := TNum (k : N) | TName (j : nat) | TRunN | TAll.

Inductive op :=
  | Install (src c : nat)                 (* cylc install            (numbered run) *)
  | InstallNamed (j src c : nat)          (* cylc install --run-name=<name j> *)
  | InstallFlat (src c : nat)             (* cylc install --no-run-name *)
  | Reinstall (t : target) (c : nat)      (* cylc reinstall <wf>/<t>; TAll = the flat run dir *)
  | Clean (t : target)                    (* cylc clean <wf>/<t>;   TAll = cylc clean <wf> *)
  | RmRunN                                (* user: rm <wf>/runN *)
  | RmRun (k : N).                        (* user: rm -rf <wf>/run<k> *)

Inductive outcome :=
  | Ok
  | ENamedExist      (* "contains an installed workflow. Use --run-name" *)
  | ENumberedExist   (* "--run-name option not allowed ... numbered runs" *)
  | ENested          (* "Nested run directories not allowed" *)
  | EExists          (* "already exists" *)
  | ESource          (* "previous installations were from" — raised AFTER the run dir was made *)
  | EReserved        (* run name is reserved (runN, run<number>, log, ...) *)
  | ENotInstalled    (* reinstall: "is not an installed workflow" *)
  | EBadLink.        (* clean <wf>/runN with a dangling runN: get_symlink_dirs "Invalid symlink" *)

Definition nums (s : st) : list N := map fst (numbered s).
Definition names (s : st) : list nat := map fst (named s).
Definition maxnum (s : st) : N := fold_right N.max 0%N (nums s).
Definition has_num (s : st) (k : N) : bool := mem N.eqb k (nums s).
Definition has_name (s : st) (j : nat) : bool := mem Nat.eqb j (names s).
Definition is_nil {A} (l : list A) : bool := match l with [] => true | _ => false end.
Definition is_some {A} (o : option A) : bool := match o with Some _ => true | None => false end.

(* the workflow directory exists on disk *)
Definition dir_exists (s : st) : bool :=
  negb (is_nil (numbered s)) || is_some (runN s) || negb (is_nil (named s))
  || is_some (flat s) || is_some (source s).

(* pathutil.get_next_rundir_number: if runN exists (i.e. its target exists)
   take the number in its target, else the highest run<k> name; plus one *)
Definition next_num (s : st) : N :=
  match runN s with
  | Some t => if has_num s t then N.succ t else N.succ (maxnum s)
  | None => N.succ (maxnum s)
  end.

Definition set_runN (s : st) (r : option N) : st :=
  {| numbered := numbered s; runN := r; named := named s; flat := flat s; source := source s |}.

(* the tail of install_workflow, after the run dir has been created: the
   _cylc-install/source link is created, or compared with the source given *)
Definition finish_install (s : st) (src : nat) : st * outcome :=
  match source s with
  | None =>
      ({| numbered := numbered s; runN := runN s; named := named s; flat := flat s;
          source := Some src |}, Ok)
  | Some s0 => if Nat.eqb s0 src then (s, Ok) else (s, ESource)
  end.

Definition reserved_name (j : nat) : bool := 100 <=? j.

Definition install (s : st) (src c : nat) : st * outcome :=
  (* get_run_dir_info, numbered branch *)
  let k := next_num s in
  if negb (is_nil (named s)) then (s, ENamedExist)          (* detect_flow_exists(.., False) *)
  else
    let s1 := set_runN s None in                             (* unlink_runN *)
    if is_some (flat s1) then (s1, ENested)                  (* check_nested_dirs *)
    else if has_num s1 k then (s1, EExists)                  (* rundir.exists() *)
    else
      let s2 := {| numbered := numbered s1 ++ [(k, c)];      (* mkdir + rsync *)
                   runN := Some k;                           (* link_runN *)
                   named := named s1; flat := flat s1; source := source s1 |} in
      finish_install s2 src.

Definition install_named (s : st) (j src c : nat) : st * outcome :=
  if reserved_name j then (s, EReserved)                     (* validate_workflow_name *)
  else if negb (is_nil (numbered s)) then (s, ENumberedExist) (* detect_flow_exists(.., True) *)
  else if is_some (flat s) then (s, ENested)
  else if has_name s j then (s, EExists)
  else
    finish_install
      {| numbered := numbered s; runN := runN s; named := named s ++ [(j, c)];
         flat := flat s; source := source s |} src.

Definition install_flat (s : st) (src c : nat) : st * outcome :=
  if dir_exists s then (s, EExists)
  else
    finish_install
      {| numbered := numbered s; runN := runN s; named := named s; flat := Some c;
         source := source s |} src.

Definition restamp {K} (eqb : K -> K -> bool) (k : K) (c : nat) (l : list (K * nat)) :=
  map (fun e => if eqb (fst e) k then (k, c) else e) l.

Definition reinstall (s : st) (t : target) (c : nat) : st * outcome :=
  match t with
  | TNum k =>
      if negb (has_num s k) then (s, ENotInstalled)
      else if is_some (flat s) then (s, ENested)
      else ({| numbered := restamp N.eqb k c (numbered s); runN := runN s; named := named s;
               flat := flat s; source := source s |}, Ok)
  | TName j =>
      if negb (has_name s j) then (s, ENotInstalled)
      else if is_some (flat s) then (s, ENested)
      else ({| numbered := numbered s; runN := runN s; named := restamp Nat.eqb j c (named s);
               flat := flat s; source := source s |}, Ok)
  | TAll =>
      match flat s with
      | Some _ => ({| numbered := numbered s; runN := runN s; named := named s;
                      flat := Some c; source := source s |}, Ok)
      | None => (s, ENotInstalled)
      end
  | TRunN => (s, ENotInstalled)     (* not generated *)
  end.

Definition remove_key {K} (eqb : K -> K -> bool) (k : K) (l : list (K * nat)) :=
  filter (fun e => negb (eqb (fst e) k)) l.

(* clean(): "Remove _cylc-install if it's the only thing left" + remove_empty_parents *)
Definition tidy (s : st) : st :=
  if is_nil (numbered s) && negb (is_some (runN s)) && is_nil (named s) && negb (is_some (flat s))
  then empty else s.

Definition clean_num (s : st) (k : N) : st :=
  if has_num s k then
    tidy {| numbered := remove_key N.eqb k (numbered s);
            (* "Remove `runN` symlink if it's now broken" *)
            runN := match runN s with
                    | Some t => if N.eqb t k then None else Some t
                    | None => None
                    end;
            named := named s; flat := flat s; source := source s |}
  else s.   (* "No directory to clean" *)

Definition clean (s : st) (t : target) : st :=
  match t with
  | TNum k => clean_num s k
  | TName j =>
      if has_name s j then
        tidy {| numbered := numbered s; runN := runN s; named := remove_key Nat.eqb j (named s);
                flat := flat s; source := source s |}
      else s
  | TRunN =>
      match runN s with
      | None => s
      | Some t =>
          if has_num s t then clean_num s t          (* infer_latest_run resolves the link *)
          else s    (* dangling: get_symlink_dirs takes runN for the run dir and refuses *)
      end
  | TAll => empty                                     (* the whole workflow dir goes *)
  end.

Definition clean_outcome (s : st) (t : target) : outcome :=
  match t, runN s with
  | TRunN, Some k => if has_num s k then Ok else EBadLink
  | _, _ => Ok
  end.

Definition step (s : st) (o : op) : st * outcome :=
  match o with
  | Install src c => install s src c
  | InstallNamed j src c => install_named s j src c
  | InstallFlat src c => install_flat s src c
  | Reinstall t c => reinstall s t c
  | Clean t => (clean s t, clean_outcome s t)
  | RmRunN => (set_runN s None, Ok)
  | RmRun k =>
      ({| numbered := remove_key N.eqb k (numbered s); runN := runN s; named := named s;
          flat := flat s; source := source s |}, Ok)
  end.

Fixpoint run (s : st) (ops : list op) : st :=
  match ops with
  | [] => s
  | o :: r => run (fst (step s o)) r
  end.

(* the run number whose directory this operation creates, if any *)
Definition created (s : st) (o : op) : option N :=
  match o with
  | Install _ _ =>
      let k := next_num s in
      if negb (is_nil (named s)) || is_some (flat s) || has_num s k then None else Some k
  | _ => None
  end.

(* ---- correspondence interface ---- *)
Definition pairN_leb (a b : N * nat) : bool := N.leb (fst a) (fst b).
Definition pairn_leb (a b : nat * nat) : bool := Nat.leb (fst a) (fst b).

(* canonical listing of the workflow dir *)
Definition listing := (list (N * nat) * option N * list (nat * nat) * option nat * option nat)%type.

Definition listing_of (s : st) : listing :=
  (sort_by pairN_leb (numbered s), runN s, sort_by pairn_leb (named s), flat s, source s).

Definition outcome_code (o : outcome) : nat :=
  match o with
  | Ok => 0 | ENamedExist => 1 | ENumberedExist => 2 | ENested => 3 | EExists => 4
  | ESource => 5 | EReserved => 6 | ENotInstalled => 7 | EBadLink => 8
  end.

Definition pNn_eqb (a b : N * nat) := N.eqb (fst a) (fst b) && Nat.eqb (snd a) (snd b).
Definition pnn_eqb (a b : nat * nat) := Nat.eqb (fst a) (fst b) && Nat.eqb (snd a) (snd b).

Definition listing_eqb (a b : listing) : bool :=
  let '(n1, r1, m1, f1, s1) := a in
  let '(n2, r2, m2, f2, s2) := b in
  list_eqb pNn_eqb n1 n2 && option_eqb N.eqb r1 r2 && list_eqb pnn_eqb m1 m2
  && option_eqb Nat.eqb f1 f2 && option_eqb Nat.eqb s1 s2.

(* a case: the pre-existing workflow dir (numbered runs created by hand / long ago, with
   their stamps, and the runN target; ([], None) = never installed), then the history with
   what the implementation did at each step (outcome code and the listing after the step) *)
Definition trace := list (op * nat * listing).
Definition case := ((list (N * nat) * option N) * trace)%type.

Definition init_of (i : list (N * nat) * option N) : st :=
  match i with
  | ([], None) => empty
  | (l, r) => {| numbered := l; runN := r; named := []; flat := None; source := Some 0 |}
  end.

Fixpoint check_from (s : st) (tr : trace) : bool :=
  match tr with
  | [] => true
  | (o, code, l) :: r =>
      let '(s', out) := step s o in
      Nat.eqb (outcome_code out) code && listing_eqb (listing_of s') l && check_from s' r
  end.

Definition check_case (c : case) : bool := check_from (init_of (fst c)) (snd c).

Fixpoint model_trace (s : st) (tr : trace) : list (nat * listing) :=
  match tr with
  | [] => []
  | (o, _, _) :: r =>
      let '(s', out) := step s o in (outcome_code out, listing_of s') :: model_trace s' r
  end.
Definition model_out (c : case) := model_trace (init_of (fst c)) (snd c).
