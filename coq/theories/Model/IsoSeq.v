(* Model/IsoSeq.v — executable model of cylc/flow/cycling/iso8601.py,
   class ISO8601Sequence: the query API with its four dictionaries/lists of
   cached values and the lru_cache around is_on_sequence.

   Points are integers (instants); the harness only uses standardised point
   strings, which are in bijection with their instants.

   The metomi.isodatetime TimeRecurrence object and the ISO8601Exclusions
   object are abstract (Section variables):
     enum      the points obtained by iterating the recurrence (a prefix of
               them when [complete] = false: unbounded recurrences),
     rnext p   recurrence.get_next(p),  rprev p  recurrence.get_prev(p),
     rvalid p  recurrence.get_is_valid(p),
     excl p    `point in self.exclusions` (false when there are none),
     bounded   the guard of get_stop_point (repetitions / start+end known),
     N         _LARGE_LRU_CACHE_SIZE,
     fuel0     fuel for the while loops / recursions of the Python code.
   Hand model, tied to the source by the correspondence stream of C17. *)
From Coq Require Import List ZArith Bool.
From Cylc Require Import Base.Util.
Import ListNotations.
Local Open Scope Z_scope.

Inductive err :=
| Degenerate        (* SequenceDegenerateError *)
| PopEmpty          (* list.pop(0) on an empty list *)
| OutOfFuel         (* model artefact *)
| OutOfEnum         (* model artefact: needed points beyond the given prefix *)
| ImplOther.        (* any other exception observed on the implementation *)

Inductive res (A : Type) := Ok (a : A) | Err (e : err).
Arguments Ok {A} a. Arguments Err {A} e.

Definition bind {A B} (r : res A) (f : A -> res B) : res B :=
  match r with Ok a => f a | Err e => Err e end.

Definition err_eqb (a b : err) : bool :=
  match a, b with
  | Degenerate, Degenerate | PopEmpty, PopEmpty
  | OutOfFuel, OutOfFuel | OutOfEnum, OutOfEnum | ImplOther, ImplOther => true
  | _, _ => false
  end.

(* the mutable attributes of an ISO8601Sequence.  Dictionaries are association
   lists with the most recently inserted key first (dict.popitem() removes the
   head); _cached_recent_valid_points is in Python order (oldest first);
   the lru_cache of is_on_sequence has the most recently used key first. *)
Record st := {
  c_first : list (Z * Z);       (* _cached_first_point_values *)
  c_next : list (Z * Z);        (* _cached_next_point_values *)
  c_valid : list (Z * bool);    (* _cached_valid_point_booleans *)
  c_recent : list Z;            (* _cached_recent_valid_points *)
  c_lru : list (Z * bool)       (* lru_cache(_LARGE_LRU_CACHE_SIZE)(_is_on_sequence) *)
}.
Definition st0 : st := {| c_first := []; c_next := []; c_valid := []; c_recent := []; c_lru := [] |}.

Inductive query :=
| QOn (p : Z) | QValid (p : Z) | QPrev (p : Z) | QNPrev (p : Z) | QNext (p : Z)
| QNextOn (p : Z) | QFirst (p : Z) | QStart | QStop.
Inductive ans := ABool (b : bool) | APt (o : option Z).

Definition ans_eqb (a b : ans) : bool :=
  match a, b with
  | ABool x, ABool y => Bool.eqb x y
  | APt x, APt y => option_eqb Z.eqb x y
  | _, _ => false
  end.

Fixpoint remove_key {V} (k : Z) (l : list (Z * V)) : list (Z * V) :=
  match l with
  | [] => []
  | (k', v) :: r => if k =? k' then r else (k', v) :: remove_key k r
  end.

Section Seq.
  Variable enum : list Z.
  Variable complete : bool.
  Variable bounded : bool.
  Variables rnext rprev : Z -> option Z.
  Variable rvalid : Z -> bool.
  Variable excl : Z -> bool.
  Variable N : nat.
  Variable fuel0 : nat.

  Definition horizon : Z := last enum 0.
  Definition in_window (p : Z) : bool := complete || (p <=? horizon).

  (* recurrence.get_next, with the model's guard for truncated enumerations *)
  Definition rnext_g (p : Z) : res (option Z) :=
    match rnext p with
    | None => Ok None
    | Some r => if in_window r then Ok (Some r) else Err OutOfEnum
    end.

  (* the end of `for recurrence_iso_point in self.recurrence` *)
  Definition at_end {A} (dflt : A) : res A := if complete then Ok dflt else Err OutOfEnum.

  (* ---- get_next_point_on_sequence ---- *)
  Fixpoint gnpos (fuel : nat) (p : Z) : res (option Z) :=
    match fuel with
    | O => Err OutOfFuel
    | S f =>
        bind (rnext_g p) (fun o =>
          match o with
          | None => Ok None
          | Some r =>
              if r =? p then Err Degenerate
              else if excl r then gnpos f r
              else Ok (Some r)
          end)
    end.

  (* ---- get_prev_point ---- *)
  Fixpoint gpp (fuel : nat) (p : Z) : res (option Z) :=
    match fuel with
    | O => Err OutOfFuel
    | S f =>
        match rprev p with
        | None => Ok None
        | Some r =>
            if r =? p then Err Degenerate
            else if excl r then gpp f r
            else Ok (Some r)
        end
    end.

  (* ---- _is_on_sequence ---- *)
  (* while next_point is not None and next_point < point:
         next_point = self.get_next_point_on_sequence(next_point) *)
  Fixpoint walk_lt (fuel : nat) (cur p : Z) : res (option Z) :=
    match fuel with
    | O => Err OutOfFuel
    | S f =>
        if cur <? p then
          bind (gnpos fuel0 cur) (fun o =>
            match o with None => Ok None | Some n => walk_lt f n p end)
        else Ok (Some cur)
    end.

  (* for valid_point in reversed(self._cached_recent_valid_points): ...
     return self.recurrence.get_is_valid(point) *)
  Fixpoint on_recent (vs : list Z) (p : Z) : res bool :=
    match vs with
    | [] => Ok (rvalid p)
    | v :: r =>
        if v =? p then Ok true
        else if p <? v then on_recent r p
        else bind (walk_lt fuel0 v p) (fun o =>
               match o with
               | None => on_recent r p
               | Some n => if n =? p then Ok true else on_recent r p
               end)
    end.

  Definition is_on_raw (s : st) (p : Z) : res bool :=
    if excl p then Ok false else on_recent (rev (c_recent s)) p.

  (* functools.lru_cache(maxsize=N): N = 0 means no caching at all *)
  Definition is_on (s : st) (p : Z) : res (bool * st) :=
    match N with
    | O => bind (is_on_raw s p) (fun b => Ok (b, s))
    | S _ =>
        match assoc Z.eqb p (c_lru s) with
        | Some b =>
            Ok (b, {| c_first := c_first s; c_next := c_next s; c_valid := c_valid s;
                      c_recent := c_recent s; c_lru := (p, b) :: remove_key p (c_lru s) |})
        | None =>
            bind (is_on_raw s p) (fun b =>
              Ok (b, {| c_first := c_first s; c_next := c_next s; c_valid := c_valid s;
                        c_recent := c_recent s; c_lru := firstn N ((p, b) :: c_lru s) |}))
        end
    end.

  (* if len(d) > _LARGE_LRU_CACHE_SIZE: d.popitem()
     d[key] = value        (key is known to be absent) *)
  Definition dict_put {V} (d : list (Z * V)) (k : Z) (v : V) : list (Z * V) :=
    (k, v) :: (if (N <? length d)%nat then tl d else d).

  (* ---- is_valid ---- *)
  Definition is_valid (s : st) (p : Z) : res (bool * st) :=
    match assoc Z.eqb p (c_valid s) with
    | Some b => Ok (b, s)
    | None =>
        bind (is_on s p) (fun '(b, s') =>
          Ok (b, {| c_first := c_first s'; c_next := c_next s';
                    c_valid := dict_put (c_valid s') p b;
                    c_recent := c_recent s'; c_lru := c_lru s' |}))
    end.

  (* ---- get_nearest_prev_point ---- *)
  Fixpoint scan_prev (l : list Z) (p : Z) (acc : option Z) : res (option Z) :=
    match l with
    | [] => at_end acc
    | e :: r =>
        if p <? e then Ok acc
        else scan_prev r p (if excl e then acc else Some e)
    end.

  Definition get_nearest_prev (s : st) (p : Z) : res (option Z * st) :=
    bind (is_on s p) (fun '(b, s') =>
      if b then bind (gpp fuel0 p) (fun o => Ok (o, s'))
      else bind (scan_prev enum p None) (fun o =>
             match o with
             | None => Ok (None, s')
             | Some r => if r =? p then Err Degenerate else Ok (Some r, s')
             end)).

  (* ---- get_next_point ---- *)
  (* while next_point is not None and (next_point <= point or excluded): *)
  Fixpoint walk_le (fuel : nat) (cur : Z) (excluded : bool) (p : Z) : res (option Z) :=
    match fuel with
    | O => Err OutOfFuel
    | S f =>
        if (cur <=? p) || excluded then
          bind (gnpos fuel0 cur) (fun o =>
            match o with None => Ok None | Some n => walk_le f n (excl n) p end)
        else Ok (Some cur)
    end.

  Fixpoint next_recent (vs : list Z) (p : Z) : res (option Z) :=
    match vs with
    | [] => Ok None
    | v :: r =>
        if p <=? v then next_recent r p
        else bind (walk_le fuel0 v false p) (fun o =>
               match o with None => next_recent r p | Some n => Ok (Some n) end)
    end.

  Fixpoint scan_next (l : list Z) (p : Z) : res (option Z) :=
    match l with
    | [] => at_end None
    | e :: r => if (p <? e) && negb (excl e) then Ok (Some e) else scan_next r p
    end.

  (* _check_and_cache_next_point *)
  Definition check_and_cache (s : st) (p n : Z) : res st :=
    if n =? p then Err Degenerate else
    let nc := dict_put (c_next s) p n in
    let pop := negb (Nat.eqb N 0) && (N <? length nc)%nat in
    match pop, c_recent s with
    | true, [] => Err PopEmpty
    | _, rc =>
        Ok {| c_first := c_first s; c_next := nc; c_valid := c_valid s;
              c_recent := (if pop then tl rc else rc) ++ [n]; c_lru := c_lru s |}
    end.

  Definition get_next (s : st) (p : Z) : res (option Z * st) :=
    match assoc Z.eqb p (c_next s) with
    | Some n => Ok (Some n, s)
    | None =>
        bind (next_recent (rev (c_recent s)) p) (fun o =>
          match o with
          | Some n => bind (check_and_cache s p n) (fun s' => Ok (Some n, s'))
          | None =>
              bind (scan_next enum p) (fun o' =>
                match o' with
                | Some n => bind (check_and_cache s p n) (fun s' => Ok (Some n, s'))
                | None => Ok (None, s)
                end)
          end)
    end.

  (* ---- get_first_point ---- *)
  Fixpoint scan_first (l : list Z) (p : Z) : res (option Z) :=
    match l with
    | [] => at_end None
    | e :: r => if p <=? e then Ok (Some e) else scan_first r p
    end.

  Definition get_first (s : st) (p : Z) : res (option Z * st) :=
    match assoc Z.eqb p (c_first s) with
    | Some f => Ok (Some f, s)
    | None =>
        bind (scan_first enum p) (fun o =>
          match o with
          | None => Ok (None, s)
          | Some e =>
              if excl e then bind (gnpos fuel0 e) (fun o' => Ok (o', s))
              else Ok (Some e,
                       {| c_first := dict_put (c_first s) p e; c_next := c_next s;
                          c_valid := c_valid s; c_recent := c_recent s; c_lru := c_lru s |})
          end)
    end.

  (* ---- get_start_point / get_stop_point ---- *)
  Fixpoint scan_start (l : list Z) : res (option Z) :=
    match l with
    | [] => at_end None
    | e :: r => if excl e then scan_start r else Ok (Some e)
    end.

  (* ret = None; for p in recurrence: if p not excluded: ret = p; return ret *)
  Definition get_stop : res (option Z) :=
    if bounded then
      bind (at_end tt) (fun _ =>
        Ok (fold_left (fun acc e => if excl e then acc else Some e) enum None))
    else Ok None.

  (* ---- the API ---- *)
  Definition query_point (q : query) : option Z :=
    match q with
    | QOn p | QValid p | QPrev p | QNPrev p | QNext p | QNextOn p | QFirst p => Some p
    | QStart | QStop => None
    end.

  Definition window_ok (q : query) : bool :=
    match query_point q with Some p => in_window p | None => true end.

  Definition run_query (s : st) (q : query) : res (ans * st) :=
    if negb (window_ok q) then Err OutOfEnum else
    match q with
    | QOn p => bind (is_on s p) (fun '(b, s') => Ok (ABool b, s'))
    | QValid p => bind (is_valid s p) (fun '(b, s') => Ok (ABool b, s'))
    | QPrev p => bind (gpp fuel0 p) (fun o => Ok (APt o, s))
    | QNPrev p => bind (get_nearest_prev s p) (fun '(o, s') => Ok (APt o, s'))
    | QNext p => bind (get_next s p) (fun '(o, s') => Ok (APt o, s'))
    | QNextOn p => bind (gnpos fuel0 p) (fun o => Ok (APt o, s))
    | QFirst p => bind (get_first s p) (fun '(o, s') => Ok (APt o, s'))
    | QStart => bind (scan_start enum) (fun o => Ok (APt o, s))
    | QStop => bind get_stop (fun o => Ok (APt o, s))
    end.

  (* a session: queries in order on one object; an exception ends it *)
  Fixpoint run_all (s : st) (qs : list query) : list (res ans) :=
    match qs with
    | [] => []
    | q :: r =>
        match run_query s q with
        | Ok (a, s') => Ok a :: run_all s' r
        | Err e => [Err e]
        end
    end.
End Seq.

(* ------------------------------------------------------------------ *)
(* the hypotheses about the recurrence, as a decidable check            *)
(* ------------------------------------------------------------------ *)
Fixpoint strictly_increasing (l : list Z) : bool :=
  match l with
  | a :: ((b :: _) as r) => (a <? b) && strictly_increasing r
  | _ => true
  end.

(* rnext a = Some b and rprev b = Some a for neighbours a, b *)
Fixpoint links_ok (rnext rprev : Z -> option Z) (l : list Z) : bool * bool :=
  match l with
  | a :: ((b :: _) as r) =>
      let '(n, p) := links_ok rnext rprev r in
      (option_eqb Z.eqb (rnext a) (Some b) && n, option_eqb Z.eqb (rprev b) (Some a) && p)
  | _ => (true, true)
  end.

Definition last_ok (complete : bool) (rnext : Z -> option Z) (l : list Z) : bool :=
  match rev l with
  | [] => true
  | a :: _ =>
      match rnext a with
      | None => complete
      | Some x => negb complete && (a <? x)
      end
  end.

Definition first_ok (rprev : Z -> option Z) (l : list Z) : bool :=
  match l with [] => true | a :: _ => match rprev a with None => true | Some _ => false end end.

(* (forward hypotheses: sorted, next links, valid) , (backward: prev links) *)
Definition hyps_check (enum : list Z) (complete : bool) (rnext rprev : Z -> option Z)
    (rvalid : Z -> bool) (pts : list Z) : bool * bool :=
  let '(n, p) := links_ok rnext rprev enum in
  (strictly_increasing enum && n && last_ok complete rnext enum &&
   forallb (fun q => negb (in_window enum complete q) || Bool.eqb (rvalid q) (mem Z.eqb q enum)) (pts ++ enum),
   p && first_ok rprev enum).

(* ------------------------------------------------------------------ *)
(* correspondence interface                                            *)
(* ------------------------------------------------------------------ *)
Record case := {
  k_enum : list Z;
  k_complete : bool;
  k_bounded : bool;
  k_next : list (Z * option Z);     (* observed recurrence.get_next *)
  k_prev : list (Z * option Z);     (* observed recurrence.get_prev *)
  k_valid : list (Z * bool);        (* observed recurrence.get_is_valid *)
  k_excl : list Z;                  (* points p with `p in self.exclusions` (among all points involved) *)
  k_N : nat;
  k_queries : list query;
  k_hyps : bool * bool;             (* the harness's own evaluation of the hypotheses *)
  k_impl : list (res ans)
}.

Definition tbl_opt (t : list (Z * option Z)) (p : Z) : option Z :=
  match assoc Z.eqb p t with Some o => o | None => None end.
Definition tbl_bool (t : list (Z * bool)) (p : Z) : bool :=
  match assoc Z.eqb p t with Some b => b | None => false end.

Definition case_fuel (c : case) : nat := S (S (length (k_enum c) + length (k_next c) + length (k_prev c))).

Definition model_out (c : case) : list (res ans) :=
  run_all (k_enum c) (k_complete c) (k_bounded c) (tbl_opt (k_next c)) (tbl_opt (k_prev c))
          (tbl_bool (k_valid c)) (fun p => mem Z.eqb p (k_excl c)) (k_N c) (case_fuel c)
          st0 (k_queries c).

Definition case_points (c : case) : list Z :=
  fold_right (fun q acc => match query_point q with Some p => p :: acc | None => acc end) [] (k_queries c).

Definition model_hyps (c : case) : bool * bool :=
  hyps_check (k_enum c) (k_complete c) (tbl_opt (k_next c)) (tbl_opt (k_prev c))
             (tbl_bool (k_valid c)) (case_points c).

Definition res_ans_eqb (a b : res ans) : bool :=
  match a, b with
  | Ok x, Ok y => ans_eqb x y
  | Err x, Err y => err_eqb x y
  | _, _ => false
  end.

Definition check_case (c : case) : bool :=
  list_eqb res_ans_eqb (model_out c) (k_impl c) &&
  pair_eqb Bool.eqb Bool.eqb (model_hyps c) (k_hyps c).
