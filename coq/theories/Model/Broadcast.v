(* Model/Broadcast.v — executable model of cylc/flow/broadcast_mgr.py
   (BroadcastMgr: addict, put_broadcast, clear_broadcast, expire_broadcast,
   get_broadcast, get_updated_rtconfig, _prune, _settings_to_keys_list,
   load_db_broadcast_states), cylc/flow/broadcast_report.py
   (get_broadcast_change_iter) and the broadcast_states part of
   cylc/flow/workflow_db_mgr.py (put_broadcast, INSERT OR REPLACE / DELETE).
   Hand model, tied to the source by the C22 correspondence stream.

   Python dicts are insertion-ordered association lists with unique keys.
   Names (namespaces, setting keys) and leaf values are numbered by the
   harness; a leaf value stands for the *coerced* setting value (what
   BroadcastConfigValidator makes of the submitted string), the harness maps
   both in-memory values and DB strings to that canonical token.
   Namespaces are numbered in the order of their names as Python strings, so
   that the `sorted(..., key=(point, namespace))` of get_broadcast_change_iter
   can be reproduced ([key_codes]). *)
From Coq Require Import List ZArith NArith Bool Arith Lia.
From Cylc Require Import Base.Util Model.C3.
Import ListNotations.

(* keys of the nested dicts: '*', an integer cycle point, or a numbered name *)
Inductive key := KStar | KInt (z : Z) | KName (n : N).
Definition key_eqb (a b : key) : bool :=
  match a, b with
  | KStar, KStar => true
  | KInt x, KInt y => Z.eqb x y
  | KName x, KName y => N.eqb x y
  | _, _ => false
  end.
Definition val := N.
Definition path := list key.
Definition path_eqb : path -> path -> bool := list_eqb key_eqb.

Inductive tree := Leaf (v : val) | Node (kids : list (key * tree)).
Definition dict := list (key * tree).

Definition kids_of (t : option tree) : dict :=
  match t with Some (Node l) => l | _ => [] end.

(* d[k] = t  (an existing key keeps its position) *)
Fixpoint upsert (k : key) (t : tree) (l : dict) : dict :=
  match l with
  | [] => [(k, t)]
  | (k', t') :: r => if key_eqb k k' then (k, t) :: r else (k', t') :: upsert k t r
  end.

(* ---- addict(target, source) ----
   for key, val in source.items():
       if isinstance(val, dict):
           if key not in target: target[key] = {}
           addict(target[key], val)
       else: target[key] = val
   (a dict arriving over an existing non-dict value makes Python raise; the
   validator's fixed section/setting schema rules that out; the model then
   starts from {}) *)
Fixpoint add1 (sv : tree) (k : key) (acc : dict) : dict :=
  match sv with
  | Leaf v => upsert k (Leaf v) acc
  | Node sk =>
      upsert k
        (Node ((fix go (s : dict) (a : dict) : dict :=
                  match s with
                  | [] => a
                  | ks :: r => go r (add1 (snd ks) (fst ks) a)
                  end) sk (kids_of (assoc key_eqb k acc))))
        acc
  end.
Definition addict (tgt s : dict) : dict :=
  fold_left (fun a ks => add1 (snd ks) (fst ks) a) s tgt.

(* value at a path, if the path ends in a leaf *)
Fixpoint get_leaf (p : path) (t : tree) : option val :=
  match p, t with
  | [], Leaf v => Some v
  | k :: q, Node kids =>
      match assoc key_eqb k kids with Some t' => get_leaf q t' | None => None end
  | _, _ => None
  end.

(* all leaves with their paths, depth first in dict order *)
Fixpoint flatten (t : tree) : list (path * val) :=
  match t with
  | Leaf v => [([], v)]
  | Node kids =>
      flat_map (fun kt => map (fun pv => (fst kt :: fst pv, snd pv)) (flatten (snd kt))) kids
  end.

(* {k1: {k2: ... v}} *)
Fixpoint chain (p : path) (v : val) : tree :=
  match p with [] => Leaf v | k :: q => Node [(k, chain q v)] end.

(* ---- HISTORICAL: get_broadcast_change_iter before the fix (repo commit
   bdf8ea5).  Its walk
       while isinstance(value, dict): key, value = next(iter(value.items()))
   followed only the FIRST key of each nested dict; an empty dict made
   next() raise StopIteration inside the generator (RuntimeError).
   [first_leaf], [change_walk] and [change_iter_pre_fix] are kept only for the
   theorems that document the old defect (the c22_pre_fix theorems of Props/C22.v); the
   model of the current code uses [change_iter_fixed] below. *)
Fixpoint first_leaf (t : tree) : option (path * val) :=
  match t with
  | Leaf v => Some ([], v)
  | Node [] => None
  | Node ((k, t') :: _) =>
      match first_leaf t' with Some (p, v) => Some (k :: p, v) | None => None end
  end.

(* sort key (point, namespace) as Python strings: code points *)
Fixpoint digits (fuel : nat) (n : N) (acc : list Z) : list Z :=
  match fuel with
  | O => acc
  | S f =>
      let acc' := (48 + Z.of_N (N.modulo n 10))%Z :: acc in
      if N.eqb (N.div n 10) 0 then acc' else digits f (N.div n 10) acc'
  end.
Definition key_codes (k : key) : list Z :=
  match k with
  | KStar => [42%Z]
  | KInt z => (if Z.ltb z 0 then [45%Z] else [])
              ++ digits (S (N.size_nat (Z.abs_N z))) (Z.abs_N z) []
  | KName n => [Z.of_N n]
  end.
Fixpoint lex_cmp (a b : list Z) : comparison :=
  match a, b with
  | [], [] => Eq
  | [], _ => Lt
  | _, [] => Gt
  | x :: a', y :: b' =>
      match Z.compare x y with Eq => lex_cmp a' b' | c => c end
  end.

(* a modified setting (point, namespace, setting) *)
Definition msetting := (key * key * tree)%type.
Definition ms_leb (a b : msetting) : bool :=
  match lex_cmp (key_codes (fst (fst a))) (key_codes (fst (fst b))) with
  | Lt => true
  | Gt => false
  | Eq => match lex_cmp (key_codes (snd (fst a))) (key_codes (snd (fst b))) with
          | Gt => false | _ => true end
  end.

(* records yielded before the generator stops, and whether it raised *)
Fixpoint change_walk (first : tree -> option (path * val)) (ms : list msetting)
  : list (path * val) * bool :=
  match ms with
  | [] => ([], false)
  | (p, ns, s) :: r =>
      match s with
      | Leaf _ => change_walk first r
      | Node _ =>
          match first s with
          | None => ([], true)
          | Some (q, v) =>
              let (l, e) := change_walk first r in ((p :: ns :: q, v) :: l, e)
          end
      end
  end.
Definition change_iter_pre_fix (ms : list msetting) : list (path * val) * bool :=
  change_walk first_leaf (sort_by ms_leb ms).

(* ---- get_broadcast_change_iter (current code): for each modified setting,
   sorted by (point, namespace), _iter_setting_leaves yields EVERY leaf,
   depth first in dict order; a non-dict setting yields nothing; it never
   raises. ---- *)
Definition expand (m : msetting) : list (path * val) :=
  match snd m with
  | Leaf _ => []
  | t => map (fun qv => (fst (fst m) :: snd (fst m) :: fst qv, snd qv)) (flatten t)
  end.
Definition change_iter_fixed (ms : list msetting) : list (path * val) * bool :=
  (flat_map expand (sort_by ms_leb ms), false).
Definition change_iter := change_iter_fixed.

(* ---- broadcast_states table: primary key (point, namespace, key) ---- *)
Definition db := list (path * val).
Definition db_delete (p : path) (d : db) : db :=
  filter (fun r => negb (path_eqb (fst r) p)) d.
Definition db_insert (p : path) (v : val) (d : db) : db := db_delete p d ++ [(p, v)].
Definition db_get (p : path) (d : db) : option val := assoc path_eqb p d.

Record state := { s_mem : dict; s_db : db }.

(* ---- put_broadcast ---- *)
Definition ns_known (tr : C3.tree) (k : key) : bool :=
  match k with
  | KName n => match assoc Nat.eqb (N.to_nat n) tr with Some _ => true | None => false end
  | _ => false
  end.

Definition put_ns (tr : C3.tree) (t : tree) (p : key) (m : dict) (ns : key) : dict :=
  if ns_known tr ns then addict m [(p, Node [(ns, t)])] else m.
(* points: None = not a valid cycle point and not '*' *)
Definition put_pt (tr : C3.tree) (t : tree) (nss : list key) (m : dict) (pt : option key) : dict :=
  match pt with
  | None => m
  | Some p => fold_left (put_ns tr t p) nss (addict m [(p, Node [])])
  end.
(* settings: None = rejected by BroadcastConfigValidator *)
Definition put_setting (tr : C3.tree) (pts : list (option key)) (nss : list key)
  (m : dict) (s : option tree) : dict :=
  match s with None => m | Some t => fold_left (put_pt tr t nss) pts m end.
Definition put_mem tr pts nss (settings : list (option tree)) (m : dict) : dict :=
  fold_left (put_setting tr pts nss) settings m.

Definition put_mods (tr : C3.tree) (pts : list (option key)) (nss : list key)
  (settings : list (option tree)) : list msetting :=
  flat_map (fun s => match s with
    | None => []
    | Some t => flat_map (fun pt => match pt with
        | None => []
        | Some p => flat_map (fun ns => if ns_known tr ns then [(p, ns, t)] else []) nss
        end) pts
    end) settings.

Definition db_put (recs : list (path * val)) (d : db) : db :=
  fold_left (fun d r => db_insert (fst r) (snd r) d) recs d.
Definition db_del (recs : list (path * val)) (d : db) : db :=
  fold_left (fun d r => db_delete (fst r) d) recs d.

(* [ci]: the change iterator in use (the code's [change_iter], or the
   historical [change_iter_pre_fix]) *)
Definition iter := list msetting -> list (path * val) * bool.
Definition put_with (ci : iter) (tr : C3.tree) pts nss settings (st : state) : state * bool :=
  let (recs, raised) := ci (put_mods tr pts nss settings) in
  ({| s_mem := put_mem tr pts nss settings (s_mem st); s_db := db_put recs (s_db st) |}, raised).
Definition put := put_with change_iter.

(* ---- clear_broadcast ---- *)
(* `if xs and x not in xs: continue` *)
Definition sel (l : list key) (k : key) : bool :=
  match l with [] => true | _ => mem key_eqb k l end.
Definition sel_path (l : list path) (p : path) : bool :=
  match l with [] => true | _ => mem path_eqb p l end.
(* _settings_to_keys_list: the key paths of all leaves of the cancel settings *)
Definition cancel_keys (cancel : list tree) : list path :=
  flat_map (fun s => map fst (flatten s)) cancel.
Definition targeted (pts nss : list key) (ck : list path) (p : path) : bool :=
  match p with
  | pt :: ns :: rest => sel pts pt && sel nss ns && sel_path ck rest
  | _ => false
  end.

(* leaves whose path satisfies P are set to None and then pruned *)
Fixpoint drop_leaves (P : path -> bool) (t : tree) : option tree :=
  match t with
  | Leaf v => if P [] then None else Some (Leaf v)
  | Node kids =>
      Some (Node (flat_map (fun kt =>
        match drop_leaves (fun q => P (fst kt :: q)) (snd kt) with
        | Some t' => [(fst kt, t')] | None => [] end) kids))
  end.
(* _prune: post-order removal of empty dicts everywhere below the root *)
Fixpoint prune (t : tree) : option tree :=
  match t with
  | Leaf v => Some (Leaf v)
  | Node kids =>
      match flat_map (fun kt => match prune (snd kt) with
                                | Some t' => [(fst kt, t')] | None => [] end) kids with
      | [] => None
      | l => Some (Node l)
      end
  end.
Definition prune_root (m : dict) : dict := kids_of (prune (Node m)).
Definition clear_mem (P : path -> bool) (m : dict) : dict :=
  prune_root (kids_of (drop_leaves P (Node m))).

Definition split_ms (pv : path * val) : list msetting :=
  match fst pv with
  | pt :: ns :: rest => [(pt, ns, chain rest (snd pv))]
  | _ => []
  end.

Definition clear_with (ci : iter) (pts nss : list key) (cancel : list tree) (st : state)
  : state * bool :=
  let P := targeted pts nss (cancel_keys cancel) in
  let removed := filter (fun pv => P (fst pv)) (flatten (Node (s_mem st))) in
  let (recs, raised) := ci (flat_map split_ms removed) in
  ({| s_mem := clear_mem P (s_mem st); s_db := db_del recs (s_db st) |}, raised).
Definition clear := clear_with change_iter.

(* ---- expire_broadcast ---- *)
Definition expired (cutoff : option Z) (k : key) : bool :=
  match cutoff with
  | None => true
  | Some c => match k with KInt z => Z.ltb z c | _ => false end
  end.
Definition expire_with (ci : iter) (cutoff : option Z) (st : state) : state * bool :=
  match filter (expired cutoff) (map fst (s_mem st)) with
  | [] => (st, false)
  | pts => clear_with ci pts [] [] st
  end.
Definition expire := expire_with change_iter.

(* ---- get_broadcast / get_updated_rtconfig ---- *)
Definition bc_sources (m : dict) (anc : list key) (cycle : key) : list dict :=
  flat_map (fun c =>
    match assoc key_eqb c m with
    | Some (Node nsd) =>
        flat_map (fun ns => match assoc key_eqb ns nsd with
                            | Some (Node s) => [s] | _ => [] end) (rev anc)
    | _ => []
    end) [KStar; cycle].
Definition get_broadcast (m : dict) (anc : list key) (cycle : key) : dict :=
  fold_left addict (bc_sources m anc cycle) [].
(* poverride(rtconfig, overrides): sections exist in the dense static
   config, so it coincides with addict on the leaves *)
Definition updated_rtconfig (static : dict) (m : dict) (anc : list key) (cycle : key) : dict :=
  addict static (get_broadcast m anc cycle).

Definition ancestors (tr : C3.tree) (task : nat) : list key :=
  match C3.mro (S (length tr)) tr task with
  | C3.Ok l => map (fun x => KName (N.of_nat x)) l
  | _ => []
  end.

(* ---- restart: load_db_broadcast_states row by row ---- *)
Definition load_row (m : dict) (r : path * val) : dict :=
  addict m (kids_of (Some (chain (fst r) (snd r)))).
Definition load (d : db) : dict := fold_left load_row d [].

(* ---- histories ---- *)
Inductive op :=
| Put (pts : list (option key)) (nss : list key) (settings : list (option tree))
| Clear (pts nss : list key) (cancel : list tree)
| Expire (cutoff : option Z)
| Flush.   (* process_queued_ops: the queued DB statements are executed *)

Definition step_with (ci : iter) (tr : C3.tree) (st : state) (o : op) : state * bool :=
  match o with
  | Put pts nss ss => put_with ci tr pts nss ss st
  | Clear pts nss c => clear_with ci pts nss c st
  | Expire c => expire_with ci c st
  | Flush => (st, false)
  end.
Definition step := step_with change_iter.
Definition init : state := {| s_mem := []; s_db := [] |}.
Definition run_with (ci : iter) (tr : C3.tree) (h : list op) : state :=
  fold_left (fun st o => fst (step_with ci tr st o)) h init.
Definition run := run_with change_iter.


(* ---- correspondence interface ---- *)
(* monomorphic pair constructors: case files elaborate ~30x faster with them *)
Definition lf (p : path) (v : val) : path * val := (p, v).
Definition kt (k : key) (t : tree) : key * tree := (k, t).
Definition stp (raised : bool) (l : list (path * val)) : bool * list (path * val) := (raised, l).
Definition nd (n : nat) (ps : list nat) : nat * list nat := (n, ps).
Definition pv_eqb (a b : path * val) : bool :=
  path_eqb (fst a) (fst b) && N.eqb (snd a) (snd b).
Definition set_eqb (a b : list (path * val)) : bool :=
  Nat.eqb (length a) (length b)
  && forallb (fun x => mem pv_eqb x b) a && forallb (fun x => mem pv_eqb x a) b.

Record query := {
  q_task : nat; q_cycle : key; q_static : dict;
  q_get : list (path * val);      (* impl: leaves of get_broadcast(tokens) *)
  q_rt : list (path * val)        (* impl: leaves of get_updated_rtconfig(itask) *)
}.
Record case := {
  c_tree : C3.tree;               (* namespace -> parents *)
  c_hist : list op;
  c_steps : list (bool * list (path * val));  (* impl, per op: raised?, leaves of .broadcasts *)
  c_db : list (path * val);       (* impl: rows of broadcast_states at the end *)
  c_reload : list (path * val);   (* impl: leaves of .broadcasts after reload from the DB *)
  c_queries : list query
}.

Fixpoint check_steps (tr : C3.tree) (st : state) (h : list op)
  (obs : list (bool * list (path * val))) : option state :=
  match h, obs with
  | [], [] => Some st
  | o :: h', (raised, leaves) :: obs' =>
      let (st', r) := step tr st o in
      if Bool.eqb r raised && set_eqb (flatten (Node (s_mem st'))) leaves
      then check_steps tr st' h' obs' else None
  | _, _ => None
  end.

Definition check_query (tr : C3.tree) (m : dict) (q : query) : bool :=
  let anc := ancestors tr (q_task q) in
  set_eqb (flatten (Node (get_broadcast m anc (q_cycle q)))) (q_get q)
  && set_eqb (flatten (Node (updated_rtconfig (q_static q) m anc (q_cycle q)))) (q_rt q).

Definition check_case (c : case) : bool :=
  match check_steps (c_tree c) init (c_hist c) (c_steps c) with
  | None => false
  | Some st =>
      set_eqb (s_db st) (c_db c)
      && set_eqb (flatten (Node (load (s_db st)))) (c_reload c)
      && forallb (check_query (c_tree c) (s_mem st)) (c_queries c)
  end.

Definition model_out (c : case) :=
  let st := run (c_tree c) (c_hist c) in
  (flatten (Node (s_mem st)), s_db st, flatten (Node (load (s_db st))),
   map (fun q => flatten (Node (get_broadcast (s_mem st) (ancestors (c_tree c) (q_task q)) (q_cycle q))))
       (c_queries c)).
