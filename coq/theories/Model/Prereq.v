(* Model/Prereq.v — executable model of cylc/flow/prerequisite.py (class
   Prerequisite) and of Dependency.get_prerequisite / get_expression in
   cylc/flow/task_trigger.py.  Hand model, tied to the source by the C13
   correspondence streams.

   Text is modelled as lists of character codes ([list Z], ASCII).  The model
   works at *string level*:
   - [render_src]   = Dependency.get_expression (''.join of the stringified
                      nested list; atoms are <point>/<name> <output>);
   - [sub]          = one re.sub(pattern, SATISFIED_TEMPLATE % key, expr) of
                      set_conditional_expr, with the two patterns
                      (?<!-)\b<msg>\b and -\b<msg[1:]>\b, leftmost non-overlapping
                      matches, \b = "exactly one neighbour is a \w char";
                      re.escape makes the message a literal;
   - [subst_all]    = the loop over self._satisfied in insertion order
                      (the order is an *input* of the model);
   - [lex]/[p_or]   = eval() of the resulting Python text, for the fragment
                      bool(self._satisfied[(p, n, o)]) | & ( ) unary-   (p, n, o double-quoted literals)
                      with Python's int/bool semantics; anything outside the
                      fragment is [RUnm] (unmodelled: in Python a SyntaxError,
                      NameError, TypeError ... depending on the text).
   No proofs in this file. *)
From Coq Require Import List ZArith Bool String Ascii.
From Cylc Require Import Base.Util.
Import ListNotations.
Local Open Scope Z_scope.

Definition str := list Z.
Definition codes (s : string) : str :=
  map (fun a => Z.of_N (N_of_ascii a)) (list_ascii_of_string s).
Definition str_eqb : str -> str -> bool := list_eqb Z.eqb.

(* ---------- characters ---------- *)
Definition c_bar := 124. Definition c_amp := 38.
Definition c_lp := 40.   Definition c_rp := 41.
Definition c_minus := 45. Definition c_slash := 47.
Definition c_space := 32. Definition c_quote := 34. Definition c_bslash := 92.

Definition is_digit (c : Z) : bool := (48 <=? c) && (c <=? 57).
(* \w for ASCII text *)
Definition is_word (c : Z) : bool :=
  is_digit c || ((65 <=? c) && (c <=? 90)) || ((97 <=? c) && (c <=? 122)) || (c =? 95).
Definition wordb (o : option Z) : bool :=
  match o with Some c => is_word c | None => false end.
(* \b between two neighbouring positions (None = outside the string) *)
Definition bnd (a b : option Z) : bool := xorb (wordb a) (wordb b).

Definition hd_opt (s : str) : option Z := match s with [] => None | c :: _ => Some c end.
Fixpoint last_opt (d : option Z) (s : str) : option Z :=
  match s with [] => d | c :: r => last_opt (Some c) r end.

Fixpoint starts_with (p s : str) : bool :=
  match p, s with
  | [], _ => true
  | a :: p', b :: s' => (a =? b) && starts_with p' s'
  | _ :: _, [] => false
  end.

(* ---------- keys, messages, templates ---------- *)
Definition key := (str * str * str)%type.      (* (point, task, output) strings *)
Definition kP (k : key) : str := fst (fst k).
Definition kN (k : key) : str := snd (fst k).
Definition kO (k : key) : str := snd k.
Definition key_eqb (a b : key) : bool :=
  str_eqb (kP a) (kP b) && str_eqb (kN a) (kN b) && str_eqb (kO a) (kO b).

(* MESSAGE_TEMPLATE % key = %s/%s %s *)
Definition msg (k : key) : str := kP k ++ c_slash :: kN k ++ c_space :: kO k.

(* SATISFIED_TEMPLATE: bool(self._satisfied[(QpQ, QnQ, QoQ)]) with Q the double quote *)
Definition t_pre : str :=    (* bool(self._satisfied[( and a double quote *)
  [98;111;111;108;40;115;101;108;102;46;95;115;97;116;105;115;102;105;101;100;91;40;34].
Definition t_mid : str := [34;44;32;34].       (* quote comma space quote *)
Definition t_post : str := [34;41;93;41].      (* quote ) ] ) *)
Definition tmpl (k : key) : str :=
  t_pre ++ kP k ++ t_mid ++ kN k ++ t_mid ++ kO k ++ t_post.

(* ---------- one regex substitution ---------- *)
(* does the pattern built from message [m] match at the head of [s], where
   [prev] is the character just before [s] in the subject string? *)
Definition match_plain (m : str) (prev : option Z) (s : str) : bool :=
  (* pattern  (?<!-)\b<msg>\b   (the look-behind was added by fix 0083ac1) *)
  negb (option_eqb Z.eqb prev (Some c_minus))
  && bnd prev (hd_opt s) && starts_with m s
  && bnd (last_opt prev m) (hd_opt (skipn (List.length m) s)).
Definition match_neg (body : str) (s : str) : bool :=
  (* msg[0] is a minus sign:  pattern  -\b<msg[1:]>\b *)
  match s with
  | d :: s' =>
      (d =? c_minus) && bnd (Some c_minus) (hd_opt s') && starts_with body s'
      && bnd (last_opt (Some c_minus) body) (hd_opt (skipn (List.length body) s'))
  | [] => false
  end.
Definition match_at (m : str) (prev : option Z) (s : str) : bool :=
  match m with
  | c :: body => if c =? c_minus then match_neg body s else match_plain m prev s
  | [] => match_plain m prev s
  end.

(* re.sub: scan left to right; on a match emit the replacement and skip the
   matched text (matches do not overlap; look-behind sees the original text) *)
Fixpoint sub_aux (m repl : str) (skip : nat) (prev : option Z) (s : str) : str :=
  match s with
  | [] => []
  | c :: r =>
      match skip with
      | S n => sub_aux m repl n (Some c) r
      | O =>
          if match_at m prev s
          then repl ++ sub_aux m repl (pred (List.length m)) (Some c) r
          else c :: sub_aux m repl O (Some c) r
      end
  end.

Definition sub (k : key) (e : str) : str := sub_aux (msg k) (tmpl k) O None e.

(* the loop `for t_output in self._satisfied:` *)
Definition subst_all (ks : list key) (e : str) : str := fold_left (fun e k => sub k e) ks e.

(* ---------- the Python fragment produced by the substitution ---------- *)
Inductive val := VBool (b : bool) | VInt (z : Z).
Definition vz (v : val) : Z := match v with VBool b => if b then 1 else 0 | VInt z => z end.
Definition vor (a b : val) : val :=
  match a, b with VBool x, VBool y => VBool (x || y) | _, _ => VInt (Z.lor (vz a) (vz b)) end.
Definition vand (a b : val) : val :=
  match a, b with VBool x, VBool y => VBool (x && y) | _, _ => VInt (Z.land (vz a) (vz b)) end.
Definition vneg (a : val) : val := VInt (- vz a).
Definition truthy (v : val) : bool := match v with VBool b => b | VInt z => negb (z =? 0) end.
Definition val_eqb (a b : val) : bool :=
  match a, b with
  | VBool x, VBool y => Bool.eqb x y
  | VInt x, VInt y => x =? y
  | _, _ => false
  end.

Inductive ptok := PAt (k : key) | POr | PAnd | PLp | PRp | PNeg.

Fixpoint strip_prefix (p s : str) : option str :=
  match p, s with
  | [], _ => Some s
  | a :: p', b :: s' => if a =? b then strip_prefix p' s' else None
  | _ :: _, [] => None
  end.

(* the text of a string literal up to the closing quote *)
Fixpoint span_nq (s : str) : str * str :=
  match s with
  | [] => ([], [])
  | c :: r => if c =? c_quote then ([], s) else let (a, b) := span_nq r in (c :: a, b)
  end.
(* plain text only: a backslash or a newline inside the literal is outside the fragment *)
Definition plain (s : str) : bool := forallb (fun c => negb ((c =? c_bslash) || (c =? 10) || (c =? 13))) s.

Definition lex_atom (s : str) : option (key * str) :=
  match strip_prefix t_pre s with
  | None => None
  | Some s1 =>
      let (p, s2) := span_nq s1 in
      match strip_prefix t_mid s2 with
      | None => None
      | Some s3 =>
          let (n, s4) := span_nq s3 in
          match strip_prefix t_mid s4 with
          | None => None
          | Some s5 =>
              let (o, s6) := span_nq s5 in
              match strip_prefix t_post s6 with
              | None => None
              | Some s7 => if plain p && plain n && plain o then Some ((p, n, o), s7) else None
              end
          end
      end
  end.

Definition op_tok (c : Z) : option ptok :=
  if c =? c_bar then Some POr
  else if c =? c_amp then Some PAnd
  else if c =? c_lp then Some PLp
  else if c =? c_rp then Some PRp
  else if c =? c_minus then Some PNeg
  else None.

Fixpoint lex (fuel : nat) (s : str) : option (list ptok) :=
  match fuel with
  | O => None
  | S f =>
      match s with
      | [] => Some []
      | c :: r =>
          match op_tok c with
          | Some t => match lex f r with Some l => Some (t :: l) | None => None end
          | None =>
              match lex_atom s with
              | Some (k, s') => match lex f s' with Some l => Some (PAt k :: l) | None => None end
              | None => None
              end
          end
      end
  end.

(* Python precedence: | lowest, then &, then unary -, then primary.
   (Python groups chains to the left; | and & on int/bool are associative,
   the model groups to the right.) *)
Fixpoint p_or (f : nat) (sg : key -> option bool) (ts : list ptok) {struct f}
  : option (val * list ptok) :=
  match f with
  | O => None
  | S f' =>
      match p_and f' sg ts with
      | Some (v, POr :: r) =>
          match p_or f' sg r with Some (v', r') => Some (vor v v', r') | None => None end
      | x => x
      end
  end
with p_and (f : nat) (sg : key -> option bool) (ts : list ptok) {struct f}
  : option (val * list ptok) :=
  match f with
  | O => None
  | S f' =>
      match p_un f' sg ts with
      | Some (v, PAnd :: r) =>
          match p_and f' sg r with Some (v', r') => Some (vand v v', r') | None => None end
      | x => x
      end
  end
with p_un (f : nat) (sg : key -> option bool) (ts : list ptok) {struct f}
  : option (val * list ptok) :=
  match f with
  | O => None
  | S f' =>
      match ts with
      | PNeg :: r => match p_un f' sg r with Some (v, r') => Some (vneg v, r') | None => None end
      | PAt k :: r => match sg k with Some b => Some (VBool b, r) | None => None end
      | PLp :: r => match p_or f' sg r with Some (v, PRp :: r') => Some (v, r') | _ => None end
      | _ => None
      end
  end.

Inductive res := RVal (v : val) | RUnm.

Definition eval_py (sg : key -> option bool) (e : str) : res :=
  match lex (S (List.length e)) e with
  | None => RUnm
  | Some ts =>
      match p_or (2 * List.length ts + 2) sg ts with
      | Some (v, []) => RVal v
      | _ => RUnm
      end
  end.

(* ---------- the Prerequisite object ---------- *)
Inductive sstate := Unsat | SNat | SDb | SSkip | SForced.
Definition sstate_eqb (a b : sstate) : bool :=
  match a, b with
  | Unsat, Unsat | SNat, SNat | SDb, SDb | SSkip, SSkip | SForced, SForced => true
  | _, _ => false
  end.
Definition struthy (s : sstate) : bool := match s with Unsat => false | _ => true end.

Record prereq := {
  sat : list (key * sstate);          (* self._satisfied, insertion order *)
  cexpr : option str;                 (* self.conditional_expression *)
  cached : option val                 (* self._cached_satisfied *)
}.
Definition empty_prereq : prereq := {| sat := []; cexpr := None; cached := None |}.

Fixpoint upd (k : key) (v : sstate) (l : list (key * sstate)) : list (key * sstate) :=
  match l with
  | [] => [(k, v)]
  | (k', v') :: r => if key_eqb k k' then (k', v) :: r else (k', v') :: upd k v r
  end.

Definition lookup (l : list (key * sstate)) (k : key) : option bool :=
  match assoc key_eqb k l with Some s => Some (struthy s) | None => None end.

Definition otruthy (o : option val) : bool := match o with Some v => truthy v | None => false end.

(* __setitem__ (the value True is turned into SNat by sv_state below) *)
Definition setitem (st : prereq) (k : key) (v : sstate) : prereq :=
  {| sat := upd k v (sat st); cexpr := cexpr st;
     cached := if otruthy (cached st) && struthy v then cached st else None |}.

Definition has_bar (e : str) : bool := existsb (Z.eqb c_bar) e.

Definition set_conditional_expr (st : prereq) (e : str) : prereq :=
  {| sat := sat st;
     cexpr := if has_bar e then Some (subst_all (map fst (sat st)) e) else cexpr st;
     cached := None |}.

(* _eval_satisfied *)
Definition eval_satisfied (st : prereq) : res :=
  match cexpr st with
  | None | Some [] => RVal (VBool (forallb (fun kv => struthy (snd kv)) (sat st)))
  | Some e => eval_py (lookup (sat st)) e
  end.

(* is_satisfied: result and new state *)
Definition is_satisfied (st : prereq) : res * prereq :=
  match cached st with
  | Some v => (RVal v, st)
  | None =>
      match sat st with
      | [] => (RVal (VBool true), st)
      | _ =>
          match eval_satisfied st with
          | RVal v => (RVal v, {| sat := sat st; cexpr := cexpr st; cached := Some v |})
          | RUnm => (RUnm, st)
          end
      end
  end.

(* satisfy_me(outputs, mode, forced) *)
Definition sat_value (skip forced : bool) : sstate :=
  if forced then SForced else if skip then SSkip else SNat.
Definition satisfy_one (skip forced : bool) (st : prereq) (k : key) : prereq :=
  match assoc key_eqb k (sat st) with
  | None => st
  | Some s => if struthy s then st else setitem st k (sat_value skip forced)
  end.
Definition satisfy_me (st : prereq) (outs : list key) (skip forced : bool) : prereq :=
  fold_left (satisfy_one skip forced) outs st.

(* set_satisfied: (exception?, new state) — on an evaluation error the outputs
   are already forced and the cache is left as it was *)
Definition force_all (l : list (key * sstate)) : list (key * sstate) :=
  map (fun kv => (fst kv, if struthy (snd kv) then snd kv else SForced)) l.
Definition set_satisfied (st : prereq) : res * prereq :=
  let st1 := {| sat := force_all (sat st); cexpr := cexpr st; cached := cached st |} in
  match cexpr st with
  | None | Some [] =>
      (RVal (VBool true), {| sat := sat st1; cexpr := cexpr st; cached := Some (VBool true) |})
  | Some _ =>
      match eval_satisfied st1 with
      | RVal v => (RVal v, {| sat := sat st1; cexpr := cexpr st; cached := Some v |})
      | RUnm => (RUnm, st1)
      end
  end.

(* unset_naturally_satisfied(id_): returns (changed, state) *)
Definition rel_id (k : key) : str := kP k ++ c_slash :: kN k.
Definition unset_nat (st : prereq) (id : str) : bool * prereq :=
  fold_left
    (fun (acc : bool * prereq) (kv : key * sstate) =>
       let (k, s) := kv in
       if str_eqb (rel_id k) id && struthy s && negb (sstate_eqb s SForced)
       then (true, setitem (snd acc) k Unsat) else acc)
    (sat st) (false, st).

(* ---------- Dependency.get_expression / get_prerequisite ---------- *)
Inductive stok := SAtom (k : key) | SOp (c : Z).
Definition tok_text (t : stok) : str := match t with SAtom k => msg k | SOp c => [c] end.
Definition render_src (ts : list stok) : str := List.concat (map tok_text ts).
Definition tok_py (t : stok) : str := match t with SAtom k => tmpl k | SOp c => [c] end.
Definition render_py (ts : list stok) : str := List.concat (map tok_py ts).

(* a trigger: its key and, when it has a cycle point offset, the position
   (ordinal) of the offset point *)
Record trig := { t_key : key; t_off : option Z }.

Definition init_value (point icp start : Z) (t : trig) : sstate :=
  match t_off t with
  | None => Unsat
  | Some z =>
      if z <? icp then SNat                                   (* pre-initial: cpre[key] = True *)
      else if (z <? start) && (start <=? point) then SNat     (* before the start point *)
      else Unsat
  end.

Definition get_prerequisite (point icp start : Z) (trs : list trig) (ts : list stok) : prereq :=
  let st := fold_left (fun st t => setitem st (t_key t) (init_value point icp start t))
                      trs empty_prereq in
  set_conditional_expr st (render_src ts).

(* ---------- correspondence interface ---------- *)
Inductive outcome := OVal (v : val) | OExc.
Inductive setval := SVTrue | SVState (s : sstate).
Inductive op :=
| OpQuery                                        (* is_satisfied() *)
| OpSetitem (k : nat) (v : setval)               (* prereq[key] = v *)
| OpSatisfy (ks : list nat) (skip forced : bool) (* satisfy_me *)
| OpSetSatisfied
| OpUnset (id : str).                            (* unset_naturally_satisfied *)

(* what the implementation showed after an operation *)
Record obs := Ob {
  o_res : option outcome;       (* result of is_satisfied / set_satisfied (exception) *)
  o_changed : option bool;      (* result of unset_naturally_satisfied *)
  o_sat : list sstate;          (* _satisfied values, in dictionary order *)
  o_cached : option val         (* _cached_satisfied *)
}.
(* short names used by the case printer *)
Definition oT : outcome := OVal (VBool true).
Definition oF : outcome := OVal (VBool false).
Definition vT : val := VBool true.
Definition vF : val := VBool false.

Record case := Case {
  c_keytab : list key;                 (* key table; operations refer to indices *)
  c_trigs : list (nat * option Z);     (* task_triggers in the real order: key index, offset ordinal *)
  c_toks : list (nat + Z);             (* flattened expression: key index or operator character *)
  c_point : Z; c_icp : Z; c_start : Z;
  c_expr : str;                        (* impl: Dependency.get_expression(point) *)
  c_cexpr : option str;                (* impl: conditional_expression after construction *)
  c_init : list (nat * sstate);        (* impl: _satisfied after construction *)
  c_subsets : list outcome;            (* for mask = 0, 1, 2 ...: fresh prerequisite,
                                          satisfy_me(atoms whose bit is set in mask), is_satisfied() *)
  c_ops : list (op * obs)
}.

Definition nokey : key := ([], [], []).
Definition kidx (c : case) (i : nat) : key := nth i (c_keytab c) nokey.
Definition case_trigs (c : case) : list trig :=
  map (fun p => {| t_key := kidx c (fst p); t_off := snd p |}) (c_trigs c).
Definition case_toks (c : case) : list stok :=
  map (fun t => match t with inl i => SAtom (kidx c i) | inr z => SOp z end) (c_toks c).
Definition case_prereq (c : case) : prereq :=
  get_prerequisite (c_point c) (c_icp c) (c_start c) (case_trigs c) (case_toks c).

Definition sat_eqb (c : case) (a : list (key * sstate)) (b : list (nat * sstate)) : bool :=
  list_eqb (fun x y => key_eqb (fst x) (fst y) && sstate_eqb (snd x) (snd y))
           a (map (fun y => (kidx c (fst y), snd y)) b).

(* model result vs implementation outcome; None = the model does not cover it *)
Definition res_ok (r : res) (o : outcome) : option bool :=
  match r, o with
  | RUnm, _ => None
  | RVal v, OVal v' => Some (val_eqb v v')
  | RVal _, OExc => Some false
  end.

(* the atoms selected by a bit mask, in increasing index order *)
Definition mask_atoms (n : nat) (m : N) : list nat :=
  filter (fun i => N.testbit m (N.of_nat i)) (seq 0 n).
Definition check_subset (c : case) (st0 : prereq) (m : N) (o : outcome) : bool :=
  let st := satisfy_me st0 (map (kidx c) (mask_atoms (List.length (c_trigs c)) m)) false false in
  match res_ok (fst (is_satisfied st)) o with Some b => b | None => true end.
Fixpoint check_subsets (c : case) (st0 : prereq) (m : N) (l : list outcome) : bool :=
  match l with
  | [] => true
  | o :: r => check_subset c st0 m o && check_subsets c st0 (N.succ m) r
  end.

Definition sv_state (v : setval) : sstate := match v with SVTrue => SNat | SVState s => s end.

Definition state_ok (c : case) (st : prereq) (o : obs) : bool :=
  list_eqb sstate_eqb (map snd (sat st)) (o_sat o) && option_eqb val_eqb (cached st) (o_cached o).

(* run the operations; stop (accept) as soon as the model leaves its fragment *)
Fixpoint check_ops (c : case) (st : prereq) (l : list (op * obs)) : bool :=
  match l with
  | [] => true
  | (o, ob) :: r =>
      match o with
      | OpQuery =>
          let (rs, st') := is_satisfied st in
          match o_res ob with
          | None => false
          | Some oc =>
              match res_ok rs oc with
              | None => true
              | Some b => b && state_ok c st' ob && check_ops c st' r
              end
          end
      | OpSetitem k v =>
          let st' := setitem st (kidx c k) (sv_state v) in
          state_ok c st' ob && check_ops c st' r
      | OpSatisfy ks skip forced =>
          let st' := satisfy_me st (map (kidx c) ks) skip forced in
          state_ok c st' ob && check_ops c st' r
      | OpSetSatisfied =>
          let (rs, st') := set_satisfied st in
          match rs, o_res ob with
          | RUnm, _ => true
          | RVal _, Some OExc => false
          | RVal _, _ => state_ok c st' ob && check_ops c st' r
          end
      | OpUnset id =>
          let (ch, st') := unset_nat st id in
          option_eqb Bool.eqb (Some ch) (o_changed ob) && state_ok c st' ob && check_ops c st' r
      end
  end.

Definition check_case (c : case) : bool :=
  let st0 := case_prereq c in
  str_eqb (render_src (case_toks c)) (c_expr c)
  && option_eqb str_eqb (cexpr st0) (c_cexpr c)
  && sat_eqb c (sat st0) (c_init c)
  && check_subsets c st0 0%N (c_subsets c)
  && check_ops c st0 (c_ops c).

(* debugging view: (expression text, substituted text, is_satisfied of the fresh object) *)
Definition model_out (c : case) : str * option str * res :=
  let st0 := case_prereq c in
  (render_src (case_toks c), cexpr st0, fst (is_satisfied st0)).
