(* Model/GraphExpr.v — left-hand expressions as trees, their printing to the
   tokens of Model/GraphBase.v, and their evaluation.  Shared by C14/C15.
   Definitions only.

   Parentheses are part of the tree (LPar): `(a & b) => c` and `a & b => c` are
   different graphs for the parser (the second is split into two triggers).
   [wf_lvl] says that a tree has the shape the grammar
       expr := term ('|' expr)? ; term := factor ('&' term)? ;
       factor := node | '(' expr ')'
   gives to its own printing (operators nest to the right, an OR below an AND
   only inside parentheses), so that printing loses nothing. *)
From Coq Require Import List Bool Arith String.
From Cylc Require Import Base.Util Gen.FamTables Model.GraphBase.
Import ListNotations.

Inductive lexpr :=
| LN (n : node)
| LPar (e : lexpr)
| LAnd (a b : lexpr)
| LOr (a b : lexpr).

Fixpoint print_e (e : lexpr) : list tok :=
  match e with
  | LN n => [TN n]
  | LPar e => TLp :: print_e e ++ [TRp]
  | LAnd a b => print_e a ++ TAnd :: print_e b
  | LOr a b => print_e a ++ TOr :: print_e b
  end.

(* level 0 = expr, 1 = term, 2 = factor *)
Fixpoint wf_lvl (lvl : nat) (e : lexpr) : bool :=
  match e with
  | LN _ => true
  | LPar e => wf_lvl 0 e
  | LAnd a b => Nat.leb lvl 1 && wf_lvl 2 a && wf_lvl 1 b
  | LOr a b => Nat.eqb lvl 0 && wf_lvl 1 a && wf_lvl 0 b
  end.

Fixpoint eval_e (f : node -> bool) (e : lexpr) : bool :=
  match e with
  | LN n => f n
  | LPar e => eval_e f e
  | LAnd a b => eval_e f a && eval_e f b
  | LOr a b => eval_e f a || eval_e f b
  end.

Fixpoint nodes_e (e : lexpr) : list node :=
  match e with
  | LN n => [n]
  | LPar e => nodes_e e
  | LAnd a b | LOr a b => nodes_e a ++ nodes_e b
  end.

(* n-ary AND / OR of a non-empty list, nested to the right like the printing *)
Fixpoint big_op (and_ : bool) (l : list lexpr) : lexpr :=
  match l with
  | [] => LN (mkNode 0 0 None false)     (* not used: families are non-empty *)
  | [x] => x
  | x :: r => if and_ then LAnd x (big_op and_ r) else LOr x (big_op and_ r)
  end.

(* ---- the documented meaning of family qualifiers, derived from
   task_qualifiers.ALT_QUALIFIERS: FAM:<q>-all is the AND over the members of
   ALT_QUALIFIERS[q], FAM:<q>-any the OR ---- *)
Definition fam_qual (q : string) (all : bool) : string :=
  String.append q (if all then "-all"%string else "-any"%string).

Definition doc_fam_table : list (string * (string * bool)) :=
  flat_map (fun qo => [(fam_qual (fst qo) true, (snd qo, true));
                       (fam_qual (fst qo) false, (snd qo, false))]) alt_qualifiers.

(* member m "has output o" under v; the pseudo-output finished = succeeded or failed *)
Definition member_holds (v : atom -> bool) (off : nat) (o : string) (m : name) : bool :=
  if String.eqb o TASK_OUTPUT_FINISHED
  then v (m, off, TASK_OUTPUT_SUCCEEDED) || v (m, off, TASK_OUTPUT_FAILED)
  else v (m, off, o).

(* documented value of a left-hand node *)
Definition doc_node (fm : family_map) (v : atom -> bool) (n : node) : bool :=
  match fam_members fm (n_name n) with
  | Some ms =>
      match n_qual n with
      | Some q =>
          match assoc String.eqb q doc_fam_table with
          | Some (o, true) => forallb (member_holds v (n_off n) o) ms
          | Some (o, false) => existsb (member_holds v (n_off n) o) ms
          | None => false
          end
      | None => false
      end
  | None =>
      member_holds v (n_off n)
        (match n_qual n with Some q => std_name q | None => TASK_OUTPUT_SUCCEEDED end) (n_name n)
  end.

(* documented member outputs whose optionality a right-hand FAM:<q>-x sets *)
Definition doc_outputs (o : string) : list string :=
  if String.eqb o TASK_OUTPUT_FINISHED then [TASK_OUTPUT_SUCCEEDED; TASK_OUTPUT_FAILED] else [o].

(* ---- the tree that GraphBase.expand_left produces (as a tree): every node is
   replaced by its member-level expression ---- *)

Definition member_expr (off : nat) (out : string) (m : name) : lexpr :=
  if String.eqb out TASK_OUTPUT_FINISHED
  then LPar (LOr (LN (mk_atom_node m off TASK_OUTPUT_SUCCEEDED)) (LN (mk_atom_node m off TASK_OUTPUT_FAILED)))
  else LN (mk_atom_node m off out).

Definition task_out (n : node) : string :=
  match n_qual n with Some q => std_name q | None => TASK_OUTPUT_SUCCEEDED end.

(* what a left-hand node becomes *)
Definition expand_node_e (fm : family_map) (n : node) : lexpr :=
  match fam_members fm (n_name n) with
  | Some ms =>
      match n_qual n with
      | Some q =>
          match assoc String.eqb (std_name q) fam_to_mem_trigger_map with
          | Some (ttype, all) => LPar (big_op all (map (member_expr (n_off n) ttype) ms))
          | None => LN n
          end
      | None => LN n
      end
  | None => member_expr (n_off n) (task_out n) (n_name n)
  end.

Fixpoint expand_e (fm : family_map) (e : lexpr) : lexpr :=
  match e with
  | LN n => expand_node_e fm n
  | LPar e => LPar (expand_e fm e)
  | LAnd a b => LAnd (expand_e fm a) (expand_e fm b)
  | LOr a b => LOr (expand_e fm a) (expand_e fm b)
  end.

(* a left-hand node that the parser accepts *)
Definition node_accepted (fm : family_map) (n : node) : bool :=
  match fam_members fm (n_name n) with
  | Some ms =>
      negb (is_nil ms)
      && match n_qual n with
         | Some q => match assoc String.eqb (std_name q) fam_to_mem_trigger_map with Some _ => true | None => false end
         | None => false
         end
  | None => negb (is_fam_qual (task_out n))
  end.

