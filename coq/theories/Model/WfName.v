(* Model/WfName.v — executable model of workflow-name validation (C39):
     cylc/flow/unicode_rules.py   UnicodeRuleChecker.validate with the rules of
                                  WorkflowNameValidator (Gen/WfNameRules.v)
     cylc/flow/workflow_files.py  validate_workflow_name, check_reserved_dir_names
     posixpath                    isabs, normpath, join; PurePosixPath.parts
   Strings are lists of code points (list Z).  Hand model, tied to the source by
   the C39 correspondence stream.  Python's `$` (no re.M) matches at the end of
   the string *or just before a final newline*; the model does the same. *)
From Coq Require Import List ZArith Bool.
From Cylc Require Import Base.Util Gen.WfNameRules Gen.UniClasses.
Import ListNotations.
Open Scope Z_scope.

Definition codes := list Z.
Definition codes_eqb : codes -> codes -> bool := list_eqb Z.eqb.
Definition dot : codes := [46].
Definition dotdot : codes := [46; 46].

Fixpoint starts_with (p s : codes) : bool :=
  match p, s with
  | [], _ => true
  | a :: p', b :: s' => (a =? b) && starts_with p' s'
  | _ :: _, [] => false
  end.

Definition last_is (c : Z) (s : codes) : bool :=
  match rev s with x :: _ => x =? c | [] => false end.

(* regex `...$`: the body predicate P holds of the whole string, or of the
   string without its final newline *)
Definition match_dollar (P : codes -> bool) (s : codes) : bool :=
  P s || (last_is 10 s && P (removelast s)).

Definition zlen (s : codes) : Z := Z.of_nat (List.length s).
Definition nonempty (s : codes) : bool := match s with [] => false | _ => true end.

(* ---------- the unicode rules ---------- *)
Section Classes.
  (* the regex classes \w and \d of the regex engine *)
  Variable is_word is_digit : Z -> bool.

  Definition item_match (c : Z) (it : citem) : bool :=
    match it with
    | CChar x => c =? x
    | CRange lo hi => (lo <=? c) && (c <=? hi)
    | CWord => is_word c
    | CDigit => is_digit c
    end.
  Definition in_cls (cls : list citem) (c : Z) : bool := existsb (item_match c) cls.

  (* rule.match(string) *)
  Definition match_rule (r : rule) (s : codes) : bool :=
    match r with
    | RLen lo hi =>                       (* ^.{lo,hi}$   ('.' is anything but \n) *)
        match_dollar (fun b => forallb (fun c => negb (c =? 10)) b
                               && (lo <=? zlen b) && (zlen b <=? hi)) s
    | RNotStart cls =>                    (* ^[^cls] *)
        match s with c :: _ => negb (in_cls cls c) | [] => false end
    | RStart cls =>                       (* ^[cls] *)
        match s with c :: _ => in_cls cls c | [] => false end
    | RAllowed cls =>                     (* ^[cls]+$ *)
        match_dollar (fun b => nonempty b && forallb (in_cls cls) b) s
    | RDisallowed cls =>                  (* ^[^cls]*$ *)
        match_dollar (fun b => forallb (fun c => negb (in_cls cls c)) b) s
    end.

  (* index of the first rule that does not match *)
  Fixpoint first_fail (rs : list rule) (i : nat) (s : codes) : option nat :=
    match rs with
    | [] => None
    | r :: rest => if match_rule r s then first_fail rest (S i) s else Some i
    end.

  (* re.match(r'^run\d+$', comp) *)
  Definition is_run_number (comp : codes) : bool :=
    match_dollar (fun b => starts_with runN_prefix b
                           && nonempty (skipn (List.length runN_prefix) b)
                           && forallb is_digit (skipn (List.length runN_prefix) b)) comp.
End Classes.

(* ---------- posixpath ---------- *)
Fixpoint split_on (sep : Z) (s : codes) : list codes :=
  match s with
  | [] => [[]]
  | c :: r =>
      if c =? sep then [] :: split_on sep r
      else match split_on sep r with
           | h :: t => (c :: h) :: t
           | [] => [[c]]
           end
  end.

Fixpoint join_with (sep : Z) (l : list codes) : codes :=
  match l with
  | [] => []
  | x :: r => match r with [] => x | _ => x ++ sep :: join_with sep r end
  end.

Definition isabs (p : codes) : bool := starts_with [47] p.

(* posixpath.join(a, b) *)
Definition pjoin (a b : codes) : codes :=
  if isabs b then b
  else if negb (nonempty a) || last_is 47 a then a ++ b
  else a ++ 47 :: b.

Definition initial_slashes (p : codes) : nat :=
  if starts_with [47; 47; 47] p then 1%nat
  else if starts_with [47; 47] p then 2%nat
  else if starts_with [47] p then 1%nat
  else 0%nat.

(* one iteration of the `for comp in comps` loop of normpath; the stack is
   new_comps reversed (head = last element) *)
Definition np_step (init : bool) (stack : list codes) (comp : codes) : list codes :=
  if codes_eqb comp [] || codes_eqb comp dot then stack
  else if negb (codes_eqb comp dotdot) then comp :: stack
  else match stack with
       | [] => if init then [] else [comp]
       | top :: rest => if codes_eqb top dotdot then comp :: stack else rest
       end.

Definition np_stack (init : bool) (comps : list codes) : list codes :=
  fold_left (np_step init) comps [].

(* new_comps of normpath(p), in order *)
Definition path_comps (p : codes) : list codes :=
  rev (np_stack (negb (Nat.eqb (initial_slashes p) 0)) (split_on 47 p)).

Definition normpath (p : codes) : codes :=
  match p with
  | [] => dot
  | _ => let r := repeat 47 (initial_slashes p) ++ join_with 47 (path_comps p) in
         match r with [] => dot | _ => r end
  end.

(* PurePosixPath(p).parts for a relative p *)
Definition parts (p : codes) : list codes :=
  filter (fun c => negb (codes_eqb c [] || codes_eqb c dot)) (split_on 47 p).

(* ---------- validate_workflow_name ---------- *)
Inductive outcome :=
  | Ok
  | Invalid (rule_index : nat)    (* "invalid workflow name ... <message of rule i>" *)
  | IsAbs                         (* "workflow name cannot be an absolute path" *)
  | Above                         (* "... points to the cylc-run directory or above" *)
  | Reserved (dir : codes)        (* "cannot contain a directory named '<dir>'" *)
  | RunNumber.                    (* "cannot contain a directory named 'run<number>'" *)

Section Validate.
  Variable is_word is_digit : Z -> bool.

  Fixpoint check_reserved (ps : list codes) : outcome :=
    match ps with
    | [] => Ok
    | d :: r =>
        if mem codes_eqb d reserved_names then Reserved d
        else if is_run_number is_digit d then RunNumber
        else check_reserved r
    end.

  Definition validate (check_reserved_names : bool) (name : codes) : outcome :=
    match first_fail is_word is_digit rules 0 name with
    | Some i => Invalid i
    | None =>
        if isabs name then IsAbs
        else
          let n := normpath name in
          if starts_with dot n then Above
          else if check_reserved_names then check_reserved (parts n)
          else Ok
    end.
End Validate.

(* ---------- correspondence interface ---------- *)
Definition outcome_eqb (a b : outcome) : bool :=
  match a, b with
  | Ok, Ok | IsAbs, IsAbs | Above, Above | RunNumber, RunNumber => true
  | Invalid i, Invalid j => Nat.eqb i j
  | Reserved x, Reserved y => codes_eqb x y
  | _, _ => false
  end.

Record case := {
  c_name : codes;            (* the name given to validate_workflow_name *)
  c_chk : bool;              (* check_reserved_names *)
  c_run : codes;             (* a cylc-run directory (absolute path) *)
  c_impl : outcome;          (* what the implementation did *)
  c_norm : codes;            (* os.path.normpath(name) *)
  c_full : codes;            (* os.path.normpath(os.path.join(run, name)) *)
}.

Definition model_out (c : case) : outcome * codes * codes :=
  (validate is_word_tbl is_digit_tbl (c_chk c) (c_name c),
   normpath (c_name c), normpath (pjoin (c_run c) (c_name c))).

Definition check_case (c : case) : bool :=
  outcome_eqb (validate is_word_tbl is_digit_tbl (c_chk c) (c_name c)) (c_impl c)
  && codes_eqb (normpath (c_name c)) (c_norm c)
  && codes_eqb (normpath (pjoin (c_run c) (c_name c))) (c_full c).
