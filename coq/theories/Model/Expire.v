(* C32 -- clock expiry.  Executable model of

     TaskPool.clock_expire_tasks          cylc/flow/task_pool.py
     TaskProxy.clock_expire               cylc/flow/task_proxy.py
     TaskProxy.state_reset (expired)      cylc/flow/task_proxy.py
     TaskEventsManager.process_message / _process_message_expired / spawn_children
     TaskPool.spawn_on_output / remove_if_complete / remove (the parts the expired output reaches)
     TaskPool.queue_if_ready / queue_task / queue_or_trigger / release_held_active_task
     Scheduler.release_tasks_to_run -> TaskPool.release_queued_tasks -> prep_submit_task_jobs

   as the code has them (defects included).  Definitions only; lemmas are in
   Proofs/ExpireProofs.v, the property theorems in Props/C32.v.

   A task instance is a number (the harness numbers the (cycle, name) pairs).  The static
   facts of the workflow enter as the tables of [env]: the graph children of every
   (instance, output), the parentless successor of an instance, the expiry time and the
   completion expression of every instance, the instances to be held when spawned. *)
From Coq Require Import List ZArith NArith Bool.
From Cylc Require Import Base.Util.
Import ListNotations.
Local Open Scope Z_scope.

Inductive status := Waiting | Expired | Preparing | SubmitFailed | Submitted | Running | Failed | Succeeded.

Definition status_eqb (a b : status) : bool :=
  match a, b with
  | Waiting, Waiting | Expired, Expired | Preparing, Preparing | SubmitFailed, SubmitFailed
  | Submitted, Submitted | Running, Running | Failed, Failed | Succeeded, Succeeded => true
  | _, _ => false
  end.

(* TASK_STATUSES_FINAL *)
Definition is_final (s : status) : bool :=
  match s with Expired | SubmitFailed | Failed | Succeeded => true | _ => false end.

(* completion expressions over output numbers; output 0 is `expired` *)
Inductive cexpr := CVar (o : N) | CAnd (a b : cexpr) | COr (a b : cexpr) | CTrue | CFalse.

Fixpoint ceval (outs : list N) (e : cexpr) : bool :=
  match e with
  | CVar o => mem N.eqb o outs
  | CAnd a b => ceval outs a && ceval outs b
  | COr a b => ceval outs a || ceval outs b
  | CTrue => true
  | CFalse => false
  end.

Fixpoint cexpr_eqb (a b : cexpr) : bool :=
  match a, b with
  | CVar x, CVar y => N.eqb x y
  | CAnd a1 a2, CAnd b1 b2 | COr a1 a2, COr b1 b2 => cexpr_eqb a1 b1 && cexpr_eqb a2 b2
  | CTrue, CTrue | CFalse, CFalse => true
  | _, _ => false
  end.

Definition O_EXPIRED : N := 0%N.

Record task := mkTask {
  t_id : N;
  t_status : status;
  t_manual : bool;          (* itask.is_manual_submit *)
  t_held : bool;            (* state.is_held *)
  t_queued : bool;          (* state.is_queued *)
  t_runahead : bool;        (* state.is_runahead *)
  t_expire : option Z;      (* itask.expire_time (None: no clock-expire offset) *)
  t_flow : bool;            (* itask.flow_nums is not empty *)
  t_flow_wait : bool;       (* itask.flow_wait *)
  t_outs : list N;          (* completed outputs *)
  t_comp : cexpr;           (* completion expression *)
  t_inq : bool;             (* the task sits in a queue of the task queue manager *)
  t_prep : bool;            (* itask.waiting_on_job_prep *)
  t_trig : bool             (* itask in pool.tasks_to_trigger_now *)
}.

Definition ids (l : list task) : list N := map t_id l.

Record env := mkEnv {
  e_children : list ((N * N) * list N);   (* (instance, output) -> graph children *)
  e_next : list (N * N);                  (* instance -> next parentless instance of the same task *)
  e_expire : list (N * Z);                (* instance -> expiry time *)
  e_comp : list (N * cexpr);              (* instance -> completion expression *)
  e_hold : list N                         (* instances held when spawned (tasks_to_hold / hold point) *)
}.

Definition nn_eqb (a b : N * N) : bool := N.eqb (fst a) (fst b) && N.eqb (snd a) (snd b).

Definition children (e : env) (i o : N) : list N :=
  match assoc nn_eqb (i, o) (e_children e) with Some l => l | None => [] end.

(* TaskPool.spawn_task for an instance that has no history: TaskProxy.__init__ / TaskState.__init__ *)
Definition new_task (e : env) (i : N) : task :=
  mkTask i Waiting false (mem N.eqb i (e_hold e)) false true
         (assoc N.eqb i (e_expire e)) true false []
         (match assoc N.eqb i (e_comp e) with Some c => c | None => CFalse end)
         false false false.

Inductive event :=
| EvExpired (i : N)              (* process_message(itask, WARNING, "expired") from the expiry pass *)
| EvSpawn (parent child : N)     (* spawn_on_output: child spawned and added to the pool *)
| EvSat (parent child : N)       (* spawn_on_output: child already in the pool, prerequisite satisfied *)
| EvNoSpawn (parent child : N)   (* spawn_on_output: spawn_task returned None (instance already finished) *)
| EvNext (i succ : N)            (* remove(): next parentless instance spawned *)
| EvRemove (i : N)
| EvSubmit (i : N) (before : status)   (* job submission started (state -> preparing) *)
| EvQueue (i : N)
| EvManual (i : N).

Definition event_eqb (a b : event) : bool :=
  match a, b with
  | EvExpired x, EvExpired y | EvRemove x, EvRemove y | EvQueue x, EvQueue y | EvManual x, EvManual y => N.eqb x y
  | EvSpawn p c, EvSpawn p' c' | EvSat p c, EvSat p' c' | EvNoSpawn p c, EvNoSpawn p' c'
  | EvNext p c, EvNext p' c' => N.eqb p p' && N.eqb c c'
  | EvSubmit x s, EvSubmit y s' => N.eqb x y && status_eqb s s'
  | _, _ => false
  end.

(* ------------------------------------------------------------------------------------------ *)
(* The expiry decision.                                                                        *)
(* TaskProxy.clock_expire: False when no expire time, already expired, or time() < expire_time *)
Definition clock_expire (now : Z) (t : task) : bool :=
  match t_expire t with
  | None => false
  | Some x => negb (status_eqb (t_status t) Expired) && negb (now <? x)
  end.

(* the guard of TaskPool.clock_expire_tasks *)
Definition eligible (now : Z) (t : task) : bool :=
  negb (t_manual t) && status_eqb (t_status t) Waiting && clock_expire now t.

(* task_queue_mgr.remove_task; outputs.set_message_complete("expired");
   _process_message_expired -> TaskProxy.state_reset(expired): is_queued = is_runahead = False *)
Definition mark_expired (t : task) : task :=
  mkTask (t_id t) Expired (t_manual t) (t_held t) false false (t_expire t) (t_flow t) (t_flow_wait t)
         (if mem N.eqb O_EXPIRED (t_outs t) then t_outs t else O_EXPIRED :: t_outs t)
         (t_comp t) false (t_prep t) (t_trig t).

(* spawn_on_output, the loop over the children of one output.
   pool: ids now in the pool; gone: ids that were in the pool in a flow and finished (spawn_task
   finds their history and gives None) *)
Fixpoint spawn_list (e : env) (parent : N) (pool gone : list N) (cs : list N) : list task * list event :=
  match cs with
  | [] => ([], [])
  | c :: rest =>
      if mem N.eqb c pool then
        let '(ts, evs) := spawn_list e parent pool gone rest in (ts, EvSat parent c :: evs)
      else if mem N.eqb c gone then
        let '(ts, evs) := spawn_list e parent pool gone rest in (ts, EvNoSpawn parent c :: evs)
      else
        let '(ts, evs) := spawn_list e parent (c :: pool) gone rest in
        (new_task e c :: ts, EvSpawn parent c :: evs)
  end.

(* children = graph_children[output] if itask.flow_nums else [];
   "if itask.flow_wait and children: not spawning" *)
Definition spawn_on_output (e : env) (t : task) (o : N) (pool gone : list N) : list task * list event :=
  let cs := if t_flow t then children e (t_id t) o else [] in
  if t_flow_wait t && negb (match cs with [] => true | _ => false end) then ([], [])
  else spawn_list e (t_id t) pool gone cs.

(* TaskPool.remove: "if itask.flow_nums and itask.state.is_runahead: spawn_next_parentless(itask)" *)
Definition removal_spawn (e : env) (t : task) (pool gone : list N) : list task * list event :=
  if t_flow t && t_runahead t then
    match assoc N.eqb (t_id t) (e_next e) with
    | Some s => if mem N.eqb s pool || mem N.eqb s gone then ([], [])
                else ([new_task e s], [EvNext (t_id t) s])
    | None => ([], [])
    end
  else ([], []).

(* remove_if_complete: final status and completion expression satisfied *)
Definition complete (t : task) : bool := is_final (t_status t) && ceval (t_outs t) (t_comp t).

(* the pool during the pass: [done] = visited tasks still in the pool, [todo] = still to visit
   (the loop runs over the list returned by get_tasks() when it started), [fresh] = tasks added
   during the pass (not visited by this pass) *)
Fixpoint pass_go (e : env) (now : Z) (done todo fresh : list task) (gone : list N) (evs : list event)
  : list task * list N * list event :=
  match todo with
  | [] => (done ++ fresh, gone, evs)
  | t :: rest =>
      if eligible now t then
        let pool := ids done ++ ids todo ++ ids fresh in
        let t1 := mark_expired t in
        let '(kids, evk) := spawn_on_output e t1 O_EXPIRED pool gone in
        if complete t1 then
          let '(succ, evn) := removal_spawn e t1 (pool ++ ids kids) gone in
          pass_go e now done rest (fresh ++ kids ++ succ) (t_id t :: gone)
                  (evs ++ EvExpired (t_id t) :: evk ++ evn ++ [EvRemove (t_id t)])
        else
          pass_go e now (done ++ [t1]) rest (fresh ++ kids) gone (evs ++ EvExpired (t_id t) :: evk)
      else pass_go e now (done ++ [t]) rest fresh gone evs
  end.

(* TaskPool.clock_expire_tasks with time() = now *)
Definition clock_expire_tasks (e : env) (now : Z) (pool : list task) (gone : list N)
  : list task * list N * list event :=
  pass_go e now [] pool [] gone [].

Definition expired_ids (evs : list event) : list N :=
  flat_map (fun ev => match ev with EvExpired i => [i] | _ => [] end) evs.

Definition spawned_by (p : N) (evs : list event) : list N :=
  flat_map (fun ev => match ev with EvSpawn q c => if N.eqb p q then [c] else [] | _ => [] end) evs.

(* ------------------------------------------------------------------------------------------ *)
(* The rest of the scheduler, as far as it decides who is submitted.                           *)

Record state := mkState { s_pool : list task; s_gone : list N; s_log : list event }.

Definition upd (i : N) (f : task -> task) (l : list task) : list task :=
  map (fun t => if N.eqb (t_id t) i then f t else t) l.

Definition find_task (i : N) (l : list task) : option task :=
  find (fun t => N.eqb (t_id t) i) l.

Definition set_queued (t : task) : task :=
  mkTask (t_id t) (t_status t) (t_manual t) (t_held t) true (t_runahead t) (t_expire t) (t_flow t)
         (t_flow_wait t) (t_outs t) (t_comp t) true (t_prep t) (t_trig t).

(* is_ready_to_run without try timers: not held, waiting, prerequisites satisfied ([ready]) *)
Definition ready_to_run (ready : bool) (t : task) : bool :=
  negb (t_held t) && status_eqb (t_status t) Waiting && ready.

(* the main loop calls queue_if_ready for waiting, not queued, not runahead-limited tasks *)
Definition queue_if_ready (ready : bool) (t : task) : task :=
  if status_eqb (t_status t) Waiting && negb (t_queued t) && negb (t_runahead t)
     && negb (t_manual t) && ready_to_run ready t
  then set_queued t else t.

(* queue_or_trigger (cylc trigger), for every state of its target.  The first thing it does is
   is_manual_submit = True; then state_reset(waiting); then
     - target not flagged queued: push_task_if_limited ([limited] = the queue limit is reached: the
       task is put in the queue and flagged queued);
     - target flagged queued: task_queue_mgr.remove_task; if it was in a queue the flag is cleared
       (the task runs now regardless of the limit);
   and if it is not flagged queued now: waiting_on_job_prep = True, added to tasks_to_trigger_now.
   Held and runahead flags are not touched. *)
Definition queue_or_trigger (limited : bool) (t : task) : task :=
  let q := if t_queued t then negb (t_inq t) else limited in
  let iq := if t_queued t then false else limited in
  mkTask (t_id t) Waiting true (t_held t) q (t_runahead t) (t_expire t) (t_flow t) (t_flow_wait t)
         (t_outs t) (t_comp t) iq (if q then t_prep t else true) (if q then t_trig t else true).

Definition set_held (b : bool) (t : task) : task :=
  mkTask (t_id t) (t_status t) (t_manual t) b (t_queued t) (t_runahead t) (t_expire t) (t_flow t)
         (t_flow_wait t) (t_outs t) (t_comp t) (t_inq t) (t_prep t) (t_trig t).

(* release_held_active_task: "if not is_runahead and is_ready_to_run(): queue_task" *)
Definition release_held (ready : bool) (t : task) : task :=
  if t_held t then
    let t' := set_held false t in
    if negb (t_runahead t') && ready_to_run ready t' && negb (t_queued t') then set_queued t' else t'
  else t.

Definition set_runahead (b : bool) (t : task) : task :=
  mkTask (t_id t) (t_status t) (t_manual t) (t_held t) (t_queued t) b (t_expire t) (t_flow t)
         (t_flow_wait t) (t_outs t) (t_comp t) (t_inq t) (t_prep t) (t_trig t).

(* a job message / submission result: new status (never expired / preparing), outputs added *)
Definition job_msg (s : status) (outs : list N) (t : task) : task :=
  mkTask (t_id t) s (t_manual t) (t_held t) (t_queued t) (t_runahead t) (t_expire t) (t_flow t)
         (t_flow_wait t) (outs ++ t_outs t) (t_comp t) (t_inq t) (t_prep t) (t_trig t).

(* prep_submit_task_jobs + submission: state -> preparing, is_manual_submit = False,
   waiting_on_job_prep = False; release_queued_tasks: is_queued = False *)
Definition submit_task (t : task) : task :=
  mkTask (t_id t) Preparing false (t_held t) false (t_runahead t) (t_expire t) (t_flow t)
         (t_flow_wait t) (t_outs t) (t_comp t) false false false.

(* release_tasks_to_run: tasks_to_trigger_now + queue-released + waiting_on_job_prep *)
Definition in_pre_prep (released : list N) (t : task) : bool :=
  t_trig t || t_prep t || mem N.eqb (t_id t) released.

(* the queues release only queued, not held tasks *)
Definition releasable (pool : list task) (i : N) : bool :=
  match find_task i pool with
  | Some t => (t_inq t && negb (t_held t)) || t_prep t
  | None => false
  end.

Definition release_submit (released : list N) (pool : list task) : list task * list event :=
  (map (fun t => if in_pre_prep released t then submit_task t else t) pool,
   flat_map (fun t => if in_pre_prep released t then [EvSubmit (t_id t) (t_status t)] else []) pool).

Inductive op :=
| OPass (e : env) (now : Z)                    (* clock_expire_tasks *)
| OQueue (i : N) (ready : bool)                (* queue_if_ready from the main loop *)
| OReleaseSubmit (released : list N)           (* release_tasks_to_run *)
| OManual (i : N) (limited : bool)             (* cylc trigger -> queue_or_trigger *)
| OHold (i : N)                                (* cylc hold *)
| ORelease (i : N) (ready : bool)              (* cylc release *)
| ORunahead (i : N) (b : bool)                 (* runahead limiting / release *)
| OMsg (i : N) (s : status) (outs : list N)    (* job message / submission result / poll *)
| OSpawn (e : env) (i : N)                     (* a task spawned by another task's output *)
| ORemove (e : env) (i : N).                   (* TaskPool.remove (completed, cylc remove, ...) *)

Definition msg_status_ok (s : status) : bool :=
  match s with Expired | Preparing => false | _ => true end.

(* None: the operation is not enabled in this state *)
Definition step (st : state) (o : op) : option state :=
  let p := s_pool st in
  match o with
  | OPass e now =>
      let '(p', g', evs) := clock_expire_tasks e now p (s_gone st) in
      Some (mkState p' g' (s_log st ++ evs))
  | OQueue i ready => Some (mkState (upd i (queue_if_ready ready) p) (s_gone st) (s_log st))
  | OReleaseSubmit released =>
      if forallb (releasable p) released then
        let '(p', evs) := release_submit released p in
        Some (mkState p' (s_gone st) (s_log st ++ evs))
      else None
  | OManual i limited =>
      match find_task i p with
      | Some t =>
          (* cylc trigger leaves preparing / submitted / running tasks alone *)
          match t_status t with
          | Preparing | Submitted | Running => None
          | _ => Some (mkState (upd i (queue_or_trigger limited) p) (s_gone st) (s_log st ++ [EvManual i]))
          end
      | None => None
      end
  | OHold i => Some (mkState (upd i (set_held true) p) (s_gone st) (s_log st))
  | ORelease i ready => Some (mkState (upd i (release_held ready) p) (s_gone st) (s_log st))
  | ORunahead i b => Some (mkState (upd i (set_runahead b) p) (s_gone st) (s_log st))
  | OMsg i s outs =>
      match find_task i p with
      | Some t =>
          if msg_status_ok s && negb (t_prep t)
          then Some (mkState (upd i (job_msg s outs) p) (s_gone st) (s_log st))
          else None
      | None => None
      end
  | OSpawn e i =>
      if mem N.eqb i (ids p) || mem N.eqb i (s_gone st) then None
      else Some (mkState (p ++ [new_task e i]) (s_gone st) (s_log st))
  | ORemove e i =>
      match find_task i p with
      | Some t =>
          let '(succ, evn) := removal_spawn e t (ids p) (s_gone st) in
          Some (mkState (filter (fun u => negb (N.eqb (t_id u) i)) p ++ succ) (i :: s_gone st)
                        (s_log st ++ evn ++ [EvRemove i]))
      | None => None
      end
  end.

Fixpoint run (st : state) (os : list op) : option state :=
  match os with
  | [] => Some st
  | o :: rest => match step st o with Some st' => run st' rest | None => None end
  end.

(* the submission guard: what makes an expired task unsubmittable *)
Definition task_ok (t : task) : bool :=
  (* tasks_to_trigger_now / waiting_on_job_prep only for manually triggered tasks *)
  (negb (t_trig t) || t_manual t)
  && (negb (t_prep t) || t_manual t || status_eqb (t_status t) Preparing) &&
  (* an expired task is in no queue, not flagged queued, not awaiting job preparation *)
  (negb (status_eqb (t_status t) Expired)
   || (negb (t_inq t) && negb (t_queued t) && negb (t_prep t) && negb (t_trig t))).

Definition pool_ok (p : list task) : bool := forallb task_ok p.

Fixpoint nodup_N (l : list N) : bool :=
  match l with [] => true | x :: r => negb (mem N.eqb x r) && nodup_N r end.

Definition wf_state (p : list task) (gone : list N) : bool :=
  nodup_N (ids p) && forallb (fun i => negb (mem N.eqb i gone)) (ids p).

(* ------------------------------------------------------------------------------------------ *)
(* Correspondence cases: one checkpoint per main-loop iteration of a real scheduler run.       *)

Definition opt_eqb {A} (f : A -> A -> bool) (a b : option A) : bool := option_eqb f a b.

Definition task_eqb (a b : task) : bool :=
  N.eqb (t_id a) (t_id b) && status_eqb (t_status a) (t_status b) && Bool.eqb (t_manual a) (t_manual b)
  && Bool.eqb (t_held a) (t_held b) && Bool.eqb (t_queued a) (t_queued b)
  && Bool.eqb (t_runahead a) (t_runahead b) && opt_eqb Z.eqb (t_expire a) (t_expire b)
  && Bool.eqb (t_flow a) (t_flow b) && Bool.eqb (t_flow_wait a) (t_flow_wait b)
  && list_eqb N.eqb (sort_by N.leb (t_outs a)) (sort_by N.leb (t_outs b))
  && cexpr_eqb (t_comp a) (t_comp b) && Bool.eqb (t_inq a) (t_inq b) && Bool.eqb (t_prep a) (t_prep b)
  && Bool.eqb (t_trig a) (t_trig b).

Definition by_id (l : list task) : list task := sort_by (fun a b => N.leb (t_id a) (t_id b)) l.

Definition pool_eqb (a b : list task) : bool := list_eqb task_eqb (by_id a) (by_id b).

Record ckpt := mkCkpt {
  k_hold : list N;             (* tasks_to_hold / beyond the hold point, at the time of the pass *)
  k_now : Z;
  k_before : list task;        (* pool_view at entry of clock_expire_tasks, get_tasks() order *)
  k_gone : list N;             (* instances that left the pool while in a flow and are not back *)
  k_evs : list event;          (* what the real pass did, in order *)
  k_after : option (list task);   (* pool at exit of clock_expire_tasks (None: identical to k_before) *)
  k_has_release : bool;        (* release_queued_tasks ran in this iteration (not stopping) *)
  k_released : list N;         (* ids returned by release_queued_tasks *)
  k_subs : list event;         (* EvSubmit for every job submission started in release_tasks_to_run *)
  k_final : option (list task)    (* pool at exit of release_tasks_to_run (None: identical to k_after) *)
}.

(* one call of TaskPool.queue_or_trigger in a real run: the target before, whether
   push_task_if_limited queued it, the target after *)
Record trig := mkTrig { g_before : task; g_limited : bool; g_after : task }.

(* the static tables of the workflow, one checkpoint per main-loop iteration, the trigger calls *)
Definition case := (env * list ckpt * list trig)%type.

Definition with_hold (e : env) (h : list N) : env :=
  mkEnv (e_children e) (e_next e) (e_expire e) (e_comp e) h.

(* a recorded task: the completion expression is the one of its task definition *)
Definition tk (e : env) (i : N) (st : status) (manual held queued runahead : bool) (ex : option Z)
           (flow flow_wait : bool) (outs : list N) (inq prep trig : bool) : task :=
  mkTask i st manual held queued runahead ex flow flow_wait outs
         (match assoc N.eqb i (e_comp e) with Some c => c | None => CFalse end) inq prep trig.

Definition after_of (k : ckpt) : list task := match k_after k with Some l => l | None => k_before k end.
Definition final_of (k : ckpt) : list task := match k_final k with Some l => l | None => after_of k end.

Definition check_ckpt (e0 : env) (k : ckpt) : bool :=
  let e := with_hold e0 (k_hold k) in
  let '(p', g', evs) := clock_expire_tasks e (k_now k) (k_before k) (k_gone k) in
  wf_state (k_before k) (k_gone k)
  && pool_ok (k_before k) && pool_ok (after_of k) && pool_ok (final_of k)
  && pool_eqb p' (after_of k)
  && list_eqb event_eqb evs (k_evs k)
  && (if k_has_release k then
        forallb (releasable (after_of k)) (k_released k)
        && (let '(p2, evs2) := release_submit (k_released k) (after_of k) in
            pool_eqb p2 (final_of k) && list_eqb event_eqb evs2 (k_subs k))
      else true).

Definition check_trig (g : trig) : bool :=
  task_eqb (queue_or_trigger (g_limited g) (g_before g)) (g_after g)
  && t_manual (g_after g) && task_ok (g_after g).

Definition check_case (c : case) : bool :=
  let '(e, ks, gs) := c in forallb (check_ckpt e) ks && forallb check_trig gs.

Definition model_out (c : case) :=
  let '(e, ks, gs) := c in
  (map (fun k => (clock_expire_tasks (with_hold e (k_hold k)) (k_now k) (k_before k) (k_gone k),
                  release_submit (k_released k) (after_of k),
                  (wf_state (k_before k) (k_gone k), pool_ok (k_before k), pool_ok (after_of k), pool_ok (final_of k))))
       (filter (fun k => negb (check_ckpt e k)) ks),
   map (fun g => (g_before g, queue_or_trigger (g_limited g) (g_before g)))
       (filter (fun g => negb (check_trig g)) gs)).
