(* Model/GraphBase.v — token-level model of the pair-processing half of
   cylc/flow/graph_parser.py: GraphParser._proc_dep_pair, _families_all_to_all,
   _compute_triggers, _set_triggers, _set_output_opt.  Shared by C15
   (Model/FamTrig.v) and C14 (Model/GraphParse.v).  Executable definitions only.

   A graph string is modelled as a list of tokens.  A node token stands for
   the text  NAME[OFFSET]:QUALIFIER?  matched as one unit by REC_NODES /
   REC_RHS_NODE / REC_NODE_FULL; task and family names and offsets are numbered
   by the harness, qualifiers are the real strings (they are looked up in the
   tables generated from the source, Gen/FamTables.v).  The regular-expression
   substitutions that _proc_dep_pair performs on the expression string
   (making ":succeeded" explicit, standardising qualifiers, removing "?",
   replacing family nodes by their members, expanding ":finished") are modelled
   as token-wise substitutions; this is exact as long as no node text is a
   word-delimited part of another node's text (see ASSUMES of c14.py/c15.py).
   xtriggers, parameters and workflow-state polling nodes are not modelled. *)
From Coq Require Import List Bool Arith String.
From Cylc Require Import Base.Util Gen.FamTables.
Import ListNotations.

Definition name := nat.

(* NAME[OFFSET]:QUAL? as written; n_off = 0 means no offset *)
Record node := mkNode { n_name : name; n_off : nat; n_qual : option string; n_opt : bool }.

Inductive tok :=
| TN (n : node)
| TAnd | TOr | TLp | TRp | TBang | TArrow
| TWs (k : nat)      (* a run of blanks (which blanks: harness palette entry k) *)
| TCom (k : nat)     (* a comment "#..." up to the end of the physical line *)
| TNl.               (* newline *)

Inductive res (A : Type) := Ok (a : A) | GErr | Unmod.
Arguments Ok {A} a. Arguments GErr {A}. Arguments Unmod {A}.
(* GErr  = the code raises GraphParseError;
   Unmod = input outside the modelled fragment (never produced for the
           inputs the streams send to Coq). *)

Definition bind {A B} (r : res A) (f : A -> res B) : res B :=
  match r with Ok a => f a | GErr => GErr | Unmod => Unmod end.

(* ---- decidable equalities ---- *)
Definition node_eqb (a b : node) : bool :=
  Nat.eqb (n_name a) (n_name b) && Nat.eqb (n_off a) (n_off b)
  && option_eqb String.eqb (n_qual a) (n_qual b) && Bool.eqb (n_opt a) (n_opt b).

Definition tok_eqb (a b : tok) : bool :=
  match a, b with
  | TN x, TN y => node_eqb x y
  | TAnd, TAnd | TOr, TOr | TLp, TLp | TRp, TRp | TBang, TBang
  | TArrow, TArrow | TNl, TNl => true
  | TWs x, TWs y => Nat.eqb x y
  | TCom x, TCom y => Nat.eqb x y
  | _, _ => false
  end.

Definition toks_eqb := list_eqb tok_eqb.

Definition is_and (t : tok) := match t with TAnd => true | _ => false end.
Definition is_or (t : tok) := match t with TOr => true | _ => false end.
Definition is_lp (t : tok) := match t with TLp => true | _ => false end.
Definition is_rp (t : tok) := match t with TRp => true | _ => false end.
Definition is_bang (t : tok) := match t with TBang => true | _ => false end.
Definition is_arrow (t : tok) := match t with TArrow => true | _ => false end.

(* str.split(sep): n separators give n+1 pieces, empty pieces kept *)
Fixpoint split_on (sep : tok -> bool) (l : list tok) : list (list tok) :=
  match l with
  | [] => [[]]
  | t :: r =>
      if sep t then [] :: split_on sep r
      else match split_on sep r with
           | p :: ps => (t :: p) :: ps
           | [] => [[t]]
           end
  end.

Definition is_nil {A} (l : list A) : bool := match l with [] => true | _ => false end.

(* the atoms of trigger expressions: task, offset, standard output name *)
Definition atom := (name * nat * string)%type.
Definition atom_eqb (a b : atom) : bool :=
  match a, b with (n1, o1, s1), (n2, o2, s2) => Nat.eqb n1 n2 && Nat.eqb o1 o2 && String.eqb s1 s2 end.

(* ---- parser state ---- *)
(* self.triggers[name][expr] = (trigs, suicide) *)
Record trig := mkTrig { tg_expr : list tok; tg_atoms : list atom; tg_suicide : bool }.
Definition trigmap := list (name * list trig).
(* self.task_output_opt[(name, output)] = (optional, default, fixed) *)
Definition optkey := (name * string)%type.
Definition optkey_eqb (a b : optkey) : bool := Nat.eqb (fst a) (fst b) && String.eqb (snd a) (snd b).
Definition optval := (bool * bool * bool)%type.
Definition optmap := list (optkey * optval).

Record pstate := mkState {
  ps_trig : trigmap;
  ps_opt : optmap;
  ps_lefts : list (list tok);           (* _lefts: node texts seen on a left side *)
  ps_rights : list (list tok);          (* _rights: right-side pieces *)
  ps_ct : list (list tok * list tok)    (* check_terminals: right -> left *)
}.
Definition empty_state : pstate := mkState [] [] [] [] [].

Definition family_map := list (name * list name).
Definition fam_members (fm : family_map) (n : name) : option (list name) := assoc Nat.eqb n fm.

(* dict update keeping first-insertion position *)
Fixpoint upd {K V} (eqb : K -> K -> bool) (k : K) (v : V) (l : list (K * V)) : list (K * V) :=
  match l with
  | [] => [(k, v)]
  | (k', v') :: r => if eqb k k' then (k, v) :: r else (k', v') :: upd eqb k v r
  end.

(* TaskTrigger.standardise_name *)
Definition std_name (q : string) : string :=
  match assoc String.eqb q alt_qualifiers with Some o => o | None => q end.

(* ---- _set_output_opt (cylc7_back_compat = False) ---- *)
Definition opposite (o : string) : option string :=
  if String.eqb o TASK_OUTPUT_SUCCEEDED then Some TASK_OUTPUT_FAILED
  else if String.eqb o TASK_OUTPUT_FAILED then Some TASK_OUTPUT_SUCCEEDED
  else if String.eqb o TASK_OUTPUT_SUBMITTED then Some TASK_OUTPUT_SUBMIT_FAILED
  else if String.eqb o TASK_OUTPUT_SUBMIT_FAILED then Some TASK_OUTPUT_SUBMITTED
  else None.

(* the part of _set_output_opt after the suicide / finished special cases *)
Definition set_opt1 (om : optmap) (n : name) (output : string) (optional fam : bool) : res optmap :=
  if (String.eqb output TASK_OUTPUT_EXPIRED || String.eqb output TASK_OUTPUT_SUBMIT_FAILED)
     && negb optional then GErr
  else
    let k := (n, output) in
    let r1 :=
      match assoc optkey_eqb k om with
      | None => Ok (om ++ [(k, (optional, optional, negb fam))])
      | Some (po, pd, pf) =>
          if pf then
            (if fam then Ok om else if Bool.eqb optional po then Ok om else GErr)
          else
            (if fam then (if Bool.eqb optional pd then Ok om else GErr)
             else Ok (upd optkey_eqb k (optional, pd, true) om))
      end in
    bind r1 (fun om1 =>
      match opposite output with
      | None => Ok om1
      | Some opp =>
          match assoc optkey_eqb (n, opp) om1 with
          | None => Ok om1
          | Some (oo, od, ofx) =>
              match assoc optkey_eqb k om1 with
              | None => Unmod
              | Some (o, _, _) =>
                  if fam || negb ofx then
                    (if negb o || negb od then GErr
                     else if negb o || negb oo then GErr
                     else Ok om1)
                  else if negb o || negb oo then GErr
                  else Ok om1
              end
          end
      end).

Definition set_opt (om : optmap) (n : name) (output : string) (optional suicide fam : bool) : res optmap :=
  if suicide then Ok om
  else if String.eqb output TASK_OUTPUT_FINISHED then
    (if optional then GErr
     else bind (set_opt1 om n TASK_OUTPUT_SUCCEEDED true fam)
               (fun om1 => set_opt1 om1 n TASK_OUTPUT_FAILED true fam))
  else set_opt1 om n output optional fam.

(* ---- _set_triggers (expire_triggers = False) ---- *)
Fixpoint find_trig (e : list tok) (l : list trig) : option trig :=
  match l with
  | [] => None
  | t :: r => if toks_eqb e (tg_expr t) then Some t else find_trig e r
  end.
Fixpoint put_trig (t : trig) (l : list trig) : list trig :=
  match l with
  | [] => [t]
  | t' :: r => if toks_eqb (tg_expr t) (tg_expr t') then t :: r else t' :: put_trig t r
  end.

Definition set_trig (tm : trigmap) (n : name) (t : trig) : res trigmap :=
  let cur := match assoc Nat.eqb n tm with Some l => l | None => [] end in
  let clash :=
    match find_trig (tg_expr t) cur with
    | Some t0 => negb (is_nil (tg_expr t)) && xorb (tg_suicide t) (tg_suicide t0)
    | None => false
    end in
  if clash then GErr else Ok (upd Nat.eqb n (put_trig t cur) tm).

(* ---- left side: standardise, expand families, expand :finished ---- *)
Definition mk_atom_node (m : name) (off : nat) (out : string) : node := mkNode m off (Some out) false.

(* one member-level node -> its tokens and atoms (":finished" expands) *)
Definition fin_expand (m : name) (off : nat) (out : string) : list tok * list atom :=
  if String.eqb out TASK_OUTPUT_FINISHED then
    ([TLp; TN (mk_atom_node m off TASK_OUTPUT_SUCCEEDED); TOr;
      TN (mk_atom_node m off TASK_OUTPUT_FAILED); TRp],
     [(m, off, TASK_OUTPUT_SUCCEEDED); (m, off, TASK_OUTPUT_FAILED)])
  else ([TN (mk_atom_node m off out)], [(m, off, out)]).

Fixpoint join_toks (sep : tok) (l : list (list tok)) : list tok :=
  match l with
  | [] => []
  | [x] => x
  | x :: r => x ++ sep :: join_toks sep r
  end.

Definition is_fam_qual (q : string) : bool :=
  match assoc String.eqb q fam_to_mem_trigger_map with Some _ => true | None => false end.

(* a left-side node: (tokens replacing it in the expression, atoms) *)
Definition expand_node (fm : family_map) (n : node) : res (list tok * list atom) :=
  match fam_members fm (n_name n) with
  | Some ms =>
      match n_qual n with
      | None => GErr                                  (* "Family trigger required" *)
      | Some q =>
          match assoc String.eqb (std_name q) fam_to_mem_trigger_map with
          | None => GErr                              (* "Illegal family trigger" *)
          | Some (ttype, all) =>
              let parts := map (fun m => fin_expand m (n_off n) ttype) ms in
              Ok (TLp :: join_toks (if all then TAnd else TOr) (map fst parts) ++ [TRp],
                  List.concat (map snd parts))
          end
      end
  | None =>
      let out := match n_qual n with Some q => std_name q | None => TASK_OUTPUT_SUCCEEDED end in
      if is_fam_qual out then GErr                    (* "family trigger on non-family namespace" *)
      else Ok (fin_expand (n_name n) (n_off n) out)
  end.

(* the whole left expression (one of the AND-split pieces, or the whole) *)
Fixpoint expand_left (fm : family_map) (l : list tok) : res (list tok * list atom) :=
  match l with
  | [] => Ok ([], [])
  | t :: r =>
      bind (expand_left fm r) (fun er =>
        match t with
        | TN n => bind (expand_node fm n) (fun en => Ok (fst en ++ fst er, snd en ++ snd er))
        | TAnd | TOr | TLp | TRp => Ok (t :: fst er, snd er)
        | _ => Unmod
        end)
  end.

(* ---- right side ---- *)
Fixpoint strip_l (l : list tok) : list tok :=
  match l with
  | TLp :: r | TRp :: r => strip_l r
  | _ => l
  end.
(* str.strip('()') *)
Definition strip_parens (l : list tok) : list tok := rev (strip_l (rev (strip_l l))).

(* REC_RHS_NODE.match on the stripped piece *)
Definition parse_rhs (p : list tok) : option (bool * node) :=
  match p with
  | [TN n] => Some (false, n)
  | [TBang; TN n] => Some (true, n)
  | _ => None
  end.

Fixpoint fold_res {A S} (f : S -> A -> res S) (l : list A) (s : S) : res S :=
  match l with
  | [] => Ok s
  | a :: r => bind (f s a) (fold_res f r)
  end.

(* body of the "for right in rights" loop of _compute_triggers *)
Definition proc_right (fm : family_map) (eoc : list (list tok))
    (expr : list tok) (atoms : list atom) (st : pstate) (piece : list tok) : res pstate :=
  let right := strip_parens piece in
  match parse_rhs right with
  | None => Unmod
  | Some (suicide, n) =>
      let optional := n_opt n in
      let r :=
        match fam_members fm (n_name n) with
        | Some ms =>
            let output := match n_qual n with
                          | None => if is_nil expr then Some "succeed-all"%string else None
                          | Some q => Some q
                          end in
            let starts_finish := match n_qual n with
                                 | Some q => String.prefix "finish"%string q
                                 | None => false end in
            if starts_finish && optional then GErr
            else
              let optional' := if starts_finish then true else optional in
              match output with
              | Some q =>
                  match assoc String.eqb q fam_to_mem_output_map with
                  | None => GErr                      (* "Illegal family trigger" *)
                  | Some outs => Ok (true, ms, outs, optional')
                  end
              | None => Ok (true, ms, [], optional')
              end
        | None =>
            let output :=
              match n_qual n with
              | Some q => Some (std_name q)
              | None => if optional || negb (mem toks_eqb right eoc) || is_nil expr
                        then Some TASK_OUTPUT_SUCCEEDED else None
              end in
            Ok (false, [n_name n], match output with Some o => [o] | None => [] end, optional)
        end in
      bind r (fun '(fam, members, outs, optional) =>
        fold_res (fun st m =>
          bind (if Nat.eqb (n_off n) 0
                then bind (set_trig (ps_trig st) m (mkTrig expr atoms suicide))
                       (fun tm => Ok (mkState tm (ps_opt st) (ps_lefts st) (ps_rights st) (ps_ct st)))
                else Ok st)
            (fun st1 =>
               bind (fold_res (fun om o => set_opt om m o optional suicide fam) outs (ps_opt st1))
                 (fun om => Ok (mkState (ps_trig st1) om (ps_lefts st1) (ps_rights st1) (ps_ct st1)))))
          members st)
  end.

Definition nodes_of (l : list tok) : list node :=
  flat_map (fun t => match t with TN n => [n] | _ => [] end) l.

Definition count_tok (p : tok -> bool) (l : list tok) : nat := count_true p l.

Definition has_offset (l : list tok) : bool :=
  existsb (fun n => negb (Nat.eqb (n_off n) 0)) (nodes_of l).

Definition add_set {A} (eqb : A -> A -> bool) (x : A) (l : list A) : list A :=
  if mem eqb x l then l else l ++ [x].

(* ---- _proc_dep_pair ---- *)
(* left = None: auto-trigger pair for a lone / initial node. *)
Definition proc_pair (fm : family_map) (eoc : list (list tok))
    (st : pstate) (pair : option (list tok) * list tok) : res pstate :=
  let lft := fst pair in
  let right := snd pair in
  let lt := match lft with Some l => l | None => [] end in   (* "if left" = lt non-empty *)
  if existsb is_or right then GErr                                  (* Illegal OR on right side *)
  else if existsb is_bang lt then GErr                              (* suicide on the left *)
  else if negb (Nat.eqb (count_tok is_lp lt) (count_tok is_rp lt)) then GErr
  else if negb (Nat.eqb (count_tok is_lp right) (count_tok is_rp right)) then GErr
  else
    let ct := if has_offset right && negb (is_nil lt)
              then upd toks_eqb right lt (ps_ct st) else ps_ct st in
    let rights := split_on is_and right in
    if existsb is_nil rights then GErr                              (* Null task name *)
    else
      let lefts := if is_nil lt || existsb is_or lt || existsb is_lp lt
                   then [lt] else split_on is_and lt in
      if match lft with Some _ => existsb is_nil lefts | None => false end then GErr
      else
        let st0 := mkState (ps_trig st) (ps_opt st) (ps_lefts st)
                           (fold_left (fun acc p => add_set toks_eqb p acc) rights (ps_rights st)) ct in
        fold_res (fun st l =>
          let st1 := mkState (ps_trig st) (ps_opt st)
                       (fold_left (fun acc n => add_set toks_eqb [TN n] acc) (nodes_of l) (ps_lefts st))
                       (ps_rights st) (ps_ct st) in
          bind (expand_left fm l) (fun ea =>
            fold_res (proc_right fm eoc (fst ea) (snd ea)) rights st1))
          lefts st0.

(* the terminals check at the end of parse_graph *)
Definition terminals_ok (st : pstate) : bool :=
  forallb (fun r =>
             mem toks_eqb r (ps_lefts st)
             || match assoc toks_eqb r (ps_ct st) with
                | Some l => is_nil l
                | None => true
                end)
          (ps_rights st).

(* ---- evaluation of a stored trigger expression (for canonical comparison):
   expr := term ('|' expr)? ; term := factor ('&' term)? ;
   factor := node | '(' expr ')' ---- *)
Definition node_atom (n : node) : atom :=
  (n_name n, n_off n, match n_qual n with Some q => q | None => ""%string end).

Fixpoint ev (fuel : nat) (v : atom -> bool) (lvl : nat) (l : list tok) : option (bool * list tok) :=
  match fuel with
  | 0 => None
  | S f =>
      match lvl with
      | 0 =>
          match ev f v 1 l with
          | Some (b, TOr :: r) =>
              match ev f v 0 r with Some (b', r') => Some (b || b', r') | None => None end
          | x => x
          end
      | 1 =>
          match ev f v 2 l with
          | Some (b, TAnd :: r) =>
              match ev f v 1 r with Some (b', r') => Some (b && b', r') | None => None end
          | x => x
          end
      | _ =>
          match l with
          | TN n :: r => Some (v (node_atom n), r)
          | TLp :: r =>
              match ev f v 0 r with
              | Some (b, TRp :: r') => Some (b, r')
              | _ => None
              end
          | _ => None
          end
      end
  end.

Definition eval_toks (v : atom -> bool) (l : list tok) : option bool :=
  match ev (3 * List.length l + 3) v 0 l with
  | Some (b, []) => Some b
  | _ => None
  end.

(* valuations over an explicit atom list: row i of the truth table makes atom j
   true iff bit j of i is set *)
Fixpoint index_of (a : atom) (l : list atom) : option nat :=
  match l with
  | [] => None
  | x :: r => if atom_eqb a x then Some 0 else option_map S (index_of a r)
  end.

Definition val_of (atoms : list atom) (bits : list bool) (a : atom) : bool :=
  match index_of a atoms with Some i => nth i bits false | None => false end.

Fixpoint all_rows (n : nat) : list (list bool) :=
  match n with
  | 0 => [[]]
  | S k => flat_map (fun r => [r ++ [false]; r ++ [true]]) (all_rows k)
  end.
(* all_rows lists assignments with the LAST atom varying fastest *)

Definition truth_table (atoms : list atom) (e : list tok) : list (option bool) :=
  map (fun bits => eval_toks (val_of atoms bits) e) (all_rows (List.length atoms)).

Definition same_atoms (a b : list atom) : bool :=
  forallb (fun x => mem atom_eqb x b) a && forallb (fun x => mem atom_eqb x a) b.

(* ---- canonical results as observed on the implementation ---- *)
(* one non-empty trigger: atoms (in the order used for the table), truth table, suicide *)
Definition itrig := (list atom * list bool * bool)%type.
Record iresult := mkIres {
  i_tasks : list name;                          (* keys of parser.triggers *)
  i_trigs : list (name * list itrig);           (* non-empty expressions per task *)
  i_opt : list (optkey * optval)                (* task_output_opt *)
}.

Definition trig_matches (t : trig) (it : itrig) : bool :=
  let '(atoms, tbl, su) := it in
  Bool.eqb (tg_suicide t) su && same_atoms (tg_atoms t) atoms
  && list_eqb (option_eqb Bool.eqb) (truth_table atoms (tg_expr t)) (map Some tbl).

Definition nonempty_trigs (l : list trig) : list trig :=
  filter (fun t => negb (is_nil (tg_expr t))) l.

Definition trigs_match (ml : list trig) (il : list itrig) : bool :=
  forallb (fun t => existsb (trig_matches t) il) ml
  && forallb (fun it => existsb (fun t => trig_matches t it) ml) il.

Definition optval_eqb (a b : optval) : bool :=
  match a, b with (a1, a2, a3), (b1, b2, b3) => Bool.eqb a1 b1 && Bool.eqb a2 b2 && Bool.eqb a3 b3 end.

Definition opt_match (m : optmap) (i : list (optkey * optval)) : bool :=
  forallb (fun kv => option_eqb optval_eqb (assoc optkey_eqb (fst kv) i) (Some (snd kv))) m
  && forallb (fun kv => option_eqb optval_eqb (assoc optkey_eqb (fst kv) m) (Some (snd kv))) i.

Definition state_matches (st : pstate) (i : iresult) : bool :=
  forallb (fun n => mem Nat.eqb n (i_tasks i)) (map fst (ps_trig st))
  && forallb (fun n => mem Nat.eqb n (map fst (ps_trig st))) (i_tasks i)
  && forallb (fun nt =>
       trigs_match (nonempty_trigs (snd nt))
                   (match assoc Nat.eqb (fst nt) (i_trigs i) with Some l => l | None => [] end))
       (ps_trig st)
  && forallb (fun nl => match assoc Nat.eqb (fst nl) (ps_trig st) with Some _ => true | None => is_nil (snd nl) end)
       (i_trigs i)
  && opt_match (ps_opt st) (i_opt i).

(* what the implementation did: parsed, or raised GraphParseError *)
Inductive ioutcome := IOk (r : iresult) | IErr.

Definition outcome_matches (m : res pstate) (i : ioutcome) : bool :=
  match m, i with
  | Ok st, IOk r => state_matches st r
  | GErr, IErr => true
  | _, _ => false
  end.
