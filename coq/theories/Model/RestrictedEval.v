(* Model/RestrictedEval.v — executable model of cylc/flow/util.py :
     restricted_evaluator / RestrictedNodeVisitor  (whitelist check, then eval)
   and of CPython's evaluation of the fragment that CompletionEvaluator admits.
   Hand model, tied to the source by the C24 correspondence stream; the
   whitelists themselves are regenerated from /repo into Gen/EvalWhitelist.v.

   A Python AST is a rose tree of node kinds (class names).  The children of a
   node are its AST-valued fields in `ast.iter_fields` order, which is the order
   `ast.NodeVisitor.generic_visit` visits them in.  `Name` nodes carry the
   (numbered) identifier; identifier 0 is `__debug__`, 1 is `__builtins__`:
   the two names that CPython resolves without their being supplied, which the
   visitor therefore rejects (fix 9296d0f). *)
From Coq Require Import List Bool Arith String.
From Cylc Require Import Base.Util.
Import ListNotations.
Local Open Scope string_scope.

Inductive pyast := Node (kind : string) (ident : nat) (children : list pyast).

Definition kind_of (t : pyast) : string := match t with Node k _ _ => k end.

Definition whitelisted (wl : list string) (k : string) : bool := mem String.eqb k wl.

Definition DEBUG := 0.
Definition BUILTINS := 1.
(* `isinstance(node, ast.Name) and node.id in ('__debug__', '__builtins__')` *)
Definition reserved_name (k : string) (n : nat) : bool :=
  String.eqb k "Name" && (Nat.eqb n DEBUG || Nat.eqb n BUILTINS).

(* RestrictedNodeVisitor.visit: raise on the first node (pre-order, fields in
   order) whose class is not whitelisted or which is one of the two reserved
   names; None = the whole tree was visited *)
Fixpoint first_bad (wl : list string) (t : pyast) : option string :=
  match t with
  | Node k n cs =>
      if whitelisted wl k then
        if reserved_name k n then Some k
        else
          (fix go (l : list pyast) : option string :=
             match l with
             | [] => None
             | c :: r => match first_bad wl c with Some b => Some b | None => go r end
             end) cs
      else Some k
  end.

(* nodes (kind, identifier) in visit order *)
Fixpoint preorder_nodes (t : pyast) : list (string * nat) :=
  match t with
  | Node k n cs => (k, n) :: flat_map preorder_nodes cs
  end.

(* what makes the visitor raise at a node *)
Definition bad_node (wl : list string) (p : string * nat) : bool :=
  negb (whitelisted wl (fst p)) || reserved_name (fst p) (snd p).

(* node kinds in visit order *)
Fixpoint preorder (t : pyast) : list string :=
  match t with
  | Node k _ cs => k :: flat_map preorder cs
  end.

(* identifiers of the Name nodes *)
Fixpoint names (t : pyast) : list nat :=
  match t with
  | Node k n cs => ((if String.eqb k "Name" then [n] else []) ++ flat_map names cs)%list
  end.

(* ---------- evaluation of the BoolOp/Name fragment ---------- *)
(* Values are the objects bound to the supplied variables (numbered). *)
Inductive value := VObj (id : nat).

Inductive outcome :=
| Rejected (kind : string)     (* error_class raised, error_type = kind *)
| SyntaxErr                    (* ast.parse failed *)
| Val (v : value)
| NameErr (n : nat)            (* NameError: name is not defined *)
| Unsupported.                 (* accepted, but outside the modelled fragment *)


(* the fragment whose evaluation is modelled: and/or trees over names *)
Definition fragment_kinds : list string := ["Expression"; "Name"; "Load"; "BoolOp"; "And"; "Or"].
Definition in_fragment (t : pyast) : bool :=
  forallb (fun k => mem String.eqb k fragment_kinds) (preorder t).

Section Eval.
  (* the supplied variables, and the truthiness (`__bool__`) of each object *)
  Variable env : nat -> option nat.
  Variable truthy : nat -> bool.

  Definition truth (v : value) : bool := match v with VObj i => truthy i end.
  (* objects whose __bool__ gets called *)
  Definition tested (v : value) : list nat := match v with VObj i => [i] end.

  (* result: (objects whose truth was tested, in order; outcome).
     `a and b and c`: operands are evaluated left to right; every operand but
     the last one reached is truth-tested; the value is the deciding operand. *)
  Fixpoint py_eval (t : pyast) : list nat * outcome :=
    match t with
    | Node k n cs =>
        if String.eqb k "Expression" then
          match cs with [b] => py_eval b | _ => ([], Unsupported) end
        else if String.eqb k "Name" then
          match env n with Some i => ([], Val (VObj i)) | None => ([], NameErr n) end
        else if String.eqb k "BoolOp" then
          match cs with
          | Node op _ [] :: values =>
              if String.eqb op "And" || String.eqb op "Or" then
                let is_and := String.eqb op "And" in
                (fix go (l : list pyast) : list nat * outcome :=
                   match l with
                   | [] => ([], Unsupported)
                   | [c] => py_eval c
                   | c :: r =>
                       match py_eval c with
                       | (tr, Val x) =>
                           if Bool.eqb (truth x) is_and
                           then let '(tr', o) := go r in ((tr ++ tested x ++ tr')%list, o)
                           else ((tr ++ tested x)%list, Val x)
                       | other => other
                       end
                   end) values
              else ([], Unsupported)
          | _ => ([], Unsupported)
          end
        else ([], Unsupported)
    end.

  (* the function returned by restricted_evaluator, applied to (expr, variables);
     None = syntax error *)
  Definition restricted_eval (wl : list string) (t : option pyast) : list nat * outcome :=
    match t with
    | None => ([], SyntaxErr)
    | Some t =>
        match first_bad wl t with
        | Some k => ([], Rejected k)
        | None =>
            (* accepted: compile + eval.  Only trees inside the fragment are
               modelled (others can already fail in compile(), e.g. `await`) *)
            if in_fragment t then py_eval t else ([], Unsupported)
        end
    end.
End Eval.

(* every BinOp node has an operator child (CPython's grammar: left, op, right) *)
Fixpoint binop_wf (ops : list string) (t : pyast) : bool :=
  match t with
  | Node k _ cs =>
      (if String.eqb k "BinOp" then existsb (fun c => mem String.eqb (kind_of c) ops) cs else true)
      && forallb (binop_wf ops) cs
  end.

(* ---------- correspondence interface ---------- *)
Definition value_eqb (a b : value) : bool :=
  match a, b with
  | VObj x, VObj y => Nat.eqb x y
  end.

Definition outcome_eqb (a b : outcome) : bool :=
  match a, b with
  | Rejected x, Rejected y => String.eqb x y
  | SyntaxErr, SyntaxErr => true
  | Val x, Val y => value_eqb x y
  | NameErr x, NameErr y => Nat.eqb x y
  | Unsupported, Unsupported => true
  | _, _ => false
  end.

Record case := {
  c_wl : list string;                 (* expanded whitelist of the evaluator under test *)
  c_ops : list string;                (* ast.operator subclasses (for the well-formedness check) *)
  c_tree : option pyast;              (* what ast.parse produced; None = SyntaxError *)
  c_env : list (nat * bool);          (* supplied variables: name/object id, truthiness *)
  c_impl_tests : list nat;            (* objects whose __bool__ was called, in order *)
  c_impl : outcome                    (* Unsupported = accepted with a result outside the fragment *)
}.

Definition env_of (l : list (nat * bool)) : nat -> option nat :=
  fun n => match assoc Nat.eqb n l with Some _ => Some n | None => None end.
Definition truthy_of (l : list (nat * bool)) : nat -> bool :=
  fun n => match assoc Nat.eqb n l with Some b => b | None => false end.

Definition model_out (c : case) : list nat * outcome :=
  restricted_eval (env_of (c_env c)) (truthy_of (c_env c)) (c_wl c) (c_tree c).

Definition check_case (c : case) : bool :=
  let '(tests, o) := model_out c in
  match c_tree c with Some t => binop_wf (c_ops c) t | None => true end
  && match o with
     | Unsupported =>
         (* the model only says "accepted": the implementation must not have rejected *)
         match c_impl c with Rejected _ | SyntaxErr => false | _ => true end
     | _ => outcome_eqb o (c_impl c) && list_eqb Nat.eqb tests (c_impl_tests c)
     end.
