(* Model/FamTrig.v — C15: a one-line graph "LEFT => RIGHT" (or a lone "RIGHT")
   through GraphParser.parse_graph with a family map.  The pair processing is
   Model/GraphBase.v; this file adds the decomposition of the single chain into
   pairs and the correspondence interface.

   parse_graph keeps the pairs in a Python set and processes them in
   sorted(key=str(left)) order: all the auto-trigger pairs (None, node) have the
   same key, so their relative order is the set's iteration order (it depends on
   PYTHONHASHSEED).  With family defaults the stored (optional, default, fixed)
   triples can depend on that order, so the harness records the order of the
   _proc_dep_pair calls and the model takes it as a hint (a list of indices into
   its own pair list; indices it does not mention are processed afterwards). *)
From Coq Require Import List Bool Arith String.
From Cylc Require Import Base.Util Gen.FamTables Model.GraphBase.
Import ListNotations.

(* REC_NODES.findall(chain[0]) -> the right sides of the (None, node) pairs.
   The node pattern includes an optional leading "!". *)
Fixpoint auto_rights (l : list tok) : list (list tok) :=
  match l with
  | [] => []
  | TBang :: TN n :: r => [TBang; TN n] :: auto_rights r
  | TN n :: r => [TN n] :: auto_rights r
  | _ :: r => auto_rights r
  end.

Definition pair := (option (list tok) * list tok)%type.
Definition pair_eqb (a b : pair) : bool :=
  option_eqb toks_eqb (fst a) (fst b) && toks_eqb (snd a) (snd b).

Fixpoint dedup_first {A} (eqb : A -> A -> bool) (seen l : list A) : list A :=
  match l with
  | [] => []
  | x :: r => if mem eqb x seen then dedup_first eqb seen r else x :: dedup_first eqb (x :: seen) r
  end.

(* pairs of the chain [left; right] (or [right] when left = []) *)
Definition line_pairs (left right : list tok) : list pair :=
  let chain0 := if is_nil left then right else left in
  dedup_first pair_eqb []
    (map (fun r => (None, r)) (auto_rights chain0)
     ++ (if is_nil left then [] else [(Some left, right)])).

Definition line_eoc (right : list tok) : list (list tok) := split_on is_and right.

Fixpoint nodup_nat (l : list nat) : bool :=
  match l with [] => true | x :: r => negb (mem Nat.eqb x r) && nodup_nat r end.

(* processing order: the hinted indices first (in hint order), then the rest *)
Definition order_of (n : nat) (hint : list nat) : option (list nat) :=
  if nodup_nat hint && forallb (fun i => Nat.ltb i n) hint
  then Some (hint ++ filter (fun i => negb (mem Nat.eqb i hint)) (seq 0 n))
  else None.

Definition run_pairs (fm : family_map) (eoc : list (list tok)) (ps : list pair) (order : list nat)
  : res pstate :=
  bind (fold_res (fun st i => match nth_error ps i with
                              | Some p => proc_pair fm eoc st p
                              | None => Unmod end) order empty_state)
       (fun st => if terminals_ok st then Ok st else GErr).

Definition run_line (fm : family_map) (left right : list tok) (hint : list nat) : res pstate :=
  let ps := line_pairs left right in
  match order_of (List.length ps) hint with
  | None => Unmod
  | Some order => run_pairs fm (line_eoc right) ps order
  end.

(* ---- correspondence interface ---- *)
Record case := mkCase {
  c_fm : family_map;
  c_left : list tok;        (* [] = lone node line *)
  c_right : list tok;
  c_hint : list nat;        (* observed order of the _proc_dep_pair calls *)
  c_impl : ioutcome
}.

Definition model_out (c : case) : res pstate := run_line (c_fm c) (c_left c) (c_right c) (c_hint c).

Definition check_case (c : case) : bool := outcome_matches (model_out c) (c_impl c).
