(* Model/Reload.v — executable model of the reload of the task pool (property C27).

   Code modelled (cylc/flow):
   * TaskPool._reload_taskdefs  (task_pool.py): orphans = names in the old task name list that are not
     in the new one; an orphaned pooled task is removed iff  waiting or is_held or is_queued,
     otherwise it is kept with graph_children = {}; every other pooled task gets a new proxy built from
     the new definition (status, flow numbers passed to the constructor) and
     copy_to_reload_successor, and is swapped in at the same place of the pool;
   * TaskProxy.copy_to_reload_successor (task_proxy.py): submit number, outputs (the very object),
     is_held, is_runahead, is_manual_submit are copied; is_queued is NOT (the new TaskState starts with
     is_queued = False and the queue manager is rebuilt empty); the prerequisites are those of the
     new definition, each key taking  pre_reload.get(key, check_output(key, flow_nums))  where
     pre_reload is ONE flat dict over all old prerequisites (a later occurrence of a key overwrites
     an earlier one);
   * TaskPool.check_task_output: False for an empty flow set; otherwise the FIRST task_outputs row of
     (name, cycle) whose flow numbers intersect decides: message in that row's messages;
   * the main loop after the command (scheduler.py _main_loop): every waiting, un-queued,
     non-runahead task goes through queue_if_ready.

   Identifiers are numbers assigned by the correspondence stream (injective per case). *)
From Coq Require Import List Bool NArith.
From Cylc Require Import Base.Util.
Import ListNotations.

Definition tid := (N * N)%type.            (* cycle point, task name *)
Definition key := (N * N * N)%type.        (* cycle point, task name, output message *)

Definition tid_eqb (a b : tid) : bool := N.eqb (fst a) (fst b) && N.eqb (snd a) (snd b).
Definition key_eqb (a b : key) : bool :=
  N.eqb (fst (fst a)) (fst (fst b)) && N.eqb (snd (fst a)) (snd (fst b)) && N.eqb (snd a) (snd b).

Definition st_waiting : N := 0%N.          (* index in the stream's status table *)

Record proxy := mkProxy {
  p_id : tid;
  p_status : N;
  p_flows : list N;
  p_submit : N;
  p_held : bool;
  p_queued : bool;
  p_runahead : bool;
  p_manual : bool;
  p_outputs : list N;                      (* completed outputs *)
  p_prereqs : list (list (key * bool));    (* per prerequisite: key, satisfied *)
  p_cut : bool                             (* has no graph children because its definition is gone *)
}.

Definition p_name (p : proxy) : N := snd (p_id p).

(* the task_outputs table as check_task_output sees it: per (cycle, name) the rows (flow numbers, messages)
   in the order in which select_task_outputs yields them *)
Definition dbrows := list (tid * list (list N * list N)).

Definition intersects (a b : list N) : bool := existsb (fun x => mem N.eqb x b) a.

Fixpoint first_overlap (rows : list (list N * list N)) (flows : list N) (msg : N) : bool :=
  match rows with
  | [] => false
  | (fl, msgs) :: r => if intersects flows fl then mem N.eqb msg msgs else first_overlap r flows msg
  end.

Definition check_output (db : dbrows) (k : key) (flows : list N) : bool :=
  match flows with
  | [] => false
  | _ => match assoc tid_eqb (fst k) db with
         | None => false
         | Some rows => first_overlap rows flows (snd k)
         end
  end.

(* pre_reload: the flat dict; lookup = the last occurrence *)
Definition pre_reload (p : proxy) : list (key * bool) := rev (concat (p_prereqs p)).

Definition new_value (db : dbrows) (p : proxy) (k : key) : bool :=
  match assoc key_eqb k (pre_reload p) with
  | Some v => v
  | None => check_output db k (p_flows p)
  end.

Definition reload_proxy (db : dbrows) (defined : bool) (newpre : list (list key)) (p : proxy) : proxy :=
  {| p_id := p_id p; p_status := p_status p; p_flows := p_flows p; p_submit := p_submit p;
     p_held := p_held p; p_queued := false; p_runahead := p_runahead p; p_manual := p_manual p;
     p_outputs := p_outputs p;
     p_prereqs := map (map (fun k => (k, new_value db p k))) newpre;
     p_cut := negb defined |}.

(* the new definition, as far as the pool is concerned *)
Record newdef := mkDef {
  d_old : list N;                          (* pool.task_name_list before the reload *)
  d_new : list N;                          (* config.get_task_name_list() of the new configuration *)
  d_pre : list (tid * list (list key))     (* prerequisite keys of each pooled instance in the new definition *)
}.

Definition defined (d : newdef) (p : proxy) : bool := mem N.eqb (p_name p) (d_new d).
Definition orphan (d : newdef) (p : proxy) : bool :=
  mem N.eqb (p_name p) (d_old d) && negb (mem N.eqb (p_name p) (d_new d)).
Definition removable (p : proxy) : bool := N.eqb (p_status p) st_waiting.
Definition started (p : proxy) : bool := negb (N.eqb (p_status p) st_waiting).

Definition newpre_of (d : newdef) (p : proxy) : list (list key) :=
  match assoc tid_eqb (p_id p) (d_pre d) with Some l => l | None => [] end.

Definition reload_one (d : newdef) (db : dbrows) (p : proxy) : list proxy :=
  if orphan d p then
    if removable p then []
    else [ {| p_id := p_id p; p_status := p_status p; p_flows := p_flows p; p_submit := p_submit p;
              p_held := p_held p; p_queued := p_queued p; p_runahead := p_runahead p;
              p_manual := p_manual p; p_outputs := p_outputs p; p_prereqs := p_prereqs p;
              p_cut := true |} ]
  else [ reload_proxy db (defined d p) (newpre_of d p) p ].

Definition reload_pool (d : newdef) (db : dbrows) (pool : list proxy) : list proxy :=
  flat_map (reload_one d db) pool.

(* the definition as the next reload sees it when nothing changes in between *)
Definition settled (d : newdef) : newdef := {| d_old := d_new d; d_new := d_new d; d_pre := d_pre d |}.

(* ---- later in the same main-loop iteration ---- *)
Definition set_queued (p : proxy) (q : bool) : proxy :=
  {| p_id := p_id p; p_status := p_status p; p_flows := p_flows p; p_submit := p_submit p;
     p_held := p_held p; p_queued := q; p_runahead := p_runahead p; p_manual := p_manual p;
     p_outputs := p_outputs p; p_prereqs := p_prereqs p; p_cut := p_cut p |}.

(* TaskPool.queue_if_ready; [rest] = the remaining conditions of is_ready_to_run (try timers, prerequisites,
   external triggers), is_ready_to_run = not held and rest *)
Definition queue_if_ready (rest : bool) (p : proxy) : proxy :=
  if negb (p_queued p) && negb (p_runahead p) && negb (p_manual p) && (negb (p_held p) && rest)
  then set_queued p true else p.

(* the main loop's pass over the pool *)
Definition mainloop_visit (rest : bool) (p : proxy) : proxy :=
  if negb (N.eqb (p_status p) st_waiting) || p_queued p || p_runahead p then p
  else queue_if_ready rest p.

(* ---- boolean equality of proxies (for the correspondence check) ---- *)
Definition pre_eqb (a b : list (list (key * bool))) : bool :=
  list_eqb (list_eqb (pair_eqb key_eqb Bool.eqb)) a b.

Definition proxy_eqb (a b : proxy) : bool :=
  tid_eqb (p_id a) (p_id b) && N.eqb (p_status a) (p_status b) && list_eqb N.eqb (p_flows a) (p_flows b)
  && N.eqb (p_submit a) (p_submit b) && Bool.eqb (p_held a) (p_held b) && Bool.eqb (p_queued a) (p_queued b)
  && Bool.eqb (p_runahead a) (p_runahead b) && Bool.eqb (p_manual a) (p_manual b)
  && list_eqb N.eqb (p_outputs a) (p_outputs b) && pre_eqb (p_prereqs a) (p_prereqs b)
  && Bool.eqb (p_cut a) (p_cut b).

(* ---- correspondence cases ---- *)
Inductive case :=
| CReload (d : newdef) (db : dbrows) (before after : list proxy)
    (* the pool right before TaskPool.reload and right after it returned *)
| CQueue (rest : bool) (before after : proxy)
    (* one queue_if_ready call later in the iteration of a reload: is_ready_to_run() = not held and rest *)
| CCheck (db : dbrows) (k : key) (flows : list N) (res : bool).
    (* one check_task_output call made during the reload *)

Definition check_one (c : case) : bool :=
  match c with
  | CReload d db before after => list_eqb proxy_eqb (reload_pool d db before) after
  | CQueue rest before after => proxy_eqb (queue_if_ready rest before) after
  | CCheck db k flows res => Bool.eqb (check_output db k flows) res
  end.

(* one run = the cases of all its reloads *)
Definition check_case (cs : list case) : bool := forallb check_one cs.

Definition model_out (cs : list case) : list (list proxy) :=
  map (fun c => match c with
                | CReload d db before _ => reload_pool d db before
                | CQueue rest before _ => [queue_if_ready rest before]
                | CCheck _ _ _ _ => []
                end) cs.
