(* Model/FlowCmd.v — executable hand model of the flow-number side of
   `cylc set --flow=F --out=O <task>` (TaskPool.set_prereqs_and_outputs, the
   OUTPUTS branches, cylc/flow/task_pool.py), on top of Model/Flow.v:

     flow_nums = flow_mgr.cli_to_flow_nums(flow)
     if flow != [none] and not flow_nums: flow_nums = _get_active_flow_nums()
     pooled task:   (skipped if flow == [none] and the task has flows)
                    merge_flows(itask, flow_nums); _set_outputs_itask(itask, outputs)
     inactive task: trans = _load_db_task_proxy(point, tdef, flow_nums, transient=True)
                    _set_outputs_itask(trans, outputs)
     _set_outputs_itask -> process_message(forced) -> spawn_on_output(itask, output):
        for each graph child of the output (none if itask has no flows):
          in the pool -> merge_flows(child, itask.flow_nums)
          else        -> spawn_task(child, itask.flow_nums)

   tied to the source by the C08 correspondence stream "flowcmd" (real Scheduler,
   in process).  Only flow numbers are modelled: which children an output has
   and whether a child is in the pool enter as data observed on the run. *)
From Coq Require Import List Bool ZArith Lia.
From Cylc Require Import Base.Util Model.Flow.
Import ListNotations.
Open Scope Z_scope.

Definition is_nil {A} (l : list A) : bool := match l with [] => true | _ => false end.

(* _get_active_flow_nums: union of the flows of all pooled tasks, else the
   latest flows in the DB, else {1} (the last two enter as [fallback]) *)
Definition active_flows (pool : list (list Z)) (fallback : list Z) : list Z :=
  let u := zsorted (concat pool) in if is_nil u then fallback else u.

Definition is_cnone (c : cli) : bool := match c with CNone => true | _ => false end.

(* the flow numbers the command works with; None = cli_to_flow_nums raised *)
Definition resolve (st : fstate) (c : cli) (pool : list (list Z)) (fallback : list Z)
  : fstate * option (list Z) :=
  let (st', ob) := fstep st (OCli c) in
  match ob with
  | ObNums l =>
      (st', Some (if negb (is_cnone c) && is_nil l then active_flows pool fallback else l))
  | _ => (st', None)
  end.

(* TaskProxy.merge_flows as a set operation (TaskPool.merge_flows returns early
   when nothing would change: same result) *)
Definition merged (mine other : list Z) : list Z := flow_union mine other.

(* flows of the target when its outputs are set; None = the command skips it *)
Definition target_flows (pooled : bool) (old : list Z) (c : cli) (f : list Z) : option (list Z) :=
  if pooled then
    if is_cnone c && negb (is_nil old) then None else Some (merged old f)
  else Some (zsorted f).

(* one effect of spawn_on_output on a graph child: [before] = Some flows if the
   child is in the pool.  Result: the flow numbers handed over (argument of
   merge_flows / spawn_task) and the child's flows afterwards. *)
Definition child_effect (t' : list Z) (before : option (list Z)) : list Z * list Z :=
  match before with
  | Some b => (t', merged b t')
  | None => (t', t')
  end.

(* ---- correspondence interface ---- *)
Record effect_obs := {
  eo_before : option (list Z);   (* child's flows before, if pooled *)
  eo_arg : list Z;               (* flow numbers passed to merge_flows / spawn_task *)
  eo_after : option (list Z)     (* child's flows after; None: spawn_task returned None *)
}.

Record cmdcase := {
  k_counter : option Z; k_flowkeys : list Z;         (* FlowMgr before the command *)
  k_cli : cli;                                       (* --flow *)
  k_pool : list (list Z);                            (* flows of every pooled task before *)
  k_fallback : list Z;                               (* what _get_active_flow_nums fell back to, if it had to *)
  k_pooled : bool; k_old : list Z;                   (* the target *)
  k_loaded : bool;                                   (* inactive target: _load_db_task_proxy returned a proxy *)
  (* observed *)
  k_counter_after : option Z;
  k_ran : bool;                                      (* _set_outputs_itask was called for the target *)
  k_target_after : list Z;                           (* target's flows at the end of the command *)
  k_effects : list effect_obs                        (* direct child effects of the target's outputs, in order *)
}.

Definition zl_eqb (a b : list Z) : bool := list_eqb Z.eqb (zsorted a) (zsorted b).

Definition effect_ok (t' : list Z) (e : effect_obs) : bool :=
  let (arg, after) := child_effect t' (eo_before e) in
  zl_eqb (eo_arg e) arg &&
  match eo_after e with
  | Some a => zl_eqb a after
  | None => is_nil (match eo_before e with Some _ => [0] | None => [] end)   (* only a spawn may yield nothing *)
  end.

Definition st_of (c : cmdcase) : fstate :=
  {| f_counter := k_counter c; f_flows := k_flowkeys c; f_pending := []; f_db := [] |}.

Definition check_cmd (c : cmdcase) : bool :=
  match resolve (st_of c) (k_cli c) (k_pool c) (k_fallback c) with
  | (st', Some f) =>
      option_eqb Z.eqb (f_counter st') (k_counter_after c) &&
      match target_flows (k_pooled c) (k_old c) (k_cli c) f with
      | None => negb (k_ran c) && zl_eqb (k_target_after c) (k_old c) && is_nil (k_effects c)
      | Some t' =>
          if k_pooled c || k_loaded c then
            k_ran c && zl_eqb (k_target_after c) t'
            && forallb (effect_ok t') (k_effects c)
            && (negb (is_nil t') || is_nil (k_effects c))
          else negb (k_ran c) && is_nil (k_effects c)
      end
  | (_, None) => false
  end.

Definition model_cmd (c : cmdcase) :=
  match resolve (st_of c) (k_cli c) (k_pool c) (k_fallback c) with
  | (st', Some f) => (f_counter st', Some f, target_flows (k_pooled c) (k_old c) (k_cli c) f)
  | (st', None) => (f_counter st', None, None)
  end.

(* one correspondence case = the `set` commands of one scheduler run *)
Definition case := list cmdcase.
Definition check_case (c : case) : bool := forallb check_cmd c.
Definition model_out (c : case) := map model_cmd c.
