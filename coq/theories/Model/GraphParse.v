(* Model/GraphParse.v — C14: token-level model of GraphParser.parse_graph
   (cylc/flow/graph_parser.py), stage by stage:
     1. per physical line: strip the comment, drop blank lines, reject
        "name<blank>name" (REC_GRAPH_BAD_SPACES_LINE), remove all blanks;
     2. join continuation lines (a line ending with, or followed by a line
        starting with, one of  =>  &  | );
     3. reject && and ||; node syntax check (with the code's behaviour that only
        the LAST full line's bad nodes are reported);
     4. de-duplicate lines (line_set); no parameters in the model;
     5. split each line on => into a chain; auto-trigger pairs (None, node) for
        the nodes of the first chain element; consecutive pairs; end-of-chain
        nodes;
     6. _proc_dep_pair on every pair (Model/GraphBase.v), terminals check.
   Pairs are kept in a Python set and processed in sorted(key=str(left))
   order; without families the outcome does not depend on the order (the
   correspondence runs vary PYTHONHASHSEED), and the model processes them in
   order of discovery.  Executable definitions only. *)
From Coq Require Import List Bool Arith String.
From Cylc Require Import Base.Util Gen.FamTables Model.GraphBase Model.FamTrig.
Import ListNotations.

Definition is_nl (t : tok) := match t with TNl => true | _ => false end.
Definition is_ws (t : tok) := match t with TWs _ => true | _ => false end.

(* ---- stage 1 ---- *)
Fixpoint cut_comment (l : list tok) : list tok :=
  match l with
  | [] => []
  | TCom _ :: _ => []
  | t :: r => t :: cut_comment r
  end.

(* the node text ends with a name/qualifier character (not "?" and not "]") *)
Definition ends_word (n : node) : bool :=
  negb (n_opt n)
  && negb (negb (Nat.eqb (n_off n) 0) && match n_qual n with None => true | Some _ => false end).

Fixpoint skip_ws (l : list tok) : list tok :=
  match l with
  | TWs _ :: r => skip_ws r
  | _ => l
  end.

(* REC_GRAPH_BAD_SPACES_LINE: NAME, blanks, NAME *)
Fixpoint bad_spaces (l : list tok) : bool :=
  match l with
  | [] => false
  | TN x :: r =>
      (ends_word x
       && match r with
          | TWs _ :: _ => match skip_ws r with TN _ :: _ => true | _ => false end
          | _ => false
          end)
      || bad_spaces r
  | _ :: r => bad_spaces r
  end.

Definition remove_ws (l : list tok) : list tok := filter (fun t => negb (is_ws t)) l.

Definition phys_lines (l : list tok) : res (list (list tok)) :=
  let ls := map cut_comment (split_on is_nl l) in
  let ls := filter (fun x => negb (forallb is_ws x)) ls in
  if existsb bad_spaces ls then GErr else Ok (map remove_ws ls).

(* ---- stage 2 ---- *)
Definition is_cont (t : tok) : bool := is_arrow t || is_and t || is_or t.
Definition starts_cont (l : list tok) : bool := match l with t :: _ => is_cont t | [] => false end.
Definition ends_cont (l : list tok) : bool := starts_cont (rev l).
Definition starts_bad (l : list tok) : bool :=
  match l with TAnd :: TAnd :: _ | TOr :: TOr :: _ => true | _ => false end.
Definition ends_bad (l : list tok) : bool := starts_bad (rev l).

Fixpoint join_lines (first : bool) (part : list tok) (ls : list (list tok)) : res (list (list tok)) :=
  match ls with
  | [] => Ok []
  | this :: rest =>
      let next := match rest with n :: _ => n | [] => [] end in
      if first && starts_cont this then GErr                       (* Leading => & | *)
      else if is_nil rest && ends_cont this then GErr              (* Dangling => & | *)
      else if ends_cont this && starts_cont next then GErr         (* consecutive *)
      else if (ends_cont this || starts_cont next) && negb (ends_bad this || starts_bad next)
           then join_lines false (part ++ this) rest
           else bind (join_lines false [] rest) (fun r => Ok ((part ++ this) :: r))
  end.

(* ---- stage 3 ---- *)
Fixpoint has_double (p : tok -> bool) (l : list tok) : bool :=
  match l with
  | a :: r => match r with b :: _ => (p a && p b) || has_double p r | [] => false end
  | [] => false
  end.

(* two node texts with nothing between them: not a valid node (REC_NODE_FULL) *)
Fixpoint adj_nodes (l : list tok) : bool :=
  match l with
  | TN _ :: r => match r with TN _ :: _ => true | _ => adj_nodes r end
  | _ :: r => adj_nodes r
  | [] => false
  end.

Definition check_lines (ls : list (list tok)) : res unit :=
  if existsb (fun l => has_double is_and l || has_double is_or l) ls then GErr
  else match rev ls with
       | lst :: others =>
           if adj_nodes lst then GErr
           else if existsb adj_nodes others then Unmod   (* accepted by the code: see the C14 finding *)
           else Ok tt
       | [] => Ok tt
       end.

(* ---- stages 4-6 ---- *)
Fixpoint consecutive (ch : list (list tok)) : list pair :=
  match ch with
  | a :: r => match r with b :: _ => (Some a, b) :: consecutive r | [] => [] end
  | [] => []
  end.

Definition chain_pairs (ch : list (list tok)) : list pair :=
  match ch with
  | [] => []
  | c0 :: _ => map (fun r => (None, r)) (auto_rights c0) ++ consecutive ch
  end.

Definition chain_eoc (ch : list (list tok)) : list (list tok) := split_on is_and (last ch []).

Definition lines_pairs (ls : list (list tok)) : list pair :=
  dedup_first pair_eqb [] (flat_map chain_pairs (map (split_on is_arrow) ls)).
Definition lines_eoc (ls : list (list tok)) : list (list tok) :=
  flat_map chain_eoc (map (split_on is_arrow) ls).

Definition parse_lines (fm : family_map) (full : list (list tok)) : res pstate :=
  let ls := dedup_first toks_eqb [] full in
  bind (fold_res (proc_pair fm (lines_eoc ls)) (lines_pairs ls) empty_state)
       (fun st => if terminals_ok st then Ok st else GErr).

Definition parse (fm : family_map) (l : list tok) : res pstate :=
  bind (phys_lines l) (fun nb =>
  bind (join_lines true [] nb) (fun full =>
  bind (check_lines full) (fun _ => parse_lines fm full))).

(* ---- correspondence interface: one AST in several renderings ---- *)
Definition case := list (list tok * ioutcome).

Definition model_out (c : case) : list (res pstate) := map (fun ti => parse [] (fst ti)) c.

Definition check_case (c : case) : bool :=
  forallb (fun ti => outcome_matches (parse [] (fst ti)) (snd ti)) c.
