(* Model/BExpr.v — boolean expressions over numbered atoms with And/Or:
   the fragment of Python that cylc's CompletionEvaluator accepts
   (ast.BoolOp over ast.Name).  Shared library (C11, C12, C24); executable
   definitions only.

   Python's n-ary `a and b and c` is represented by nested binary nodes;
   short-circuit evaluation (including which operand raises NameError first)
   is associative, so the nesting does not matter for [eval]/[evalo]. *)
From Coq Require Import List Bool Arith String.
From Cylc Require Import Base.Util.
Import ListNotations.

Inductive bexpr :=
| BVar (a : nat)
| BAnd (l r : bexpr)
| BOr (l r : bexpr).

(* total evaluation: every atom has a truth value *)
Fixpoint eval (rho : nat -> bool) (e : bexpr) : bool :=
  match e with
  | BVar a => rho a
  | BAnd l r => eval rho l && eval rho r
  | BOr l r => eval rho l || eval rho r
  end.

(* Python evaluation with possibly unbound names: None = NameError.
   `and`/`or` short-circuit left to right, so an unbound name only raises if
   it is actually reached. *)
Fixpoint evalo (rho : nat -> option bool) (e : bexpr) : option bool :=
  match e with
  | BVar a => rho a
  | BAnd l r =>
      match evalo rho l with
      | None => None
      | Some false => Some false
      | Some true => evalo rho r
      end
  | BOr l r =>
      match evalo rho l with
      | None => None
      | Some true => Some true
      | Some false => evalo rho r
      end
  end.

Fixpoint vars (e : bexpr) : list nat :=
  match e with
  | BVar a => [a]
  | BAnd l r | BOr l r => vars l ++ vars r
  end.

Fixpoint size (e : bexpr) : nat :=
  match e with
  | BVar _ => 1
  | BAnd l r | BOr l r => S (size l + size r)
  end.

Definition uses (e : bexpr) (a : nat) : bool := mem Nat.eqb a (vars e).

Fixpoint bexpr_eqb (a b : bexpr) : bool :=
  match a, b with
  | BVar x, BVar y => Nat.eqb x y
  | BAnd l r, BAnd l' r' | BOr l r, BOr l' r' => bexpr_eqb l l' && bexpr_eqb r r'
  | _, _ => false
  end.

(* ' and '.join(es) / ' or '.join(es) : None for the empty list *)
Definition conj_list (es : list bexpr) : option bexpr :=
  match es with
  | [] => None
  | e :: r => Some (fold_left BAnd r e)
  end.
Definition disj_list (es : list bexpr) : option bexpr :=
  match es with
  | [] => None
  | e :: r => Some (fold_left BOr r e)
  end.

(* environments from sets of "true" atoms *)
Definition env_of (s : list nat) : nat -> bool := fun a => mem Nat.eqb a s.

Fixpoint subsets {A} (l : list A) : list (list A) :=
  match l with
  | [] => [[]]
  | x :: r => let s := subsets r in s ++ map (cons x) s
  end.

(* canonical truth table over the given atoms: one row per subset, in the
   order of [subsets] (the harness uses the same enumeration order) *)
Definition truth_table (atoms : list nat) (e : bexpr) : list bool :=
  map (fun s => eval (env_of s) e) (subsets atoms).

(* sorted, duplicate-free list of nats (canonical form of a Python set) *)
Definition sort_nat (l : list nat) : list nat := sort_by Nat.leb l.
Fixpoint dedup_sorted (l : list nat) : list nat :=
  match l with
  | x :: ((y :: _) as r) => if Nat.eqb x y then dedup_sorted r else x :: dedup_sorted r
  | _ => l
  end.
Definition canon_set (l : list nat) : list nat := dedup_sorted (sort_nat l).

(* printer with Python precedence (`and` binds tighter than `or`); used for
   debugging output and examples only *)
Section Print.
  Variable name : nat -> string.
  Local Open Scope string_scope.
  Fixpoint print (e : bexpr) : string :=
    match e with
    | BVar a => name a
    | BOr l r => print l ++ " or " ++ print r
    | BAnd l r =>
        let wrap x := match x with BOr _ _ => "(" ++ print x ++ ")" | _ => print x end in
        wrap l ++ " and " ++ wrap r
    end.
End Print.
