(* Model/PyLit.v — executable model of how template variables are written to
   and read back from the run database:
     WorkflowDatabaseManager.put_workflow_template_vars   (value -> repr(value))
     templatevars.eval_var                                (ast.literal_eval + repr readable)
     Scheduler._load_template_vars                        (restart; CLI wins)
   Hand model of CPython's repr() for the literal types and of a canonical
   sub-language of ast.literal_eval, tied to the code by the C37 correspondence
   stream (real put/reload on a temporary database, real eval_var).

   Text is a list of Unicode code points (Z).  Floats are opaque atoms of a
   type F with their CPython repr [frepr] and parser [fparse] (Section
   variables; the check instantiates F with the repr text itself and fparse
   with the table float(token) -> repr reported by CPython for that run).
   [printable] is str.isprintable for non-ASCII code points (Section variable;
   instantiated per case from CPython).
   The parser accepts the canonical spelling produced by repr only (exact
   comma-space / colon-space separators, no redundant parentheses, no prefixes,
   decimal integers); on other spellings it returns None, which claims nothing. *)
From Coq Require Import List Bool Arith ZArith Lia Decimal DecimalZ.
From Cylc Require Import Base.Util.
Import ListNotations.

Definition text := list Z.
Definition text_eqb (a b : text) : bool := list_eqb Z.eqb a b.

(* code points *)
Definition cQ1 : Z := 39.  (* single quote *)   Definition cQ2 : Z := 34.  (* double quote *)
Definition cBS : Z := 92.  (* backslash *)      Definition cSP : Z := 32.
Definition cCOMMA : Z := 44.         Definition cCOLON : Z := 58.
Definition cLB : Z := 91.  Definition cRB : Z := 93.     (* [ ] *)
Definition cLP : Z := 40.  Definition cRP : Z := 41.     (* ( ) *)
Definition cLC : Z := 123. Definition cRC : Z := 125.    (* { } *)
Definition cMINUS : Z := 45.
Definition tNone : text := [78; 111; 110; 101]%Z.
Definition tTrue : text := [84; 114; 117; 101]%Z.
Definition tFalse : text := [70; 97; 108; 115; 101]%Z.
Definition tSet0 : text := [115; 101; 116; 40; 41]%Z.      (* set() *)
Definition tSep : text := [44; 32]%Z.                       (* comma space *)
Definition tKV : text := [58; 32]%Z.                        (* colon space *)

(* ---------- integers ---------- *)
Fixpoint uint_text (u : uint) : text :=
  match u with
  | Nil => []
  | D0 r => 48%Z :: uint_text r | D1 r => 49%Z :: uint_text r | D2 r => 50%Z :: uint_text r
  | D3 r => 51%Z :: uint_text r | D4 r => 52%Z :: uint_text r | D5 r => 53%Z :: uint_text r
  | D6 r => 54%Z :: uint_text r | D7 r => 55%Z :: uint_text r | D8 r => 56%Z :: uint_text r
  | D9 r => 57%Z :: uint_text r
  end.
Fixpoint text_uint (s : text) : option uint :=
  match s with
  | [] => Some Nil
  | c :: r =>
      match text_uint r with
      | None => None
      | Some u =>
          if Z.eqb c 48 then Some (D0 u) else if Z.eqb c 49 then Some (D1 u)
          else if Z.eqb c 50 then Some (D2 u) else if Z.eqb c 51 then Some (D3 u)
          else if Z.eqb c 52 then Some (D4 u) else if Z.eqb c 53 then Some (D5 u)
          else if Z.eqb c 54 then Some (D6 u) else if Z.eqb c 55 then Some (D7 u)
          else if Z.eqb c 56 then Some (D8 u) else if Z.eqb c 57 then Some (D9 u)
          else None
      end
  end.
Definition repr_int (z : Z) : text :=
  match Z.to_int z with
  | Decimal.Pos u => uint_text u
  | Decimal.Neg u => cMINUS :: uint_text u
  end.
Definition text_int (s : text) : option Z :=
  match s with
  | c :: r => if Z.eqb c cMINUS
              then match text_uint r with Some u => Some (Z.of_int (Decimal.Neg u)) | None => None end
              else match text_uint s with Some u => Some (Z.of_int (Decimal.Pos u)) | None => None end
  | [] => None
  end.
(* a decimal integer literal in canonical spelling (what repr prints) *)
Definition parse_int (s : text) : option Z :=
  match text_int s with
  | Some z => if text_eqb (repr_int z) s then Some z else None
  | None => None
  end.

(* ---------- hexadecimal escapes ---------- *)
Definition hexdigit (d : Z) : Z := if Z.ltb d 10 then (48 + d)%Z else (87 + d)%Z.
Definition hexval (c : Z) : option Z :=
  if Z.leb 48 c && Z.leb c 57 then Some (c - 48)%Z
  else if Z.leb 97 c && Z.leb c 102 then Some (c - 87)%Z
  else if Z.leb 65 c && Z.leb c 70 then Some (c - 55)%Z
  else None.
Fixpoint hex (w : nat) (c : Z) : text :=
  match w with 0 => [] | S w' => hex w' (c / 16)%Z ++ [hexdigit (c mod 16)%Z] end.
Fixpoint unhex (acc : Z) (s : text) : option Z :=
  match s with
  | [] => Some acc
  | c :: r => match hexval c with Some d => unhex (acc * 16 + d)%Z r | None => None end
  end.

Definition isdigit (c : Z) : bool := Z.leb 48 c && Z.leb c 57.
(* characters of a number token: digits . e + - *)
Definition numch (c : Z) : bool :=
  isdigit c || Z.eqb c 46 || Z.eqb c 101 || Z.eqb c 43 || Z.eqb c 45.
Fixpoint span (p : Z -> bool) (s : text) : text * text :=
  match s with
  | [] => ([], [])
  | c :: r => if p c then let '(a, b) := span p r in (c :: a, b) else ([], s)
  end.
(* after optional '-', non-empty and all digits *)
Definition int_like (t : text) : bool :=
  match t with
  | c :: r => if Z.eqb c cMINUS then (match r with [] => false | _ => forallb isdigit r end)
              else forallb isdigit t
  | [] => false
  end.
(* what may follow a value in canonical text: end, or , ] ) } : *)
Definition delim_ok (s : text) : bool :=
  match s with
  | [] => true
  | c :: _ => Z.eqb c cCOMMA || Z.eqb c cRB || Z.eqb c cRP || Z.eqb c cRC || Z.eqb c cCOLON
  end.

Fixpoint starts_with (p s : text) : option text :=
  match p, s with
  | [], _ => Some s
  | a :: p', b :: s' => if Z.eqb a b then starts_with p' s' else None
  | _, [] => None
  end.

Fixpoint join (sep : text) (l : list text) : text :=
  match l with
  | [] => []
  | [x] => x
  | x :: r => x ++ sep ++ join sep r
  end.

Section Lit.
  Variable F : Type.                       (* float atoms *)
  Variable frepr : F -> text.              (* CPython float.__repr__ *)
  Variable fparse : text -> option F.      (* CPython float(token) for number tokens *)
  Variable feqb : F -> F -> bool.
  Variable printable : Z -> bool.          (* str.isprintable, used for code points >= 128 *)

  Inductive pyval :=
  | VNone
  | VBool (b : bool)
  | VInt (z : Z)
  | VFloat (f : F)
  | VStr (s : text)
  | VList (l : list pyval)
  | VTuple (l : list pyval)
  | VSet (l : list pyval)                 (* in iteration order *)
  | VDict (l : list (pyval * pyval)).     (* in iteration order *)

  (* ---------- repr ---------- *)
  (* unicode_repr: quote choice *)
  Definition quote_for (s : text) : Z :=
    if mem Z.eqb cQ1 s && negb (mem Z.eqb cQ2 s) then cQ2 else cQ1.
  Definition repr_char (q c : Z) : text :=
    if Z.eqb c q || Z.eqb c cBS then [cBS; c]
    else if Z.eqb c 9 then [cBS; 116]%Z
    else if Z.eqb c 10 then [cBS; 110]%Z
    else if Z.eqb c 13 then [cBS; 114]%Z
    else if Z.ltb c 32 || Z.eqb c 127 then cBS :: 120%Z :: hex 2 c
    else if Z.ltb c 127 then [c]
    else if printable c then [c]
    else if Z.leb c 255 then cBS :: 120%Z :: hex 2 c
    else if Z.leb c 65535 then cBS :: 117%Z :: hex 4 c
    else cBS :: 85%Z :: hex 8 c.
  Definition repr_str (s : text) : text :=
    let q := quote_for s in q :: flat_map (repr_char q) s ++ [q].

  Fixpoint repr (v : pyval) : text :=
    match v with
    | VNone => tNone
    | VBool true => tTrue
    | VBool false => tFalse
    | VInt z => repr_int z
    | VFloat f => frepr f
    | VStr s => repr_str s
    | VList l => cLB :: join tSep (map repr l) ++ [cRB]
    | VTuple l =>
        match l with
        | [x] => cLP :: repr x ++ [cCOMMA; cRP]
        | _ => cLP :: join tSep (map repr l) ++ [cRP]
        end
    | VSet l =>
        match l with
        | [] => tSet0
        | _ => cLC :: join tSep (map repr l) ++ [cRC]
        end
    | VDict l =>
        cLC :: join tSep (map (fun kv => let '(k, x) := kv in repr k ++ tKV ++ repr x) l) ++ [cRC]
    end.

  (* ---------- literal_eval on canonical text ---------- *)
  (* the escape sequence after a backslash: decoded character and remaining text *)
  Definition hexesc (w : nat) (r : text) : option (Z * text) :=
    let h := firstn w r in
    if Nat.eqb (length h) w then
      match unhex 0 h with
      | Some x => if Z.leb x 1114111 then Some (x, skipn w r) else None
      | None => None
      end
    else None.
  Definition unescape (r : text) : option (Z * text) :=
    match r with
    | [] => None
    | e :: r' =>
        if Z.eqb e cBS then Some (cBS, r')
        else if Z.eqb e cQ1 then Some (cQ1, r')
        else if Z.eqb e cQ2 then Some (cQ2, r')
        else if Z.eqb e 110 then Some (10%Z, r')
        else if Z.eqb e 116 then Some (9%Z, r')
        else if Z.eqb e 114 then Some (13%Z, r')
        else if Z.eqb e 120 then hexesc 2 r'
        else if Z.eqb e 117 then hexesc 4 r'
        else if Z.eqb e 85 then hexesc 8 r'
        else None                (* other escapes are not produced by repr *)
    end.

  (* body of a string literal after the opening quote [q]; returns the
     characters and the text after the closing quote *)
  Fixpoint parse_chars (fuel : nat) (q : Z) (s : text) : option (text * text) :=
    match fuel with
    | 0 => None
    | S f =>
        match s with
        | [] => None
        | c :: r =>
            if Z.eqb c q then Some ([], r)
            else if Z.eqb c cBS then
              match unescape r with
              | Some (x, r') =>
                  match parse_chars f q r' with Some (t, r2) => Some (x :: t, r2) | None => None end
              | None => None
              end
            else if Z.ltb c 32 then None       (* raw control characters are rejected *)
            else match parse_chars f q r with Some (t, r2) => Some (c :: t, r2) | None => None end
        end
    end.

  Definition parse_number (s : text) : option (pyval * text) :=
    let '(tok, rest) := span numch s in
    if delim_ok rest then
      if int_like tok then
        match parse_int tok with Some z => Some (VInt z, rest) | None => None end
      else match fparse tok with Some f => Some (VFloat f, rest) | None => None end
    else None.

  Definition keyword (kw : text) (v : pyval) (s : text) : option (pyval * text) :=
    match starts_with kw s with
    | Some rest => if delim_ok rest then Some (v, rest) else None
    | None => None
    end.

  Definition expect (c : Z) (s : text) : option text :=
    match s with x :: r => if Z.eqb x c then Some r else None | [] => None end.

  Definition parse_string (q : Z) (r : text) : option (pyval * text) :=
    match parse_chars (S (length r)) q r with
    | Some (t, r2) => Some (VStr t, r2)
    | None => None
    end.

  Definition parse_atom (s : text) : option (pyval * text) :=
    match s with
    | [] => None
    | c :: r =>
        if Z.eqb c cQ1 || Z.eqb c cQ2 then parse_string c r
        else if isdigit c || Z.eqb c cMINUS then parse_number s
        else match keyword tNone VNone s with
             | Some x => Some x
             | None =>
                 match keyword tTrue (VBool true) s with
                 | Some x => Some x
                 | None =>
                     match keyword tFalse (VBool false) s with
                     | Some x => Some x
                     | None => keyword tSet0 (VSet []) s
                     end
                 end
             end
    end.

  Fixpoint parse_val (fuel : nat) (s : text) : option (pyval * text) :=
    match fuel with
    | 0 => None
    | S f =>
        match s with
        | [] => None
        | c :: r =>
            if Z.eqb c cLB then
              match expect cRB r with
              | Some r2 => Some (VList [], r2)
              | None =>
                  match parse_val f r with
                  | Some (v, s1) =>
                      match parse_tail f s1 with
                      | Some (vs, s2) =>
                          match expect cRB s2 with
                          | Some s3 => Some (VList (v :: vs), s3)
                          | None => None
                          end
                      | None => None
                      end
                  | None => None
                  end
              end
            else if Z.eqb c cLP then
              match expect cRP r with
              | Some r2 => Some (VTuple [], r2)
              | None =>
                  match parse_val f r with
                  | Some (v, s1) =>
                      match parse_tail f s1 with
                      | Some ([], s2) =>
                          match starts_with [cCOMMA; cRP] s2 with
                          | Some s3 => Some (VTuple [v], s3)
                          | None => None          (* a parenthesised single value is not a tuple in Python: not canonical *)
                          end
                      | Some (vs, s2) =>
                          match expect cRP s2 with
                          | Some s3 => Some (VTuple (v :: vs), s3)
                          | None => None
                          end
                      | None => None
                      end
                  | None => None
                  end
              end
            else if Z.eqb c cLC then
              match expect cRC r with
              | Some r2 => Some (VDict [], r2)
              | None =>
                  match parse_val f r with
                  | Some (k, s1) =>
                      match starts_with tKV s1 with
                      | Some s2 =>
                          match parse_val f s2 with
                          | Some (x, s3) =>
                              match parse_pairs f s3 with
                              | Some (kvs, s4) =>
                                  match expect cRC s4 with
                                  | Some s5 => Some (VDict ((k, x) :: kvs), s5)
                                  | None => None
                                  end
                              | None => None
                              end
                          | None => None
                          end
                      | None =>
                          match parse_tail f s1 with
                          | Some (vs, s2) =>
                              match expect cRC s2 with
                              | Some s3 => Some (VSet (k :: vs), s3)
                              | None => None
                              end
                          | None => None
                          end
                      end
                  | None => None
                  end
              end
            else parse_atom s
        end
    end
  (* `, v` repeated *)
  with parse_tail (fuel : nat) (s : text) : option (list pyval * text) :=
    match fuel with
    | 0 => None
    | S f =>
        match starts_with tSep s with
        | Some s1 =>
            match parse_val f s1 with
            | Some (v, s2) =>
                match parse_tail f s2 with
                | Some (vs, s3) => Some (v :: vs, s3)
                | None => None
                end
            | None => None
            end
        | None => Some ([], s)
        end
    end
  (* `, k: v` repeated *)
  with parse_pairs (fuel : nat) (s : text) : option (list (pyval * pyval) * text) :=
    match fuel with
    | 0 => None
    | S f =>
        match starts_with tSep s with
        | Some s1 =>
            match parse_val f s1 with
            | Some (k, s2) =>
                match starts_with tKV s2 with
                | Some s3 =>
                    match parse_val f s3 with
                    | Some (x, s4) =>
                        match parse_pairs f s4 with
                        | Some (kvs, s5) => Some ((k, x) :: kvs, s5)
                        | None => None
                        end
                    | None => None
                    end
                | None => None
                end
            | None => None
            end
        | None => Some ([], s)
        end
    end.

  (* ast.literal_eval / eval_var on the whole text: None = InputError *)
  Definition parse (s : text) : option pyval :=
    match parse_val (S (length s)) s with
    | Some (v, []) => Some v
    | _ => None
    end.

  (* ---------- equality of values (sets up to order) ---------- *)
  Fixpoint veqb (a b : pyval) {struct a} : bool :=
    match a, b with
    | VNone, VNone => true
    | VBool x, VBool y => Bool.eqb x y
    | VInt x, VInt y => Z.eqb x y
    | VFloat x, VFloat y => feqb x y
    | VStr x, VStr y => text_eqb x y
    | VList x, VList y =>
        (fix go (x y : list pyval) : bool :=
           match x, y with
           | [], [] => true
           | a :: x', b :: y' => veqb a b && go x' y'
           | _, _ => false
           end) x y
    | VTuple x, VTuple y =>
        (fix go (x y : list pyval) : bool :=
           match x, y with
           | [], [] => true
           | a :: x', b :: y' => veqb a b && go x' y'
           | _, _ => false
           end) x y
    | VSet x, VSet y =>
        Nat.eqb (length x) (length y) &&
        (fix all (x : list pyval) : bool :=
           match x with
           | [] => true
           | e :: x' =>
               (fix ex (y : list pyval) : bool :=
                  match y with [] => false | b :: y' => veqb e b || ex y' end) y && all x'
           end) x
    | VDict x, VDict y =>
        (fix go (x y : list (pyval * pyval)) : bool :=
           match x, y with
           | [], [] => true
           | (k1, v1) :: x', (k2, v2) :: y' => veqb k1 k2 && veqb v1 v2 && go x' y'
           | _, _ => false
           end) x y
    | _, _ => false
    end.

  (* templatevars.eval_var: literal_eval, and the value's repr must itself be
     readable (it is what the run database will hold); None = InputError *)
  Definition eval_var (s : text) : option pyval :=
    match parse s with
    | Some v => match parse (repr v) with Some _ => Some v | None => None end
    | None => None
    end.

  (* ---------- the run database and restart ---------- *)
  Definition key := nat.
  Definition vars := list (key * pyval).
  (* put_workflow_template_vars: one row (key, repr(value)) per variable *)
  Definition store (vs : vars) : list (key * text) :=
    map (fun kv => (fst kv, repr (snd kv))) vs.
  (* load_workflow_params_and_tmpl_vars / _load_template_vars over the rows:
     `if key not in self.template_vars: self.template_vars[key] = eval_var(value)`;
     None = InputError (the restart fails) *)
  Fixpoint restart (tv : vars) (rows : list (key * text)) : option vars :=
    match rows with
    | [] => Some tv
    | (k, s) :: r =>
        match assoc Nat.eqb k tv with
        | Some _ => restart tv r
        | None =>
            match eval_var s with
            | Some v => restart (tv ++ [(k, v)]) r
            | None => None
            end
        end
    end.
End Lit.

Arguments VNone {F}. Arguments VBool {F} b. Arguments VInt {F} z. Arguments VFloat {F} f.
Arguments VStr {F} s. Arguments VList {F} l. Arguments VTuple {F} l. Arguments VSet {F} l.
Arguments VDict {F} l.

(* ---------- correspondence interface ---------- *)
(* floats are identified with their repr text; fparse is CPython's
   float(token) for the number tokens of this case, as a table *)
Definition fval := pyval text.
Inductive lit_result := LOk (v : fval) | LErr | LOther.   (* LOther: a value outside the modelled types *)
Record case := {
  c_nonprint : list Z;                          (* code points >= 128 in the case that CPython calls non-printable *)
  c_ftab : list (text * text);                  (* number token -> repr(float(token)) *)
  c_vars : list (nat * fval * text * lit_result);   (* key, value accepted at first start, text found in the DB, eval_var(text) *)
  c_cli : list (nat * fval);                    (* variables given on the command line at restart *)
  c_restart : option (list (nat * fval));       (* template_vars after the restart loader; None = InputError *)
  c_lits : list (text * lit_result);            (* other literal texts and what eval_var makes of them *)
  c_rejected : list text                        (* command-line texts refused by eval_var at first start *)
}.

Definition c_fparse (c : case) (tok : text) : option text := assoc text_eqb tok (c_ftab c).
Definition c_printable (c : case) (x : Z) : bool := negb (mem Z.eqb x (c_nonprint c)).
Definition c_repr (c : case) : fval -> text := repr text (fun t => t) (c_printable c).
Definition c_eval (c : case) : text -> option fval :=
  eval_var text (fun t => t) (c_fparse c) (c_printable c).
Definition c_restart_model (c : case) :=
  restart text (fun t => t) (c_fparse c) (c_printable c) (c_cli c)
          (map (fun e => let '(k, _, stored, _) := e in (k, stored)) (c_vars c)).
Definition c_veqb : fval -> fval -> bool := veqb text text_eqb.

Definition vars_eqb (a b : list (nat * fval)) : bool :=
  list_eqb (fun x y => Nat.eqb (fst x) (fst y) && c_veqb (snd x) (snd y)) a b.

Definition check_var (c : case) (e : nat * fval * text * lit_result) : bool :=
  let '(_, v, stored, back) := e in
  text_eqb (c_repr c v) stored &&
  match c_eval c stored, back with
  | Some v', LOk w => c_veqb v' w
  | None, LErr => true
  | _, _ => false
  end.

(* other texts: whenever the model accepts, eval_var returns that value *)
Definition check_lit (c : case) (e : text * lit_result) : bool :=
  match c_eval c (fst e), snd e with
  | Some v, LOk w => c_veqb v w
  | Some _, _ => false
  | None, _ => true
  end.

(* texts refused at first start: the model refuses them too *)
Definition check_rejected (c : case) (s : text) : bool :=
  match c_eval c s with None => true | Some _ => false end.

Definition check_case (c : case) : bool :=
  forallb (check_var c) (c_vars c)
  && forallb (check_lit c) (c_lits c)
  && forallb (check_rejected c) (c_rejected c)
  && match c_restart_model c, c_restart c with
     | Some tv, Some tv' => vars_eqb tv tv'
     | None, None => true
     | _, _ => false
     end.

Definition model_out (c : case) :=
  (map (fun e => let '(_, v, stored, _) := e in (c_repr c v, c_eval c stored)) (c_vars c),
   map (fun e => c_eval c (fst e)) (c_lits c),
   map (c_eval c) (c_rejected c),
   c_restart_model c).
