(* Model/TaskBatch.v — Scheduler.process_queued_task_messages (cylc/flow/scheduler.py)
   restricted to the messages of one task id (C10, batch level):

     itask = self.pool._get_task_by_id(task_id)
     if itask is None: unprocessed_messages.extend(message_items); continue
     should_poll = False
     for tm in message_items:
         if self.task_events_mgr.process_message(itask, ..., FLAG_RECEIVED, tm.job_id.submit_num):
             should_poll = True
     if should_poll: to_poll_tasks.append(itask)
     ...
     if to_poll_tasks: self.task_job_mgr.poll_task_jobs(to_poll_tasks)

   over Model/TaskMsg.process_message.  Tied to the code by the "taskbatch"
   correspondence stream, which calls the real Scheduler method on a real queue
   of TaskMsg objects. *)
From Coq Require Import List Bool Arith ZArith.
From Cylc Require Import Base.Util Gen.TaskMsgTables Model.TaskMsg.
Import ListNotations.

(* a queued message: text and submit number relative to the task's current one *)
Definition bmsg := (msg * Z)%type.
Definition is_poll (e : effect) : bool := match e with EPoll => true | _ => false end.
(* process_message returned True *)
Definition asked_poll (e : list effect) : bool := existsb is_poll e.

Definition deliver (t : task) (x : bmsg) : task * list effect :=
  process_message t (fst x) Received (Z.of_nat (sn t) + snd x)%Z.

(* the per-task loop: (task, effects other than the return value, should_poll) *)
Fixpoint task_batch (t : task) (l : list bmsg) : task * list effect * bool :=
  match l with
  | [] => (t, [], false)
  | x :: r =>
      let p := deliver t x in
      let q := task_batch (fst p) r in
      (fst (fst q), filter not_poll (snd p) ++ snd (fst q), asked_poll (snd p) || snd q)
  end.

(* pool lookup: a task that is not in the pool is not touched and not polled
   (its messages go to process_job_message); the last component says whether
   poll_task_jobs is called with this task *)
Definition queued (in_pool : bool) (t : task) (l : list bmsg) : task * list effect * bool :=
  if in_pool then task_batch t l else (t, [], false).

(* ---------- correspondence interface ---------- *)
Record case := {
  b_n : nat; b_m : nat; b_k : nat;
  b_pre : list op;            (* history before the batch *)
  b_inpool : bool;
  b_batch : list bmsg;
  b_impl : obs;               (* task after the call, o_eff = spawn/retry effects *)
  b_polled : bool             (* poll_task_jobs called with the task *)
}.
Definition model_out (c : case) : obs * bool :=
  let t := final (fresh (b_n c) (b_m c) (b_k c)) (b_pre c) in
  let r := queued (b_inpool c) t (b_batch c) in
  (obs_of (fst r), snd r).
Definition check_case (c : case) : bool :=
  obs_eqb (fst (model_out c)) (b_impl c) && Bool.eqb (snd (model_out c)) (b_polled c).
