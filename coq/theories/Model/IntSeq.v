(* Model/IntSeq.v — executable model of cylc/flow/cycling/integer.py
   (IntegerSequence, IntegerExclusions, get_point_from_expression).
   Hand model, written to follow the Python line by line (defects included);
   tied to the source by the correspondence stream of C16.

   Points and intervals are integers (the real classes wrap canonical decimal
   strings and do all arithmetic/comparison through int()).  `None` is
   `option`.  Python truthiness is modelled explicitly:
     - an IntegerPoint object is always truthy (no __bool__/__len__),
     - an IntegerInterval is truthy iff its value is non-zero ([truthy_step]),
     - an IntegerExclusions object is always truthy, and `self.exclusions`
       is None exactly when the recurrence string has no `!` part.
   Exceptions are the constructors of [err]; recursion/loops take fuel and
   return [Err EFuel] when it runs out (theorems exclude that value). *)
From Coq Require Import List ZArith Bool Lia.
From Cylc Require Import Base.Util.
Import ListNotations.
Local Open Scope Z_scope.

(* ---------- results ---------- *)
Inductive err :=
| EMissingCtx      (* CylcMissingContextPointError *)
| EType            (* TypeError: None used as a point / interval (constructor only) *)
| EIntervalParse   (* IntervalParsingError *)
| EZeroDiv         (* ZeroDivisionError: `% int(self.i_step)` with P0 *)
| ENegInterval     (* ValueError "negative intervals not supported yet" *)
| ERecursion       (* RecursionError seen on the implementation (the model reports EFuel) *)
| EFuel            (* model artefact: fuel exhausted *)
| EOther.          (* any other exception class seen on the implementation; the model never returns it *)

Inductive res (A : Type) := Ok (a : A) | Err (e : err).
Arguments Ok {A} a. Arguments Err {A} e.

Definition bind {A B} (r : res A) (f : A -> res B) : res B :=
  match r with Ok a => f a | Err e => Err e end.
Notation "'do' x <- r ; k" := (bind r (fun x => k)) (at level 200, x name, r at level 100, k at level 200).

Definition err_eqb (a b : err) : bool :=
  match a, b with
  | EMissingCtx, EMissingCtx | EType, EType | EIntervalParse, EIntervalParse
  | EZeroDiv, EZeroDiv | ENegInterval, ENegInterval | ERecursion, ERecursion
  | EFuel, EFuel | EOther, EOther => true
  | _, _ => false
  end.

(* ---------- the recurrence after regex dispatch ---------- *)
(* START / END expressions: absolute integer, or +Pj / -Pj relative to the
   context point (REC_RELATIVE_POINT) *)
Inductive pexpr := Abs (v : Z) | Rel (j : Z).

(* what the `for rec, format_num in RECURRENCE_FORMAT_RECS` loop extracts *)
Record form := {
  f_fmt : Z;                 (* format_num: 1, 3 or 4 *)
  f_reps : option Z;         (* int(reps) or None *)
  f_start : option pexpr;    (* None when the group is absent or empty *)
  f_end : option pexpr;
  f_intv : option Z          (* k of 'Pk' (k >= 0), None when absent *)
}.

(* get_point_from_expression / get_point_relative *)
Definition point_from_expr (e : option pexpr) (ctx : option Z) (required : bool)
  : res (option Z) :=
  match e, ctx with
  | None, None => if required then Err EMissingCtx else Ok None
  | None, Some c => Ok (Some c)
  | Some (Abs v), _ => Ok (Some v)
  | Some (Rel j), Some c => Ok (Some (c + j))
  | Some (Rel j), None => Err EType          (* None + IntegerInterval *)
  end.

(* ---------- sequence state ---------- *)
(* p_start, p_stop, i_step of an IntegerSequence (p_start is never None:
   the start context always exists) *)
Record core := { c_start : Z; c_stop : option Z; c_step : option Z }.

(* bool(self.i_step): None and P0 are falsy *)
Definition truthy_step (s : option Z) : option Z :=
  match s with Some k => if k =? 0 then None else Some k | None => None end.

(* IntegerSequence.__init__ from `self.p_start = get_point_from_expression(...)`
   to just before the exclusions; [cs]/[ce] are p_context_start/p_context_stop *)
Definition init_core (f : form) (cs : Z) (ce : option Z) : res core :=
  let fmt := f_fmt f in
  let start_required := (fmt =? 1) || (fmt =? 3) in
  let end_required := (fmt =? 1) || (fmt =? 4) in
  do ostart <- point_from_expr (f_start f) (Some cs) start_required;
  do p_stop0 <- point_from_expr (f_end f) ce end_required;
  match ostart with
  | None => Err EType   (* unreachable: the start context always exists *)
  | Some p_start0 =>
    (* `if intv: self.i_step = IntegerInterval(intv)` *)
    let step0 := f_intv f in
    do st <-
      (if fmt =? 3 then
         (* REPEAT/START/PERIOD *)
         match f_intv f, f_reps f with
         | None, _ => Ok (p_start0, Some p_start0, None)
         | Some k, Some n =>
             if n <=? 1 then Ok (p_start0, Some p_start0, None)
             else (* `if reps:` — n >= 2 is truthy *)
               Ok (p_start0, Some (p_start0 + k * (n - 1)), Some k)
         | Some k, None =>
             match ce with
             | Some F =>
                 if k =? 0 then Err EZeroDiv
                 else Ok (p_start0, Some (F - (F - p_start0) mod k), Some k)
             | None => Ok (p_start0, p_stop0, Some k)
             end
         end
       else if fmt =? 1 then
         (* REPEAT/START/STOP *)
         match f_reps f with
         | None => Err EType                       (* reps - 1 with reps None *)
         | Some n =>
             if n =? 1 then Ok (p_start0, Some p_start0, None)
             else
               (* IntegerInterval.from_integer(int(stop - start) / (reps - 1)):
                  `/` is true division, the float's str() ('P5.0') never
                  matches REC_INTERVAL *)
               match p_stop0 with
               | None => Err EType
               | Some _ => Err EIntervalParse
               end
         end
       else
         (* format_num == 4: REPEAT/PERIOD/STOP *)
         match f_reps f with
         | Some n =>
             match p_stop0 with
             | None => Err EType   (* unreachable: end is required *)
             | Some e =>
                 if n <=? 1 then Ok (e, p_stop0, None)
                 else match f_intv f with
                      | None => Err EIntervalParse       (* IntegerInterval(None) *)
                      | Some k => Ok (e - k * (n - 1), p_stop0, Some k)
                      end
             end
         | None =>
             match ce with
             | None => Err EType                          (* None - IntegerPoint *)
             | Some F =>
                 match step0 with
                 | None => Err EType                      (* int(None) *)
                 | Some k =>
                     if k =? 0 then Err EZeroDiv
                     else Ok (cs - (F - p_start0) mod k, p_stop0, Some k)
                 end
             end
         end);
    let '(p_start1, p_stop1, step1) := st in
    match truthy_step step1 with
    | None => Ok {| c_start := p_start1; c_stop := p_stop1; c_step := step1 |}
    | Some k =>
        if k <? 0 then Err ENegInterval
        else
          (* start from first point >= context start *)
          let p_start2 :=
            if p_start1 <? cs then cs + (cs - p_start1) mod k else p_start1 in
          (* stop at first point <= context stop *)
          let p_stop2 :=
            match p_stop1, ce with
            | Some e, Some F =>
                if e >? F then Some (F - k + (F - p_start2) mod k) else p_stop1
            | _, _ => p_stop1
            end in
          Ok {| c_start := p_start2; c_stop := p_stop2; c_step := step1 |}
    end
  end.

(* exclusion items in the order of the `!(...)` list *)
Inductive xitem := XP (p : Z) | XS (f : form).

(* IntegerExclusions: points and (exclusion-free) sequences *)
Record seq := {
  s_core : core;
  s_excl : option (list Z * list core)     (* self.exclusions *)
}.

Fixpoint build_excl (items : list xitem) (start : Z) (stop : option Z)
  : res (list Z * list core) :=
  match items with
  | [] => Ok ([], [])
  | XP p :: r =>
      do ps <- build_excl r start stop;
      Ok (p :: fst ps, snd ps)
  | XS f :: r =>
      (* IntegerSequence(point, exclusion_start_point, exclusion_end_point):
         evaluated in list order, the first exception propagates *)
      do c <- init_core f start stop;
      do ps <- build_excl r start stop;
      Ok (fst ps, c :: snd ps)
  end.

(* IntegerSequence.__init__; [items = None] when there is no `!` *)
Definition init (f : form) (items : option (list xitem)) (cs : Z) (ce : option Z)
  : res seq :=
  do c <- init_core f cs ce;
  match items with
  | None | Some [] => Ok {| s_core := c; s_excl := None |}
  | Some its =>
      do x <- build_excl its (c_start c) (c_stop c);
      Ok {| s_core := c; s_excl := Some x |}
  end.

(* ---------- queries on an exclusion-free sequence ---------- *)
Definition on_seq_core (c : core) (p : Z) : bool :=
  match truthy_step (c_step c) with
  | Some k => (p - c_start c) mod k =? 0
  | None => p =? c_start c
  end.

Definition in_bounds_core (c : core) (p : Z) : option Z :=
  if (c_start c <=? p) && match c_stop c with None => true | Some e => p <=? e end
  then Some p else None.

Definition valid_core (c : core) (p : Z) : bool :=
  on_seq_core c p && (c_start c <=? p)
  && match c_stop c with None => true | Some e => p <=? e end.

(* ---------- IntegerExclusions.__contains__ ---------- *)
(* `point in self.exclusions` for a real point *)
Definition excl_has (x : list Z * list core) (p : Z) : bool :=
  mem Z.eqb p (fst x) || existsb (fun c => valid_core c p) (snd x).

(* `ret in self.exclusions` where ret may be None:
   ExclusionBase.__contains__ starts with `if point is None: return False` *)
Definition excl_has_opt (x : list Z * list core) (p : option Z) : bool :=
  match p with
  | Some v => excl_has x v
  | None => false
  end.

(* `self.exclusions and point in self.exclusions` *)
Definition excluded (s : seq) (p : Z) : bool :=
  match s_excl s with None => false | Some x => excl_has x p end.

Definition excluded_opt (s : seq) (p : option Z) : bool :=
  match s_excl s with None => false | Some x => excl_has_opt x p end.

(* ---------- the query API ---------- *)
Definition is_on_sequence (s : seq) (p : Z) : bool :=
  if excluded s p then false else on_seq_core (s_core s) p.

Definition in_bounds (s : seq) (p : Z) : option Z := in_bounds_core (s_core s) p.

Definition is_valid (s : seq) (p : Z) : bool :=
  is_on_sequence s p && (c_start (s_core s) <=? p)
  && match c_stop (s_core s) with None => true | Some e => p <=? e end.

Fixpoint get_prev_point (fuel : nat) (s : seq) (p : Z) : res (option Z) :=
  match fuel with
  | O => Err EFuel
  | S fl =>
      match truthy_step (c_step (s_core s)) with
      | None => Ok None
      | Some k =>
          let i := (p - c_start (s_core s)) mod k in
          let prev := if i =? 0 then p - k else p - i in
          let ret := in_bounds s prev in
          if excluded_opt s ret then
            match ret with
            | Some r => get_prev_point fl s r
            | None => Ok None      (* unreachable: None is never "in" *)
            end
          else Ok ret
      end
  end.

Fixpoint get_next_point (fuel : nat) (s : seq) (p : Z) : res (option Z) :=
  match fuel with
  | O => Err EFuel
  | S fl =>
      match truthy_step (c_step (s_core s)) with
      | None => if p <? c_start (s_core s) then Ok (Some (c_start (s_core s))) else Ok None
      | Some k =>
          let i := (p - c_start (s_core s)) mod k in
          let nxt := p + k - i in
          match in_bounds s nxt with
          | Some r => if excluded s r then get_next_point fl s r else Ok (Some r)
          | None => Ok None
          end
      end
  end.

Fixpoint get_next_point_on_sequence (fuel : nat) (s : seq) (p : Z) : res (option Z) :=
  match fuel with
  | O => Err EFuel
  | S fl =>
      match truthy_step (c_step (s_core s)) with
      | None => Ok None
      | Some k =>
          match in_bounds s (p + k) with
          | Some r => if excluded s r then get_next_point_on_sequence fl s r else Ok (Some r)
          | None => Ok None
          end
      end
  end.

Definition get_first_point (fuel : nat) (s : seq) (p : Z) : res (option Z) :=
  do pt <-
    (if p <=? c_start (s_core s) then Ok (in_bounds s (c_start (s_core s)))
     else if is_on_sequence s p then Ok (in_bounds s p)
     else get_next_point fuel s p);
  match pt with
  | Some r => if excluded s r then get_next_point_on_sequence fuel s r else Ok pt
  | None => Ok None
  end.

Definition get_start_point (fuel : nat) (s : seq) : res (option Z) :=
  if excluded s (c_start (s_core s))
  then get_next_point_on_sequence fuel s (c_start (s_core s))
  else Ok (Some (c_start (s_core s))).

Definition get_stop_point (fuel : nat) (s : seq) : res (option Z) :=
  if excluded_opt s (c_stop (s_core s)) then
    match c_stop (s_core s) with
    | Some e => get_prev_point fuel s e
    | None => Ok None
    end
  else Ok (c_stop (s_core s)).

(* the `while sequence_point is not None` loop of get_nearest_prev_point *)
Fixpoint nprev_loop (fuel : nat) (s : seq) (p : Z) (sp prev : option Z) : res (option Z) :=
  match fuel with
  | O => Err EFuel
  | S fl =>
      match sp with
      | None => Ok prev
      | Some x =>
          if x >? p then Ok prev
          else do nx <- get_next_point (S fl) s x; nprev_loop fl s p nx (Some x)
      end
  end.

Definition get_nearest_prev_point (fuel : nat) (s : seq) (p : Z) : res (option Z) :=
  if is_on_sequence s p then get_prev_point fuel s p
  else
    do prev <- nprev_loop fuel s p (in_bounds s (c_start (s_core s))) None;
    if excluded_opt s prev then
      match prev with
      | Some r =>
          (* only the start point can be an excluded prev_point here *)
          get_prev_point fuel s r
      | None => Ok None
      end
    else Ok prev.

(* ---------- correspondence interface ---------- *)
(* an answer of the implementation: value, None, or exception class *)
Definition ans := res (option Z).

Definition ans_eqb (a b : ans) : bool :=
  match a, b with
  | Ok x, Ok y => option_eqb Z.eqb x y
  | Err EFuel, Err ERecursion | Err ERecursion, Err EFuel => true
  | Err x, Err y => err_eqb x y
  | _, _ => false
  end.

(* per query point: is_on_sequence, is_valid, next, prev, first,
   nearest_prev, next_on_sequence *)
Record qans := {
  q_point : Z; q_on : bool; q_valid : bool;
  q_next : ans; q_prev : ans; q_first : ans; q_nprev : ans; q_nos : ans
}.

(* what the implementation did: the constructor raised, or the state
   (p_start, p_stop, i_step), the start/stop points and the answers *)
Inductive impl_out :=
| IRaised (e : err)
| IBuilt (start : Z) (stop step : option Z) (start_pt stop_pt : ans) (qs : list qans).

Record case := {
  k_form : form; k_items : option (list xitem);
  k_cs : Z; k_ce : option Z;
  k_impl : impl_out
}.

(* short constructors: the generated case files are large, and applications
   elaborate much faster than record syntax *)
Definition mkf (fmt : Z) (reps : option Z) (st en : option pexpr) (intv : option Z) : form :=
  {| f_fmt := fmt; f_reps := reps; f_start := st; f_end := en; f_intv := intv |}.
Definition aN : ans := Ok None.
Definition aS (z : Z) : ans := Ok (Some z).
Definition aE (e : err) : ans := Err e.
Definition mkq (p : Z) (on valid : bool) (nx pv fs np ns : ans) : qans :=
  {| q_point := p; q_on := on; q_valid := valid; q_next := nx; q_prev := pv;
     q_first := fs; q_nprev := np; q_nos := ns |}.
Definition mkcase (f : form) (items : option (list xitem)) (cs : Z) (ce : option Z)
  (impl : impl_out) : case :=
  {| k_form := f; k_items := items; k_cs := cs; k_ce := ce; k_impl := impl |}.

Definition FUEL : nat := Z.to_nat 400.

Definition answer (s : seq) (p : Z) : qans :=
  {| q_point := p; q_on := is_on_sequence s p; q_valid := is_valid s p;
     q_next := get_next_point FUEL s p; q_prev := get_prev_point FUEL s p;
     q_first := get_first_point FUEL s p; q_nprev := get_nearest_prev_point FUEL s p;
     q_nos := get_next_point_on_sequence FUEL s p |}.

Definition qans_eqb (a b : qans) : bool :=
  (q_point a =? q_point b) && Bool.eqb (q_on a) (q_on b) && Bool.eqb (q_valid a) (q_valid b)
  && ans_eqb (q_next a) (q_next b) && ans_eqb (q_prev a) (q_prev b)
  && ans_eqb (q_first a) (q_first b) && ans_eqb (q_nprev a) (q_nprev b)
  && ans_eqb (q_nos a) (q_nos b).

Definition model_out (c : case) : impl_out :=
  match init (k_form c) (k_items c) (k_cs c) (k_ce c) with
  | Err e => IRaised e
  | Ok s =>
      let qs := match k_impl c with IBuilt _ _ _ _ _ l => map q_point l | _ => [] end in
      IBuilt (c_start (s_core s)) (c_stop (s_core s)) (c_step (s_core s))
             (get_start_point FUEL s) (get_stop_point FUEL s) (map (answer s) qs)
  end.

Definition check_case (c : case) : bool :=
  match model_out c, k_impl c with
  | IRaised e, IRaised e' => err_eqb e e'
  | IBuilt a b st sp ep l, IBuilt a' b' st' sp' ep' l' =>
      (a =? a') && option_eqb Z.eqb b b' && option_eqb Z.eqb st st'
      && ans_eqb sp sp' && ans_eqb ep ep' && list_eqb qans_eqb l l'
  | _, _ => false
  end.
