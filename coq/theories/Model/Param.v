(* Model/Param.v — executable model of cylc/flow/param_expand.py
   (GraphExpander.expand/_expand_graph, NameExpander.expand/_expand_name,
   item_in_iterable) and of the out-of-range node removal that
   cylc/flow/graph_parser.py applies to the expanded lines
   (REC_NODE_OUT_OF_RANGE.sub in parse_graph).  Hand model, tied to the source by the C34
   correspondence streams.

   Text is a list of code points.  Parameter names are numbered by the
   harness (the real code only looks names up in dicts).  A graph line /
   runtime heading arrives already split into literal text and <...> groups
   (the harness renders it back to a string for the real code; the regex
   tokenisation REC_P_GROUP / REC_P_OFFS / REC_P_ALL / REC_NAMES is thereby
   validated by the correspondence run, not modelled).  Templates arrive as
   segments (literal | %(name)s | %(name)[+]0<w>d); CPython's `%` operator and
   `int()` on ASCII text are modelled by [apply_tmpl] / [py_int]. *)
From Coq Require Import List Bool ZArith Lia.
From Cylc Require Import Base.Util.
Import ListNotations.
Open Scope Z_scope.

Definition text := list Z.
Definition text_eqb : text -> text -> bool := list_eqb Z.eqb.
Definition pname := nat.

Inductive value := VInt (z : Z) | VStr (s : text).
Definition value_eqb (a b : value) : bool :=
  match a, b with
  | VInt x, VInt y => x =? y
  | VStr x, VStr y => text_eqb x y
  | _, _ => false
  end.

Inductive err := EParam | EValue | EType.
Inductive res (A : Type) := Ok (a : A) | Err (e : err).
Arguments Ok {A} a. Arguments Err {A} e.
Definition bind {A B} (r : res A) (f : A -> res B) : res B :=
  match r with Ok a => f a | Err e => Err e end.

(* ---------- CPython int(str) on ASCII text without blanks ---------- *)
Definition is_digit (c : Z) : bool := (48 <=? c) && (c <=? 57).
(* need = a digit must come next (start, or just after '_') *)
Fixpoint digs (l : text) (acc : Z) (need : bool) : option Z :=
  match l with
  | [] => if need then None else Some acc
  | c :: r =>
      if is_digit c then digs r (acc * 10 + (c - 48)) false
      else if (c =? 95) && negb need then digs r acc true
      else None
  end.
Definition py_int (t : text) : option Z :=
  match t with
  | 43 :: r => digs r 0 true
  | 45 :: r => option_map Z.opp (digs r 0 true)
  | _ => digs t 0 true
  end.
(* `try: nval = int(val) except ValueError: nval = val` *)
Definition nval (raw : text) : value :=
  match py_int raw with Some z => VInt z | None => VStr raw end.

(* ---------- CPython str(int) and %d ---------- *)
Fixpoint dec_digits (fuel : nat) (n : Z) (acc : text) : text :=
  match fuel with
  | O => acc
  | S f => if n <? 10 then (48 + n) :: acc
           else dec_digits f (n / 10) ((48 + n mod 10) :: acc)
  end.
Definition nat_text (n : Z) : text := dec_digits (S (Z.to_nat (Z.log2 n))) n [].
Definition z_text (z : Z) : text :=
  if z <? 0 then 45 :: nat_text (- z) else nat_text z.

Inductive fmt := FS | FD (plus : bool) (width : Z).
(* '%[+]0<w>d' % z : sign, then zeros up to total width w, then digits *)
Definition fmt_d (plus : bool) (w : Z) (z : Z) : text :=
  let sign := if z <? 0 then [45] else if plus then [43] else [] in
  let d := nat_text (Z.abs z) in
  let pad := w - Z.of_nat (length sign) - Z.of_nat (length d) in
  sign ++ repeat 48 (Z.to_nat pad) ++ d.
Definition fmt_value (f : fmt) (v : value) : res text :=
  match f, v with
  | FS, VInt z => Ok (z_text z)
  | FS, VStr s => Ok s
  | FD p w, VInt z => Ok (fmt_d p w z)
  | FD _ _, VStr _ => Err EType          (* TypeError: %d format: a real number is required *)
  end.

Inductive seg := Lit (t : text) | Fld (p : pname) (f : fmt).
Definition template := list seg.
Definition dict := list (pname * value).       (* insertion-ordered dict *)

(* `tmpl % values`: left to right, first failing conversion raises;
   a missing key is KeyError -> ParamExpandError *)
Fixpoint apply_tmpl (t : template) (d : dict) : res text :=
  match t with
  | [] => Ok []
  | Lit s :: r => bind (apply_tmpl r d) (fun x => Ok (s ++ x))
  | Fld p f :: r =>
      match assoc Nat.eqb p d with
      | None => Err EParam
      | Some v => bind (fmt_value f v) (fun s => bind (apply_tmpl r d) (fun x => Ok (s ++ x)))
      end
  end.

(* d[p] = v : keeps the position of an existing key *)
Fixpoint upd (d : dict) (p : pname) (v : value) : dict :=
  match d with
  | [] => [(p, v)]
  | (q, w) :: r => if Nat.eqb p q then (q, v) :: r else (q, w) :: upd r p v
  end.

(* ---------- configuration ---------- *)
Record pdef := { p_vals : list value; p_tmpl : template }.
Definition cfg := list (pname * pdef).

(* `self.param_cfg.get(pname, None)` used as a truth value: undefined and
   empty are the same *)
Definition vals_of (c : cfg) (p : pname) : option (list value) :=
  match assoc Nat.eqb p c with
  | Some d => match p_vals d with [] => None | l => Some l end
  | None => None
  end.
Definition tmpl_of (c : cfg) (p : pname) : template :=
  match assoc Nat.eqb p c with Some d => p_tmpl d | None => [] end.

(* item_in_iterable(item, itt) *)
Fixpoint int_in (n : Z) (l : list value) : res bool :=
  match l with
  | [] => Ok false
  | VInt k :: r => if k =? n then Ok true else int_in n r
  | VStr s :: r =>
      match py_int s with
      | Some k => if k =? n then Ok true else int_in n r
      | None => Err EValue               (* int('cat') inside the generator *)
      end
  end.
Definition in_iter (v : value) (l : list value) : res bool :=
  if mem value_eqb v l then Ok true
  else match v with
       | VInt n => int_in n l
       | VStr _ => Ok false              (* int(item) raises ValueError -> False *)
       end.

(* ---------- lines ---------- *)
Inductive sel := SFree | SEq (raw : text) | SOff (k : Z).
Definition item := (pname * sel)%type.
Inductive tok := TLit (t : text) | TGrp (items : list item).
Definition line := list tok.

Definition REMOVE : value := VInt (-32768).

Fixpoint index_of (v : value) (l : list value) (i : Z) : option Z :=
  match l with
  | [] => None
  | x :: r => if value_eqb x v then Some i else index_of v r (i + 1)
  end.
Fixpoint nthZ (l : list value) (i : Z) : option value :=
  match l with
  | [] => None
  | x :: r => if i =? 0 then Some x else nthZ r (i - 1)
  end.
Definition lenZ {A} (l : list A) : Z := Z.of_nat (length l).

(* the value one <...> item contributes, given the loop values [env] *)
Definition item_value (c : cfg) (env : dict) (it : item) : res value :=
  let (p, s) := it in
  match s with
  | SFree => match assoc Nat.eqb p env with Some v => Ok v | None => Err EParam end
  | SEq raw => Ok (nval raw)
  | SOff k =>
      match assoc Nat.eqb p env, vals_of c p with
      | Some v, Some pl =>
          match index_of v pl 0 with
          | Some i =>
              let j := i + k in
              if (0 <=? j) && (j <? lenZ pl)
              then match nthZ pl j with Some w => Ok w | None => Ok REMOVE end
              else Ok REMOVE
          | None => Err EValue
          end
      | _, _ => Err EParam
      end
  end.

(* param_values dict of one group *)
Fixpoint group_values (c : cfg) (env : dict) (items : list item) (acc : dict) : res dict :=
  match items with
  | [] => Ok acc
  | it :: r => bind (item_value c env it) (fun v => group_values c env r (upd acc (fst it) v))
  end.

Definition group_tmpl (c : cfg) (d : dict) : template :=
  flat_map (fun kv => tmpl_of c (fst kv)) d.

Definition group_text (c : cfg) (env : dict) (items : list item) : res text :=
  bind (group_values c env items []) (fun d => apply_tmpl (group_tmpl c d) d).

(* the inner loop of _expand_graph: every group replaced by its text *)
Fixpoint subst_line (c : cfg) (env : dict) (l : line) : res text :=
  match l with
  | [] => Ok []
  | TLit s :: r => bind (subst_line c env r) (fun x => Ok (s ++ x))
  | TGrp its :: r => bind (group_text c env its) (fun s => bind (subst_line c env r) (fun x => Ok (s ++ x)))
  end.

(* concatenate the results of a list of computations, first error wins *)
Fixpoint collect {A} (l : list (res (list A))) : res (list A) :=
  match l with
  | [] => Ok []
  | Ok a :: r => bind (collect r) (fun x => Ok (a ++ x))
  | Err e :: _ => Err e
  end.

(* _expand_graph: nested loops over the used parameters; `values` dict is
   modelled by consing the newest binding in front (lookup finds the newest) *)
Fixpoint expand_rec (c : cfg) (l : line) (params : list (pname * list value)) (env : dict)
  : res (list text) :=
  match params with
  | [] => bind (subst_line c env l) (fun s => Ok (match s with [] => [] | _ => [s] end))
  | (p, vs) :: r => collect (map (fun v => expand_rec c l r ((p, v) :: env)) vs)
  end.

(* first phase of GraphExpander.expand: definedness / range checks and the
   list of used parameter names *)
Fixpoint check_items (c : cfg) (items : list item) (used : list pname) : res (list pname) :=
  match items with
  | [] => Ok used
  | (p, s) :: r =>
      match vals_of c p with
      | None => Err EParam
      | Some vs =>
          let next := check_items c r (if mem Nat.eqb p used then used else used ++ [p]) in
          match s with
          | SEq raw => bind (in_iter (nval raw) vs) (fun b => if b then next else Err EParam)
          | _ => next
          end
      end
  end.
Fixpoint check_line (c : cfg) (l : line) (used : list pname) : res (list pname) :=
  match l with
  | [] => Ok used
  | TLit _ :: r => check_line c r used
  | TGrp its :: r => bind (check_items c its used) (check_line c r)
  end.

Definition used_params (c : cfg) (used : list pname) : list (pname * list value) :=
  map (fun p => (p, match vals_of c p with Some l => l | None => [] end)) used.

Definition graph_expand (c : cfg) (l : line) : res (list text) :=
  bind (check_line c l []) (fun used => expand_rec c l (used_params c used) []).

(* ---------- NameExpander ---------- *)
(* state while scanning one name: template so far, spec_vals, used_params *)
Fixpoint name_items (c : cfg) (items : list item) (tm : template) (spec : dict)
         (used : list (pname * list value)) : res (template * dict * list (pname * list value)) :=
  match items with
  | [] => Ok (tm, spec, used)
  | (p, s) :: r =>
      match vals_of c p with
      | None => Err EParam
      | Some vs =>
          match s with
          | SOff _ => Err EParam
          | SEq raw =>
              bind (in_iter (nval raw) vs) (fun b =>
                if b then name_items c r (tm ++ tmpl_of c p) (upd spec p (nval raw)) used
                else Err EParam)
          | SFree => name_items c r (tm ++ tmpl_of c p) spec (used ++ [(p, vs)])
          end
      end
  end.
Fixpoint name_scan (c : cfg) (l : line) (tm : template) (spec : dict)
         (used : list (pname * list value)) : res (template * dict * list (pname * list value)) :=
  match l with
  | [] => Ok (tm, spec, used)
  | TLit s :: r => name_scan c r (tm ++ [Lit s]) spec used
  | TGrp its :: r => bind (name_items c its tm spec used) (fun st =>
      let '(tm', spec', used') := st in name_scan c r tm' spec' used')
  end.

Fixpoint expand_name_rec (tm : template) (params : list (pname * list value)) (spec : dict)
  : res (list (text * dict)) :=
  match params with
  | [] => bind (apply_tmpl tm spec) (fun s => Ok [(s, spec)])
  | (p, vs) :: r => collect (map (fun v => expand_name_rec tm r (upd spec p v)) vs)
  end.

Definition has_group (l : line) : bool :=
  existsb (fun t => match t with TGrp _ => true | TLit _ => false end) l.
Definition lits (l : line) : text :=
  flat_map (fun t => match t with TLit s => s | TGrp _ => [] end) l.

Definition name_expand1 (c : cfg) (l : line) : res (list (text * dict)) :=
  if has_group l
  then bind (name_scan c l [] [] []) (fun st =>
         let '(tm, spec, used) := st in expand_name_rec tm used spec)
  else Ok [(lits l, [])].

Definition name_expand (c : cfg) (names : list line) : res (list (text * dict)) :=
  collect (map (name_expand1 c) names).

(* ---------- removal of out-of-range nodes (graph_parser.py) ---------- *)
(* One side of a dependency after expansion: n1 op n2 op ... nk with every
   node either marked by the _REMOVE value or not.  REC_NODE_OUT_OF_RANGE.sub('')
   removes "^node op" for a marked first node, "op node" for a marked later
   node; after "^n1 op" was consumed n2 has no operator left in front of it
   and is not at the start of the scanned string any more. *)
Definition node := (bool * text)%type.            (* (marked, text) *)
Definition expr := (node * list (Z * node))%type. (* first node, then (op, node) *)

Definition keep_rest (l : list (Z * node)) : list (Z * node) :=
  filter (fun on => negb (fst (snd on))) l.
Definition drop_nodes (e : expr) : option expr :=
  let (n1, rest) := e in
  if fst n1 then
    match rest with
    | [] => None
    | (_, n2) :: rest' => Some (n2, keep_rest rest')
    end
  else Some (n1, keep_rest rest).
(* what the property asks for: exactly the unmarked nodes remain *)
Definition drop_spec (e : expr) : list text :=
  map snd (filter (fun n => negb (fst n)) (fst e :: map snd (snd e))).
Definition expr_nodes (e : option expr) : list text :=
  match e with None => [] | Some (n1, rest) => snd n1 :: map (fun on => snd (snd on)) rest end.
Definition expr_text (e : option expr) : text :=
  match e with
  | None => []
  | Some (n1, rest) => snd n1 ++ flat_map (fun on => fst on :: snd (snd on)) rest
  end.

(* ---------- correspondence interface ---------- *)
Definition subset {A} (eqb : A -> A -> bool) (a b : list A) : bool :=
  forallb (fun x => mem eqb x b) a.
Definition set_eqb {A} (eqb : A -> A -> bool) (a b : list A) : bool :=
  subset eqb a b && subset eqb b a.

Definition dict_eqb (a b : dict) : bool :=
  Nat.eqb (length a) (length b) &&
  forallb (fun kv => option_eqb value_eqb (assoc Nat.eqb (fst kv) b) (Some (snd kv))) a.
Definition inst_eqb (a b : text * dict) : bool :=
  text_eqb (fst a) (fst b) && dict_eqb (snd a) (snd b).

(* implementation outcome: Some set / None = an exception was raised *)
Record gcase := { g_cfg : cfg; g_line : line; g_impl : option (list text) }.
Definition g_model (c : gcase) := graph_expand (g_cfg c) (g_line c).
Definition g_check (c : gcase) : bool :=
  match g_model c, g_impl c with
  | Ok l, Some l' => set_eqb text_eqb l l'
  | Err _, None => true
  | _, _ => false
  end.

Definition err_code (e : err) : nat := match e with EParam => 0 | EValue => 1 | EType => 2 end.
Record ncase := { n_cfg : cfg; n_names : list line;
                  n_impl : list (text * dict) + nat }.
Definition n_model (c : ncase) := name_expand (n_cfg c) (n_names c).
Definition n_check (c : ncase) : bool :=
  match n_model c, n_impl c with
  | Ok l, inl l' => set_eqb inst_eqb l l'
  | Err e, inr k => Nat.eqb (err_code e) k
  | _, _ => false
  end.

(* removal: each expanded left-hand expression (node texts reduced to the task
   name) and the set of task names GraphParser.parse_graph left in the graph *)
Record dcase := { d_items : list (expr * list text) }.
Definition d_model (c : dcase) := map (fun et => expr_nodes (drop_nodes (fst et))) (d_items c).
Definition d_check (c : dcase) : bool :=
  forallb (fun et => set_eqb text_eqb (expr_nodes (drop_nodes (fst et))) (snd et)) (d_items c).
