(* Model/Codes.v — text as lists of code points (list Z), and a compact
   literal format for the correspondence case files: Coq parses long list
   literals slowly, so the harness writes each text as a string literal of
   6 lower-case hex digits per code point and [dec] decodes it. (C39, C23) *)
From Coq Require Import List ZArith String Ascii.
Import ListNotations.
Open Scope Z_scope.

Definition hexval (a : ascii) : Z :=
  let n := Z.of_N (N_of_ascii a) in if n <? 58 then n - 48 else n - 87.

Fixpoint dec_aux (s : string) (k : nat) (acc : Z) : list Z :=
  match s with
  | EmptyString => []
  | String a r =>
      let acc' := acc * 16 + hexval a in
      match k with
      | O => acc' :: dec_aux r 5%nat 0
      | S k' => dec_aux r k' acc'
      end
  end.

Definition dec (s : string) : list Z := dec_aux s 5%nat 0.
