(* Model/Queues.v — executable hand model of
     cylc/flow/task_queues/independent.py  (LimitedTaskQueue, IndepQueueManager)
     cylc/flow/task_queues/__init__.py     (TaskQueueManagerBase._expand_families)
   tied to the source by the C05 correspondence stream "queues".

   Names (task / family / queue names) are numbered by the harness; the code
   only compares them for equality.  Queue name 0 is "default".
   Python sets are lists here (membership is all that is ever observed; the
   correspondence compares them sorted).  A deque is a list in ARRIVAL order:
   head = oldest = right end of the Python deque (push_task does appendleft,
   release pops from the right). *)
From Coq Require Import List Bool Arith Lia.
From Cylc Require Import Base.Util.
Import ListNotations.

Definition name := nat.
Definition qname := nat.
Definition q_default : qname := 0.

(* Which end of the deque `LimitedTaskQueue.release` puts the held tasks it
   passed over back on.  The code now (fix ffd4e73) does
       for itask in reversed(held): self.deque.append(itask)
   i.e. they go back to the OLDEST end in their original order (true).
   Before that fix it did `for itask in held: self.deque.appendleft(itask)`:
   they re-entered at the newest end (false).  Theorems are proved for both
   values where they hold for both; the ones about `false` describe the pre-fix
   code only. *)
Definition held_requeue_front : bool := true.

(* ------------------------------------------------------------------ *)
(* configuration                                                       *)
Record qconf := { qc_limit : nat; qc_members : list name }.
Definition qconfig := list (qname * qconf).
Definition descendants := list (name * list name).

Definition is_family (d : descendants) (x : name) : bool :=
  match assoc Nat.eqb x d with Some _ => true | None => false end.

Definition set_add (x : name) (l : list name) : list name :=
  if mem Nat.eqb x l then l else l ++ [x].

Definition rm (x : name) (l : list name) : list name :=
  filter (fun y => negb (Nat.eqb y x)) l.

(* TaskQueueManagerBase._expand_families, one membership list *)
Definition expand_members (all : list name) (d : descendants) (ms : list name) : list name :=
  fold_left
    (fun acc m =>
       match assoc Nat.eqb m d with
       | Some fm =>
           fold_left (fun acc f =>
                        if negb (is_family d f) && mem Nat.eqb f all
                        then set_add f acc else acc) fm acc
       | None => if mem Nat.eqb m all then set_add m acc else acc
       end) ms [].

Definition expand_families (all : list name) (d : descendants) (qc : qconfig) : qconfig :=
  map (fun e => (fst e, {| qc_limit := qc_limit (snd e);
                           qc_members := expand_members all d (qc_members (snd e)) |})) qc.

Definition has_queue (q : qname) (qc : qconfig) : bool :=
  match assoc Nat.eqb q qc with Some _ => true | None => false end.

(* qconfig[Q_DEFAULT]['members'] = set(all_task_names)   (KeyError if absent) *)
Definition set_default_members (all : list name) (qc : qconfig) : option qconfig :=
  if has_queue q_default qc then
    Some (map (fun e => if Nat.eqb (fst e) q_default
                        then (fst e, {| qc_limit := qc_limit (snd e); qc_members := dedup Nat.eqb all |})
                        else e) qc)
  else None.

Definition upd_members (f : list name -> list name) (q : qname) (qs : qconfig) : qconfig :=
  map (fun e => if Nat.eqb (fst e) q
                then (fst e, {| qc_limit := qc_limit (snd e); qc_members := f (qc_members (snd e)) |})
                else e) qs.

Definition seen_map := list (name * qname).

(* body of `for qmem in qconfig["members"]:` in _make_indep *)
Definition indep_step (q : qname) (st : qconfig * seen_map) (qmem : name) : qconfig * seen_map :=
  let (qs, seen) := st in
  (* with suppress(KeyError): queues[Q_DEFAULT]["members"].remove(qmem)
     — also suppressed when the default queue has not been reached yet *)
  let qs1 := upd_members (rm qmem) q_default qs in
  let qs2 := match assoc Nat.eqb qmem seen with
             | Some oldq => upd_members (rm qmem) oldq qs1
             | None => upd_members (set_add qmem) q qs1
             end in
  (qs2, (qmem, q) :: seen).

(* body of `for qname, qconfig in in_queues.items():` *)
Definition indep_queue (st : qconfig * seen_map) (e : qname * qconf) : qconfig * seen_map :=
  let (qs, seen) := st in
  let qs' := qs ++ [e] in
  if Nat.eqb (fst e) q_default then (qs', seen)
  else fold_left (indep_step (fst e)) (qc_members (snd e)) (qs', seen).

Definition make_indep (in_queues : qconfig) : qconfig :=
  fst (fold_left indep_queue in_queues ([], [])).

(* IndepQueueManager.__init__ up to the LimitedTaskQueue objects *)
Definition init_config (all : list name) (d : descendants) (qc : qconfig) : option qconfig :=
  match set_default_members all qc with
  | Some qc' => Some (make_indep (expand_families all d qc'))
  | None => None
  end.

(* ------------------------------------------------------------------ *)
(* run time                                                            *)
Record task := { t_id : nat; t_name : name }.
Record queue := { q_name : qname; q_limit : nat; q_members : list name; q_deque : list task }.
Record state := { st_queues : list queue; st_held : list nat }.

Definition counter := list (name * nat).
Definition count (a : counter) (n : name) : nat :=
  match assoc Nat.eqb n a with Some c => c | None => 0 end.
Fixpoint incr (n : name) (a : counter) : counter :=
  match a with
  | [] => [(n, 1)]
  | (k, c) :: r => if Nat.eqb n k then (k, S c) :: r else (k, c) :: incr n r
  end.
Definition n_active (members : list name) (a : counter) : nat :=
  sum_nat (map (count a) members).

Definition is_held (held : list nat) (t : task) : bool := mem Nat.eqb (t_id t) held.

(* the `while not self.limit or n_active < self.limit:` loop:
   (released, held-and-passed-over, never popped) *)
Fixpoint pop_loop (limit n : nat) (held : list nat) (dq : list task)
  : list task * list task * list task :=
  match dq with
  | [] => ([], [], [])
  | t :: r =>
      if Nat.eqb limit 0 || Nat.ltb n limit then
        if is_held held t then
          let '(rel, h, rest) := pop_loop limit n held r in (rel, t :: h, rest)
        else
          let '(rel, h, rest) := pop_loop limit (S n) held r in (t :: rel, h, rest)
      else ([], [], dq)
  end.

Definition requeue (front : bool) (h rest : list task) : list task :=
  if front then h ++ rest else rest ++ h.

(* LimitedTaskQueue.release *)
Definition release_queue (front : bool) (held : list nat) (q : queue) (a : counter)
  : list task * queue * counter :=
  let '(rel, h, rest) := pop_loop (q_limit q) (n_active (q_members q) a) held (q_deque q) in
  (rel,
   {| q_name := q_name q; q_limit := q_limit q; q_members := q_members q;
      q_deque := requeue front h rest |},
   fold_left (fun a t => incr (t_name t) a) rel a).

(* IndepQueueManager.release_tasks *)
Fixpoint release_all (front : bool) (held : list nat) (qs : list queue) (a : counter)
  : list task * list queue * counter :=
  match qs with
  | [] => ([], [], a)
  | q :: r =>
      let '(rel, q', a') := release_queue front held q a in
      let '(rel2, r', a'') := release_all front held r a' in
      (rel ++ rel2, q' :: r', a'')
  end.

Definition set_deque (q : queue) (dq : list task) : queue :=
  {| q_name := q_name q; q_limit := q_limit q; q_members := q_members q; q_deque := dq |}.

(* LimitedTaskQueue.push_task *)
Definition push_queue (t : task) (q : queue) : queue :=
  if mem Nat.eqb (t_name t) (q_members q) then set_deque q (q_deque q ++ [t]) else q.

(* IndepQueueManager.push_task_if_limited: any() stops at the first queue
   that took the task *)
Fixpoint push_if_limited (t : task) (a : counter) (qs : list queue) : bool * list queue :=
  match qs with
  | [] => (false, [])
  | q :: r =>
      if negb (Nat.eqb (q_limit q) 0) && Nat.leb (q_limit q) (n_active (q_members q) a)
         && mem Nat.eqb (t_name t) (q_members q)
      then (true, set_deque q (q_deque q ++ [t]) :: r)
      else let (b, r') := push_if_limited t a r in (b, q :: r')
  end.

(* deque.remove(itask): first match from the left = NEWEST occurrence *)
Fixpoint remove_last (id : nat) (dq : list task) : option (list task) :=
  match dq with
  | [] => None
  | t :: r =>
      match remove_last id r with
      | Some r' => Some (t :: r')
      | None => if Nat.eqb (t_id t) id then Some r else None
      end
  end.

(* IndepQueueManager.remove_task: any() stops at the first queue that had it *)
Fixpoint remove_task (id : nat) (qs : list queue) : bool * list queue :=
  match qs with
  | [] => (false, [])
  | q :: r =>
      match remove_last id (q_deque q) with
      | Some dq => (true, set_deque q dq :: r)
      | None => let (b, r') := remove_task id r in (b, q :: r')
      end
  end.

(* IndepQueueManager.adopt_tasks *)
Definition adopt (orphans : list name) (qs : list queue) : list queue :=
  map (fun q => if Nat.eqb (q_name q) q_default
                then {| q_name := q_name q; q_limit := q_limit q;
                        q_members := fold_left (fun acc o => set_add o acc) orphans (q_members q);
                        q_deque := q_deque q |}
                else q) qs.

Inductive op :=
| OPush (t : task)
| OPushIfLimited (t : task) (a : counter)
| ORelease (a : counter)
| ORemove (id : nat)
| OSetHeld (id : nat) (b : bool)      (* the user holds / releases a task: itask.state.is_held *)
| OAdopt (orphans : list name).

Inductive obs :=
| ObsUnit
| ObsBool (b : bool)
| ObsReleased (ids : list nat) (a : counter).

Definition step (front : bool) (st : state) (o : op) : state * obs :=
  match o with
  | OPush t => ({| st_queues := map (push_queue t) (st_queues st); st_held := st_held st |}, ObsUnit)
  | OPushIfLimited t a =>
      let (b, qs) := push_if_limited t a (st_queues st) in
      ({| st_queues := qs; st_held := st_held st |}, ObsBool b)
  | ORelease a =>
      let '(rel, qs, a') := release_all front (st_held st) (st_queues st) a in
      ({| st_queues := qs; st_held := st_held st |}, ObsReleased (map t_id rel) a')
  | ORemove id =>
      let (b, qs) := remove_task id (st_queues st) in
      ({| st_queues := qs; st_held := st_held st |}, ObsBool b)
  | OSetHeld id b =>
      ({| st_queues := st_queues st;
          st_held := if b then id :: st_held st
                     else filter (fun x => negb (Nat.eqb x id)) (st_held st) |}, ObsUnit)
  | OAdopt os => ({| st_queues := adopt os (st_queues st); st_held := st_held st |}, ObsUnit)
  end.

Definition init_state (qs : qconfig) : state :=
  {| st_queues := map (fun e => {| q_name := fst e; q_limit := qc_limit (snd e);
                                   q_members := qc_members (snd e); q_deque := [] |}) qs;
     st_held := [] |}.

Fixpoint run (front : bool) (st : state) (ops : list op) : state :=
  match ops with
  | [] => st
  | o :: r => run front (fst (step front st o)) r
  end.

(* ------------------------------------------------------------------ *)
(* correspondence interface                                            *)
Definition sorted (l : list nat) : list nat := sort_by Nat.leb l.

Definition canon_counter (a : counter) : list (name * nat) :=
  sort_by (fun x y => Nat.leb (fst x) (fst y)) (filter (fun e => negb (Nat.eqb (snd e) 0)) a).

Definition obs_eqb (x y : obs) : bool :=
  match x, y with
  | ObsUnit, ObsUnit => true
  | ObsBool a, ObsBool b => Bool.eqb a b
  | ObsReleased i a, ObsReleased j b =>
      list_eqb Nat.eqb i j
      && list_eqb (pair_eqb Nat.eqb Nat.eqb) (canon_counter a) (canon_counter b)
  | _, _ => false
  end.

Definition snapshot (st : state) : list (list nat) :=
  map (fun q => map t_id (q_deque q)) (st_queues st).

Definition members_view (qs : list queue) : list (qname * (nat * list name)) :=
  map (fun q => (q_name q, (q_limit q, sorted (q_members q)))) qs.

Definition view_eqb (a b : list (qname * (nat * list name))) : bool :=
  list_eqb (pair_eqb Nat.eqb (pair_eqb Nat.eqb (list_eqb Nat.eqb))) a b.

Record case := {
  c_all : list name;                  (* all_task_names *)
  c_desc : descendants;               (* runtime family dict *)
  c_qconfig : qconfig;                (* [scheduling][queues], in dict order *)
  (* the implementation: None = constructor raised KeyError('default');
     else queues after __init__ (members sorted), then per op: its result and
     the ids in every deque (oldest first), then the final memberships *)
  c_impl_init : option (list (qname * (nat * list name)));
  c_trace : list (op * obs * list (list nat));
  c_impl_final : list (qname * (nat * list name))
}.

Fixpoint check_trace (front : bool) (st : state) (tr : list (op * obs * list (list nat)))
  : bool * state :=
  match tr with
  | [] => (true, st)
  | (o, ob, snap) :: r =>
      let (st', ob') := step front st o in
      if obs_eqb ob' ob && list_eqb (list_eqb Nat.eqb) (snapshot st') snap
      then check_trace front st' r else (false, st')
  end.

Definition check_case (c : case) : bool :=
  match init_config (c_all c) (c_desc c) (c_qconfig c), c_impl_init c with
  | None, None => true
  | Some qs, Some v =>
      let st := init_state qs in
      view_eqb (members_view (st_queues st)) v &&
      (let (ok, st') := check_trace held_requeue_front st (c_trace c) in
       ok && view_eqb (members_view (st_queues st')) (c_impl_final c))
  | _, _ => false
  end.

(* debugging aid: what the model computes *)
Fixpoint model_trace (front : bool) (st : state) (ops : list op) : list (obs * list (list nat)) :=
  match ops with
  | [] => []
  | o :: r => let (st', ob) := step front st o in (ob, snapshot st') :: model_trace front st' r
  end.

Definition model_out (c : case) :=
  match init_config (c_all c) (c_desc c) (c_qconfig c) with
  | None => (None, [])
  | Some qs => (Some (members_view (st_queues (init_state qs))),
                model_trace held_requeue_front (init_state qs) (map (fun x => fst (fst x)) (c_trace c)))
  end.
