(* Model/Completion.v — executable model of
     cylc/flow/task_outputs.py : get_completion_expression, TaskOutputs.is_complete
     cylc/flow/task_pool.py    : TaskPool.remove_if_complete
   Hand model, tied to the source by the C11 correspondence streams.

   Outputs are numbered by their completion variable: the six standard ones
   are fixed, custom outputs are 6, 7, ...  A task definition is the
   `tdef.outputs` dict as an association list  compvar -> required flag
   (Some true = required, Some false = optional, None = not set by the graph). *)
From Coq Require Import List Bool Arith.
From Cylc Require Import Base.Util Model.BExpr.
Import ListNotations.

Definition EXPIRED := 0.
Definition SUBMITTED := 1.
Definition SUBMIT_FAILED := 2.
Definition STARTED := 3.
Definition SUCCEEDED := 4.
Definition FAILED := 5.

Definition tdef := list (nat * option bool).

Definition flag (t : tdef) (o : nat) : option bool :=
  match assoc Nat.eqb o t with Some f => f | None => None end.

(* `tdef.outputs[o][1] is False` *)
Definition is_optional (t : tdef) (o : nat) : bool :=
  match flag t o with Some false => true | _ => false end.

(* `{compvar for trigger, (_, required) in tdef.outputs.items() if required}` *)
Definition required (t : tdef) : list nat :=
  map fst (filter (fun p => match snd p with Some true => true | _ => false end) t).

Definition fail_tolerated (t : tdef) : bool := is_optional t SUCCEEDED || is_optional t FAILED.
Definition submit_fail_tolerated (t : tdef) : bool := is_optional t SUBMITTED || is_optional t SUBMIT_FAILED.
Definition expiry_tolerated (t : tdef) : bool := is_optional t EXPIRED.

(* get_completion_expression without a user expression; None = the empty string.
   `parts` is the Python list of the same name. *)
Definition default_parts (t : tdef) : list bexpr :=
  let parts0 := match conj_list (map BVar (required t)) with Some c => [c] | None => [] end in
  let parts1 :=
    if fail_tolerated t then
      match parts0 with
      | c :: _ => [BOr (BAnd c (BVar SUCCEEDED)) (BVar FAILED)]
      | [] => [BOr (BVar SUCCEEDED) (BVar FAILED)]
      end
    else parts0 in
  let parts2 := if submit_fail_tolerated t then parts1 ++ [BVar SUBMIT_FAILED] else parts1 in
  if expiry_tolerated t then parts2 ++ [BVar EXPIRED] else parts2.

Definition default_expr (t : tdef) : option bexpr := disj_list (default_parts t).

(* FINAL_OUTPUT_COMPLETION *)
Definition final_expr : bexpr :=
  BOr (BOr (BOr (BVar SUCCEEDED) (BVar FAILED)) (BVar SUBMIT_FAILED)) (BVar EXPIRED).

(* the expression is_complete evaluates: the user's if given, else the default,
   else (blank) FINAL_OUTPUT_COMPLETION *)
Definition completion_expr (t : tdef) (user : option bexpr) : bexpr :=
  match user with
  | Some e => e
  | None => match default_expr t with Some e => e | None => final_expr end
  end.

(* variables passed to the evaluator: one per registered output *)
Definition completed_env (t : tdef) (done : list nat) : nat -> option bool :=
  fun a => match assoc Nat.eqb a t with
           | Some _ => Some (mem Nat.eqb a done)
           | None => None
           end.

(* TaskOutputs.is_complete : None = NameError *)
Definition is_complete (t : tdef) (user : option bexpr) (done : list nat) : option bool :=
  evalo (completed_env t done) (completion_expr t user).

(* ---- the documented rule, as an explicit specification ---- *)
Definition nonempty {A} (l : list A) : bool := match l with [] => false | _ => true end.

Definition spec_complete (t : tdef) (s : nat -> bool) : bool :=
  let req_ok := forallb s (required t) in
  let has_main := fail_tolerated t || nonempty (required t) in
  if negb (has_main || submit_fail_tolerated t || expiry_tolerated t) then
    (* nothing is required and nothing is optional: blank expression,
       complete when any final output has been generated *)
    s SUCCEEDED || s FAILED || s SUBMIT_FAILED || s EXPIRED
  else
    (has_main && (if fail_tolerated t then (req_ok && s SUCCEEDED) || s FAILED else req_ok))
    || (submit_fail_tolerated t && s SUBMIT_FAILED)
    || (expiry_tolerated t && s EXPIRED).

(* ---- TaskPool.remove_if_complete ---- *)
(* statuses numbered as TASK_STATUSES_ORDERED *)
Definition ST_EXPIRED := 1.
Definition ST_SUBMIT_FAILED := 3.
Definition ST_FAILED := 6.
Definition ST_SUCCEEDED := 7.
Definition status_final (st : nat) : bool :=
  mem Nat.eqb st [ST_EXPIRED; ST_SUBMIT_FAILED; ST_FAILED; ST_SUCCEEDED].
Definition status_failure (st : nat) : bool := mem Nat.eqb st [ST_FAILED; ST_SUBMIT_FAILED].

Inductive retain_result :=
| Removed                      (* self.remove(itask); return True *)
| Retained (logged : bool)     (* return False; warning logged? *)
| NameErr.                     (* the completion expression raised *)

(* [out_final] : the `output` argument is one of TASK_STATUSES_FINAL *)
Definition remove_if_complete (st : nat) (compat : bool) (out_final : bool)
           (complete : option bool) : retain_result :=
  if negb (status_final st) then Retained false
  else if compat then (if status_failure st then Retained false else Removed)
  else match complete with
       | None => NameErr
       | Some true => Removed
       | Some false => Retained out_final
       end.

Definition retain_result_eqb (a b : retain_result) : bool :=
  match a, b with
  | Removed, Removed | NameErr, NameErr => true
  | Retained x, Retained y => Bool.eqb x y
  | _, _ => false
  end.

(* ---- correspondence interface: expression stream ---- *)
Record case := {
  c_tdef : tdef;
  c_user : option bexpr;               (* user completion expression, parsed by the harness *)
  c_atoms : list nat;                  (* outputs enumerated, in this order *)
  c_impl_blank : bool;                 (* get_completion_expression(tdef) == '' *)
  c_impl_table : list (option bool)    (* real is_complete() for every subset of c_atoms *)
}.

Definition model_out (c : case) : bool * list (option bool) :=
  (match c_user c with Some _ => false | None => negb (nonempty (default_parts (c_tdef c))) end,
   map (is_complete (c_tdef c) (c_user c)) (subsets (c_atoms c))).

Definition check_case (c : case) : bool :=
  let '(blank, table) := model_out c in
  Bool.eqb blank (c_impl_blank c)
  && list_eqb (option_eqb Bool.eqb) table (c_impl_table c)
  (* and, for default expressions, the documented rule itself *)
  && match c_user c with
     | Some _ => true
     | None => list_eqb (option_eqb Bool.eqb)
                 (map (fun s => Some (spec_complete (c_tdef c) (env_of s))) (subsets (c_atoms c)))
                 (c_impl_table c)
     end.

(* ---- correspondence interface: retention stream ---- *)
Record rcase := {
  r_tdef : tdef;
  r_user : option bexpr;
  r_done : list nat;
  r_status : nat;
  r_compat : bool;
  r_out_final : bool;
  r_impl : retain_result
}.

Definition rmodel_out (c : rcase) : retain_result :=
  remove_if_complete (r_status c) (r_compat c) (r_out_final c)
    (is_complete (r_tdef c) (r_user c) (r_done c)).

Definition rcheck_case (c : rcase) : bool := retain_result_eqb (rmodel_out c) (r_impl c).
