(* Model/LikeGlob.v — executable model of cylc/flow/dbstatecheck.py
   (CylcWorkflowDBChecker.workflow_state_query, _selector_in_outputs,
   check_polling_config) together with the SQLite pattern operators it relies
   on (LIKE, GLOB, ==).  Hand model; the SQLite operators are validated against
   the real sqlite3 library by the "sqlite" stream of C40, the query model
   against the real CylcWorkflowDBChecker by the "query" stream.

   Text is a list of Unicode code points (Z).  Status / output strings are
   interned by the harness: 0 waiting, 1 expired, 2 preparing, 3 submit-failed,
   4 submitted, 5 running, 6 failed, 7 succeeded, 8 finished, 9 finish,
   >= 10 anything else. *)
From Coq Require Import List ZArith Bool Arith Lia.
From Cylc Require Import Base.Util.
Import ListNotations.
Open Scope Z_scope.

Definition str := list Z.

Definition c_star : Z := 42.   (* * *)
Definition c_pct : Z := 37.    (* % *)
Definition c_us : Z := 95.     (* _ *)
Definition c_qm : Z := 63.     (* ? *)
Definition c_lb : Z := 91.     (* [ *)
Definition c_rb : Z := 93.     (* ] *)
Definition c_caret : Z := 94.  (* ^ *)
Definition c_dash : Z := 45.   (* - *)

(* ---------- a token-level wildcard matcher ---------- *)
Inductive tok :=
| TStar                                       (* any sequence of characters *)
| TAny                                        (* exactly one character *)
| TLit (c : Z)                                (* one literal character *)
| TSet (inv : bool) (items : list (Z * Z))    (* GLOB [...] : ranges lo..hi *)
| TBad                                        (* unterminated [ : never matches *)
| TFuel.                                      (* tokenizer ran out of fuel *)

Definition in_range (x : Z) (r : Z * Z) : bool := (fst r <=? x) && (x <=? snd r).

Definition tok1 (eq : Z -> Z -> bool) (t : tok) (x : Z) : bool :=
  match t with
  | TAny => true
  | TLit c => eq c x
  | TSet inv items => xorb inv (existsb (in_range x) items)
  | _ => false
  end.

Fixpoint tmatch (eq : Z -> Z -> bool) (p : list tok) : str -> bool :=
  match p with
  | [] => fun s => match s with [] => true | _ => false end
  | t :: p' =>
      match t with
      | TStar =>
          fix star (s : str) : bool :=
            tmatch eq p' s || match s with [] => false | _ :: s' => star s' end
      | TBad | TFuel => fun _ => false
      | _ => fun s => match s with
                      | [] => false
                      | x :: s' => tok1 eq t x && tmatch eq p' s'
                      end
      end
  end.

(* ---------- the property's own notion of matching ---------- *)
(* '*' matches any sequence, every other character only itself *)
Definition spec_tok (c : Z) : tok := if c =? c_star then TStar else TLit c.
Definition spec_glob (p s : str) : bool := tmatch Z.eqb (map spec_tok p) s.

(* ---------- SQLite LIKE (no ESCAPE, default case_sensitive_like=OFF) ---------- *)
(* sqlite3Tolower: only ASCII letters are folded *)
Definition fold_ascii (c : Z) : Z := if (65 <=? c) && (c <=? 90) then c + 32 else c.
Definition eq_nocase (a b : Z) : bool := fold_ascii a =? fold_ascii b.
Definition like_tok (c : Z) : tok :=
  if c =? c_pct then TStar else if c =? c_us then TAny else TLit c.
Definition sqlite_like (p s : str) : bool := tmatch eq_nocase (map like_tok p) s.

(* ---------- SQLite GLOB (case sensitive; * ? [set]) ---------- *)
(* the body of a [...] set after the optional ^ and the optional leading ] *)
Fixpoint set_items (prior : Z) (p : str) : option (list (Z * Z) * str) :=
  match p with
  | [] => None
  | c2 :: r =>
      if c2 =? c_rb then Some ([], r)
      else
        match r with
        | hi :: r' =>
            if (c2 =? c_dash) && negb (hi =? c_rb) && (0 <? prior) then
              match set_items 0 r' with
              | Some (it, rest) => Some ((prior, hi) :: it, rest)
              | None => None
              end
            else
              match set_items c2 r with
              | Some (it, rest) => Some ((c2, c2) :: it, rest)
              | None => None
              end
        | [] => None   (* c2 is the last pattern character and is not ] *)
        end
  end.

Definition parse_set (p : str) : option (bool * list (Z * Z) * str) :=
  let '(inv, p1) := match p with
                    | c :: r => if c =? c_caret then (true, r) else (false, p)
                    | [] => (false, p)
                    end in
  let '(first, p2) := match p1 with
                      | c :: r => if c =? c_rb then ([(c_rb, c_rb)], r) else ([], p1)
                      | [] => ([], p1)
                      end in
  match set_items 0 p2 with
  | Some (it, rest) => Some (inv, first ++ it, rest)
  | None => None
  end.

Fixpoint glob_toks (fuel : nat) (p : str) : list tok :=
  match fuel with
  | O => [TFuel]
  | S f =>
      match p with
      | [] => []
      | c :: r =>
          if c =? c_star then TStar :: glob_toks f r
          else if c =? c_qm then TAny :: glob_toks f r
          else if c =? c_lb then
            match parse_set r with
            | Some (inv, items, r') => TSet inv items :: glob_toks f r'
            | None => [TBad]
            end
          else TLit c :: glob_toks f r
      end
  end.

Definition sqlite_glob (p s : str) : bool :=
  tmatch Z.eqb (glob_toks (S (List.length p)) p) s.

(* escaping proposed for the fix: ? and [ become one-character sets *)
Definition glob_escape (p : str) : str :=
  flat_map (fun c => if (c =? c_qm) || (c =? c_lb) then [c_lb; c; c_rb] else [c]) p.

(* ---------- what the code does with a task / cycle pattern ---------- *)
Definition has_star (p : str) : bool := mem Z.eqb c_star p.
(* pre-fix: str.replace('*', '%') *)
Definition translate (p : str) : str := map (fun c => if c =? c_star then c_pct else c) p.
Definition str_eqb (a b : str) : bool := list_eqb Z.eqb a b.

(* `if task:` — None and '' add no WHERE clause.
   Current code (after fix 5844984): a pattern with '*' is run as
   `name GLOB ?` on _glob_escape(pattern); otherwise `name==?`. *)
Definition code_match (pat : option str) (s : str) : bool :=
  match pat with
  | None => true
  | Some [] => true
  | Some p => if has_star p then sqlite_glob (glob_escape p) s else str_eqb p s
  end.

(* PRE-FIX code (before 5844984), kept only to document the defect that was fixed:
   '*' -> '%' and `name like ?`. *)
Definition legacy_code_match (pat : option str) (s : str) : bool :=
  match pat with
  | None => true
  | Some [] => true
  | Some p => if has_star p then sqlite_like (translate p) s else str_eqb p s
  end.

Definition spec_match (pat : option str) (s : str) : bool :=
  match pat with
  | None => true
  | Some p => spec_glob p s
  end.

(* ---------- rows, queries ---------- *)
Definition sid := nat.           (* interned status / trigger / message string *)
Definition s_expired : sid := 1%nat.
Definition s_submit_failed : sid := 3%nat.
Definition s_failed : sid := 6%nat.
Definition s_succeeded : sid := 7%nat.
Definition s_finished : sid := 8%nat.
Definition s_finish : sid := 9%nat.

Record row := {
  r_name : str;
  r_cycle : str;
  r_flows : list Z;               (* deserialised flow_nums *)
  r_status : sid;                 (* task_states.status *)
  r_is_dict : bool;               (* task_outputs.outputs is {trigger: message} (8.3+) or [message] *)
  r_outputs : list (sid * sid)    (* (trigger, message); for the list form both = message *)
}.

Record query := {
  q_task : option str;
  q_cycle : option str;
  q_sel : option sid;
  q_trigger : bool;
  q_message : bool;
  q_flow : option Z
}.

Definition sid_mem (x : sid) (l : list sid) : bool := mem Nat.eqb x l.

(* check_polling_config: status polling only for final statuses *)
Definition polling_ok (q : query) : bool :=
  match q_sel q with
  | Some s =>
      if q_trigger q || q_message q then true
      else sid_mem s [s_expired; s_submit_failed; s_failed; s_succeeded]
  | None => true
  end.

Definition flow_ok (f : option Z) (flows : list Z) : bool :=
  match f with None => true | Some n => mem Z.eqb n flows end.

(* _selector_in_outputs *)
Definition selector_in_outputs (x : sid) (outs : list sid) : bool :=
  sid_mem x outs ||
  ((Nat.eqb x s_finished || Nat.eqb x s_finish) &&
   (sid_mem s_succeeded outs || sid_mem s_failed outs)).

Definition sel_ok (q : query) (r : row) : bool :=
  if q_trigger q || q_message q then
    match q_sel q with
    | None => true
    | Some x =>
        let keys := map fst (r_outputs r) in
        let msgs := map snd (r_outputs r) in
        (q_message q && sid_mem x msgs) ||
        (q_trigger q && selector_in_outputs x (if r_is_dict r then keys else msgs))
    end
  else
    match q_sel q with
    | None => true
    | Some x => Nat.eqb (r_status r) x
    end.

(* the row filter, parametrised by the pattern matcher *)
Definition row_ok (m : option str -> str -> bool) (q : query) (r : row) : bool :=
  m (q_task q) (r_name r) && m (q_cycle q) (r_cycle r) &&
  sel_ok q r && flow_ok (q_flow q) (r_flows r).

Fixpoint select_from (f : row -> bool) (i : nat) (rows : list row) : list nat :=
  match rows with
  | [] => []
  | r :: rest => if f r then i :: select_from f (S i) rest else select_from f (S i) rest
  end.

(* None = InputError from check_polling_config; Some l = indices of returned rows *)
Definition run_query_with (m : option str -> str -> bool) (q : query) (rows : list row)
  : option (list nat) :=
  if polling_ok q then Some (select_from (row_ok m q) 0 rows) else None.

Definition code_query := run_query_with code_match.
Definition legacy_code_query := run_query_with legacy_code_match.   (* pre-fix *)
Definition spec_query := run_query_with spec_match.

(* ---------- correspondence interface ---------- *)
(* query stream: the implementation's answer as ascending row indices *)
Record case := { c_rows : list row; c_query : query; c_impl : option (list nat) }.
Definition model_out (c : case) := code_query (c_query c) (c_rows c).
Definition check_case (c : case) : bool :=
  option_eqb (list_eqb Nat.eqb) (model_out c) (c_impl c).

(* sqlite stream: op 0 = LIKE, 1 = GLOB, 2 = GLOB on the escaped pattern *)
Record sqcase := { s_op : nat; s_pat : str; s_str : str; s_impl : bool }.
Definition sq_model (c : sqcase) : bool :=
  match s_op c with
  | O => sqlite_like (s_pat c) (s_str c)
  | S O => sqlite_glob (s_pat c) (s_str c)
  | _ => sqlite_glob (glob_escape (s_pat c)) (s_str c)
  end.
Definition check_sqcase (c : sqcase) : bool := Bool.eqb (sq_model c) (s_impl c).
