(* Model/OptOutputs.v — executable model of
     cylc/flow/task_outputs.py : get_optional_outputs, TaskOutputs.iter_required_messages
     cylc/flow/config.py       : WorkflowConfig._check_completion_expression (consistency part)
     cylc/flow/run_modes/skip.py : process_outputs
   Hand model, tied to the source by the C12 correspondence streams.
   Outputs are numbered by completion variable as in Model/Completion.v. *)
From Coq Require Import List Bool Arith.
From Cylc Require Import Base.Util Model.BExpr Model.Completion.
Import ListNotations.

(* 'expired' and 'submit_failed': the pre-execution outcomes *)
Definition pre_exec (v : nat) : bool := Nat.eqb v EXPIRED || Nat.eqb v SUBMIT_FAILED.

Definition is_disabled (disable : option nat) (v : nat) : bool :=
  match disable with Some d => Nat.eqb d v | None => false end.

(* the keyword arguments get_optional_outputs passes to the evaluator when it
   tests output [o]:
     {**{out: out != output for out in all_compvars},
      'expired': False, 'submit_failed': False, **extra_excludes}
   (later keys win); any other name is unbound *)
Definition goo_env (outs : list nat) (disable : option nat) (o v : nat) : option bool :=
  if is_disabled disable v then Some false
  else if pre_exec v then Some false
  else if mem Nat.eqb v outs then Some (negb (Nat.eqb v o))
  else None.

Inductive cls :=
| NameErr                 (* evaluation raised NameError *)
| Unref                   (* None : not referenced *)
| Opt (b : bool).         (* the value of the expression: true = optional, false = required *)

Definition cls_eqb (a b : cls) : bool :=
  match a, b with
  | NameErr, NameErr | Unref, Unref => true
  | Opt x, Opt y => Bool.eqb x y
  | _, _ => false
  end.

(* blank expression (None): nothing is referenced *)
Definition classify (e : option bexpr) (outs : list nat) (disable : option nat) (o : nat) : cls :=
  match e with
  | None => Unref
  | Some e =>
      if uses e o then
        match evalo (goo_env outs disable o) e with
        | None => NameErr
        | Some b => Opt b
        end
      else Unref
  end.

Definition evars (e : option bexpr) : list nat := match e with Some e => vars e | None => [] end.

(* keys of the returned dict: used_compvars | all_compvars, canonical order *)
Definition keys (e : option bexpr) (outs : list nat) : list nat := canon_set (evars e ++ outs).

(* get_optional_outputs: None = NameError propagated *)
Definition get_optional_outputs (e : option bexpr) (outs : list nat) (disable : option nat)
  : option (list (nat * cls)) :=
  let r := map (fun o => (o, classify e outs disable o)) (keys e outs) in
  if existsb (fun p => cls_eqb (snd p) NameErr) r then None else Some r.

(* TaskOutputs.iter_required_messages: messages of registered outputs whose
   classification `is False` *)
Definition iter_required (e : option bexpr) (outs : list nat) (disable : option nat)
  : option (list nat) :=
  match get_optional_outputs e outs disable with
  | None => None
  | Some r => Some (map fst (filter (fun p => cls_eqb (snd p) (Opt false) && mem Nat.eqb (fst p) outs) r))
  end.

(* ---------- the documented meaning ---------- *)
(* "that output alone is missing, treating expired and submit-failed as absent" *)
Definition alone_missing (o : nat) : nat -> bool :=
  fun v => negb (pre_exec v) && negb (Nat.eqb v o).

(* same with one more output forced absent (skip mode's `disable`) *)
Definition missing_with (disable : option nat) (o : nat) : nat -> bool :=
  fun v => negb (is_disabled disable v) && alone_missing o v.

(* ---------- validation: graph vs expression ---------- *)
(* graph_optionals.get(v): True optional / False required / None unset, with
   "failed is implicitly optional if succeeded is optional" *)
Definition gopt (t : tdef) (v : nat) : option bool :=
  if Nat.eqb v FAILED && is_optional t SUCCEEDED
     && match flag t FAILED with None => true | _ => false end
     && match assoc Nat.eqb FAILED t with Some _ => true | None => false end
  then Some true
  else option_map negb (flag t v).

Definition eopt (c : cls) : option bool := match c with Opt b => Some b | _ => None end.

(* the four `if ... raise WorkflowConfigError` tests of the consistency loop *)
Definition pair_ok (v : nat) (g e : option bool) : bool :=
  match g, e with
  | Some true, Some false => false
  | Some false, None => false
  | Some true, None => negb (pre_exec v)
  | Some false, Some true => pre_exec v
  | _, _ => true
  end.

(* the table in the source comment, row by row; [pre] = the output is
   submit-failed or expired (footnote [1]) *)
Definition table (pre : bool) (g e : option bool) : bool :=
  match g, e with
  | Some true,  Some true  => true
  | Some true,  Some false => false
  | Some true,  None       => negb pre     (* not ok only for submit-failed / expired *)
  | Some false, Some true  => pre          (* not ok except for submit-failed / expired *)
  | Some false, Some false => true
  | Some false, None       => false
  | None,       Some true  => true
  | None,       Some false => true
  | None,       None       => true
  end.

Inductive verdict :=
| Accept
| RejectExpr            (* "Error in [runtime][a]completion": the expression could not be evaluated *)
| RejectInconsistent.   (* inconsistent with the graph *)

Definition verdict_eqb (a b : verdict) : bool :=
  match a, b with
  | Accept, Accept | RejectExpr, RejectExpr | RejectInconsistent, RejectInconsistent => true
  | _, _ => false
  end.

Definition lookup_cls (r : list (nat * cls)) (v : nat) : cls :=
  match assoc Nat.eqb v r with Some c => c | None => Unref end.

(* valid only when every name used is a registered output (otherwise the real
   code fails with KeyError while building the error message) *)
Definition check_completion (t : tdef) (e : bexpr) : verdict :=
  let outs := map fst t in
  match get_optional_outputs (Some e) outs None with
  | None => RejectExpr
  | Some r =>
      if forallb (fun v => pair_ok v (gopt t v) (eopt (lookup_cls r v))) (keys (Some e) outs)
      then Accept else RejectInconsistent
  end.

(* ---------- skip mode ---------- *)
Definition is_nil {A} (l : list A) : bool := match l with [] => true | _ => false end.

(* which of succeeded/failed to produce: failed if configured, or if nothing is
   configured and `failed` is a required output (no disable); None = NameError *)
Definition emit_failed (e : option bexpr) (outs : list nat) (conf : list nat) : option bool :=
  if mem Nat.eqb FAILED conf then Some true
  else if is_nil conf then
    match iter_required e outs None with
    | None => None
    | Some req => Some (mem Nat.eqb FAILED req)
    end
  else Some false.

Definition skip_disable (ef : bool) : nat := if ef then SUCCEEDED else FAILED.

(* process_outputs; [conf] = rtconfig['skip']['outputs'] *)
Definition skip_outputs (e : option bexpr) (outs : list nat) (conf : list nat) : option (list nat) :=
  match emit_failed e outs conf with
  | None => None
  | Some ef =>
      match iter_required e outs (Some (skip_disable ef)) with
      | None => None
      | Some req =>
          Some (canon_set (
            [SUBMITTED; STARTED]
            ++ filter (fun m => negb (Nat.eqb m SUCCEEDED) && negb (Nat.eqb m FAILED)
                                && (is_nil conf || mem Nat.eqb m conf)) req
            ++ filter (fun m => mem Nat.eqb m conf) outs
            ++ [if ef then FAILED else SUCCEEDED]))
      end
  end.

(* ---------- correspondence interface ---------- *)
Definition cls_list_eqb := list_eqb (pair_eqb Nat.eqb cls_eqb).

(* stream "classify" *)
Record case := {
  c_expr : option bexpr;
  c_outs : list nat;
  c_disable : option nat;
  c_impl : option (list (nat * cls));      (* sorted by key; None = NameError *)
  c_impl_req : option (list nat)           (* sorted required compvars among outs *)
}.

Definition model_out (c : case) :=
  (get_optional_outputs (c_expr c) (c_outs c) (c_disable c),
   iter_required (c_expr c) (c_outs c) (c_disable c)).

Definition check_case (c : case) : bool :=
  option_eqb cls_list_eqb (fst (model_out c)) (c_impl c)
  && option_eqb (list_eqb Nat.eqb) (snd (model_out c)) (c_impl_req c).

(* stream "validate" *)
Record vcase := { v_tdef : tdef; v_expr : bexpr; v_impl : verdict }.
Definition vmodel_out (c : vcase) : verdict := check_completion (v_tdef c) (v_expr c).
Definition vcheck_case (c : vcase) : bool := verdict_eqb (vmodel_out c) (v_impl c).

(* stream "skip" *)
Record scase := {
  s_tdef : tdef;
  s_user : option bexpr;
  s_conf : list nat;
  s_impl : option (list nat)       (* sorted output ids; None = NameError *)
}.
Definition s_expr (c : scase) : option bexpr :=
  match s_user c with Some e => Some e | None => default_expr (s_tdef c) end.
Definition smodel_out (c : scase) : option (list nat) :=
  skip_outputs (s_expr c) (map fst (s_tdef c)) (s_conf c).
Definition scheck_case (c : scase) : bool :=
  option_eqb (list_eqb Nat.eqb) (smodel_out c) (s_impl c).
