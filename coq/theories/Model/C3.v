(* Model/C3.v — executable model of cylc/flow/c3mro.py (class C3).
   Hand model, tied to the source by the correspondence check of C35.
   Names are natural numbers (the harness numbers the namespace names; the
   real code only ever compares names for equality and truthiness, and names
   are non-empty strings, so every name is "truthy"). *)
From Coq Require Import List Bool Arith Lia.
From Cylc Require Import Base.Util.
Import ListNotations.

Definition name := nat.
(* tree : namespace -> its direct parents, in declaration order *)
Definition tree := list (name * list name).

Inductive res (A : Type) := Ok (a : A) | Inconsistent (label : name) | KeyError | OutOfFuel.
Arguments Ok {A} a. Arguments Inconsistent {A} label.
Arguments KeyError {A}. Arguments OutOfFuel {A}.

Definition nonempty (s : list name) : bool := match s with [] => false | _ => true end.

(* `cand in s[1:]` *)
Definition in_tail (c : name) (s : list name) : bool := mem Nat.eqb c (tl s).

(* the `for seq in nonemptyseqs:` loop: first head that is in no tail *)
Fixpoint find_cand (todo all : list (list name)) : option name :=
  match todo with
  | [] => None
  | seq :: rest =>
      match seq with
      | [] => find_cand rest all
      | c :: _ => if existsb (in_tail c) all then find_cand rest all else Some c
      end
  end.

(* `if seq[0] == cand: del seq[0]` *)
Definition drop_head (c : name) (s : list name) : list name :=
  match s with
  | h :: t => if Nat.eqb h c then t else s
  | [] => []
  end.

Fixpoint merge (fuel : nat) (label : name) (seqs : list (list name)) : res (list name) :=
  match fuel with
  | 0 => OutOfFuel
  | S f =>
      let ne := filter nonempty seqs in
      match ne with
      | [] => Ok []
      | _ =>
          match find_cand ne ne with
          | None => Inconsistent label
          | Some c =>
              match merge f label (map (drop_head c) ne) with
              | Ok l => Ok (c :: l)
              | e => e
              end
          end
      end
  end.

Definition total_len (seqs : list (list name)) : nat := sum_nat (map (@length name) seqs).

(* collect results of a list of computations, first error wins (Python evaluates
   the list comprehension left to right and the first exception propagates) *)
Fixpoint all_ok {A} (l : list (res A)) : res (list A) :=
  match l with
  | [] => Ok []
  | Ok a :: r => match all_ok r with Ok l' => Ok (a :: l') | e => e end
  | Inconsistent x :: _ => Inconsistent x
  | KeyError :: _ => KeyError
  | OutOfFuel :: _ => OutOfFuel
  end.

Fixpoint mro (depth : nat) (t : tree) (c : name) : res (list name) :=
  match depth with
  | 0 => OutOfFuel
  | S d =>
      match assoc Nat.eqb c t with
      | None => KeyError
      | Some parents =>
          match all_ok (map (mro d t) parents) with
          | Ok ls =>
              let seqs := [[c]] ++ ls ++ [parents] in
              merge (S (total_len seqs)) c seqs
          | Inconsistent x => Inconsistent x
          | KeyError => KeyError
          | OutOfFuel => OutOfFuel
          end
      end
  end.

(* ---- correspondence interface ---- *)
(* outcome observed on the implementation: Some l = returned list,
   None = raised the "bad runtime namespace inheritance hierarchy" exception *)
Record case := { c_tree : tree; c_node : name; c_impl : option (list name) }.

Definition model_out (c : case) : res (list name) :=
  mro (S (length (c_tree c))) (c_tree c) (c_node c).

Definition check_case (c : case) : bool :=
  match model_out c, c_impl c with
  | Ok l, Some l' => list_eqb Nat.eqb l l'
  | Inconsistent _, None => true
  | _, _ => false
  end.
